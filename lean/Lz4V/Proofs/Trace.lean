import Lz4V.Proofs.PipeW
import Lz4V.Proofs.PipeR
/-!
# Proofs.Trace — the event-trace checkers `validTrace` accept every run of the pipeline LTSs

`eventOf s a` is the event the instrumented Go code logs when actor `a` takes its step in state `s`;
`traceOf s sched` collects the events of the enabled steps of a schedule.  The invariants `TInv` relate the
trace built so far to the state (ghost facts), are preserved by every step, and imply `validTrace`.
-/
namespace Lz4V.Proofs.Trace
open Lz4V.Model

/-! ## generic list facts -/

theorem range_filter_mem_range (a b : Nat) :
    (List.range a).filter (fun c => decide (c ∈ List.range b)) = List.range (min a b) := by
  induction a with
  | zero => simp
  | succ a ih =>
    rw [List.range_succ, List.filter_append, ih]
    by_cases h : a < b
    · have e1 : min a b = a := by omega
      have e2 : min (a + 1) b = a + 1 := by omega
      simp [e1, e2, h, List.range_succ]
    · have e1 : min a b = b := by omega
      have e2 : min (a + 1) b = b := by omega
      simp [e1, e2, h]

theorem range_prefix {a b : Nat} (h : a ≤ b) : (List.range a).isPrefixOf (List.range b) = true := by
  rw [List.isPrefixOf_iff_prefix]
  have : b = a + (b - a) := by omega
  rw [this, List.range_add]
  exact List.prefix_append _ _

theorem eraseDups_of_nodup (l : List Nat) (h : l.Nodup) : l.eraseDups = l := by
  induction l with
  | nil => simp
  | cons a as ih =>
    rw [List.eraseDups_cons]
    rw [List.nodup_cons] at h
    have : as.filter (fun b => !b == a) = as := by
      rw [List.filter_eq_self]
      intro x hx
      have : x ≠ a := fun e => h.1 (e ▸ hx)
      simp [this]
    rw [this, ih h.2]

theorem eraseDups_range (m : Nat) : (List.range m).eraseDups.length = (List.range m).length := by
  rw [eraseDups_of_nodup _ List.nodup_range]

/-! ## write pipeline -/
namespace W
open PipeW Proofs.PipeW

theorem idx_go_none {e : Ev} {l : List Ev} {i : Nat} (h : e ∉ l) : idx.go e l i = none := by
  induction l generalizing i with
  | nil => rfl
  | cons x xs ih =>
    simp only [List.mem_cons, not_or] at h
    simp only [idx.go]
    rw [if_neg (fun hx => h.1 hx.symm)]
    exact ih h.2

theorem idx_go_some {e : Ev} {l : List Ev} {i : Nat} (h : e ∈ l) :
    ∃ j, idx.go e l i = some j ∧ i ≤ j ∧ j < i + l.length := by
  induction l generalizing i with
  | nil => simp at h
  | cons x xs ih =>
    simp only [idx.go]
    by_cases hx : x = e
    · rw [if_pos hx]; exact ⟨i, rfl, Nat.le_refl _, by simp⟩
    · rw [if_neg hx]
      have : e ∈ xs := by
        rcases List.mem_cons.1 h with h | h
        · exact absurd h.symm hx
        · exact h
      obtain ⟨j, h1, h2, h3⟩ := ih (i := i + 1) this
      exact ⟨j, h1, by omega, by simp only [List.length_cons]; omega⟩

theorem idx_go_append_mem {e : Ev} {l m : List Ev} {i : Nat} (h : e ∈ l) :
    idx.go e (l ++ m) i = idx.go e l i := by
  induction l generalizing i with
  | nil => simp at h
  | cons x xs ih =>
    simp only [List.cons_append, idx.go]
    by_cases hx : x = e
    · rw [if_pos hx, if_pos hx]
    · rw [if_neg hx, if_neg hx]
      have : e ∈ xs := by
        rcases List.mem_cons.1 h with h | h
        · exact absurd h.symm hx
        · exact h
      exact ih this

theorem idx_go_append_not_mem {e : Ev} {l m : List Ev} {i : Nat} (h : e ∉ l) :
    idx.go e (l ++ m) i = idx.go e m (i + l.length) := by
  induction l generalizing i with
  | nil => simp
  | cons x xs ih =>
    simp only [List.mem_cons, not_or] at h
    simp only [List.cons_append, idx.go]
    rw [if_neg (fun hx => h.1 hx.symm), ih h.2]
    congr 1; simp only [List.length_cons]; omega

/-- appending one event keeps `a` before `b` provided that, when the new event is `b`, `a` is already there -/
theorem before_snoc {l : List Ev} {a b e : Ev} (h : before l a b = true) (hb : e = b → a ∈ l) :
    before (l ++ [e]) a b = true := by
  unfold before idx at *
  by_cases hbl : b ∈ l
  · obtain ⟨j, hj, _, _⟩ := idx_go_some (i := 0) hbl
    rw [idx_go_append_mem hbl, hj]
    rw [hj] at h
    by_cases hal : a ∈ l
    · rw [idx_go_append_mem hal]; exact h
    · rw [idx_go_none hal] at h; simp at h
  · rw [idx_go_append_not_mem hbl]
    by_cases he : e = b
    · have hal := hb he
      obtain ⟨i, hi, _, hi2⟩ := idx_go_some (i := 0) hal
      rw [idx_go_append_mem hal, hi]
      simp only [idx.go, if_pos he]
      simp only [Nat.zero_add, decide_eq_true_eq]; omega
    · simp only [idx.go, if_neg he]

theorem before_nil (a b : Ev) : before [] a b = true := by
  simp [before, idx, idx.go]

def deqAll (l : List Ev) : List Nat :=
  l.filterMap (fun e => match e with | .dequeued c => some c | _ => none)

theorem mem_chansOf {l : List Ev} {c : Nat} : c ∈ chansOf l ↔ Ev.submit c ∈ l := by
  simp only [chansOf, List.mem_filterMap]
  constructor
  · rintro ⟨e, he, h⟩
    cases e <;> simp at h
    subst h; exact he
  · intro h; exact ⟨_, h, rfl⟩

theorem mem_writtenOf {l : List Ev} {c : Nat} : c ∈ writtenOf l ↔ Ev.written c ∈ l := by
  simp only [writtenOf, List.mem_filterMap]
  constructor
  · rintro ⟨e, he, h⟩
    cases e <;> simp at h
    subst h; exact he
  · intro h; exact ⟨_, h, rfl⟩

theorem dequeuedOf_eq (l : List Ev) (subs : List Nat) :
    dequeuedOf l subs = (deqAll l).filter (fun c => decide (c ∈ subs)) := by
  simp only [dequeuedOf, deqAll, List.filter_filterMap]
  congr 1
  funext e
  cases e <;> simp [Option.filter]

theorem mem_deqAll {l : List Ev} {c : Nat} : c ∈ deqAll l ↔ Ev.dequeued c ∈ l := by
  simp only [deqAll, List.mem_filterMap]
  constructor
  · rintro ⟨e, he, h⟩
    cases e <;> simp at h
    subst h; exact he
  · intro h; exact ⟨_, h, rfl⟩

/-- the event logged by the instrumented code when actor `a` takes its step in state `s` -/
def eventOf (s : State) (a : Actor) : Option Ev :=
  match a with
  | .producer =>
    match s.p with
    | .submit k => some (.submit k)
    | .sentEnq => some (.sentinel s.n)
    | _ => none
  | .orderer =>
    match s.o with
    | .idle =>
      match s.queue with
      | i :: _ => some (.dequeued i)
      | [] => none
    | .recv i => if i < s.n then none else some (.done i)
    | .closing i => if i < s.n then some (.written i) else none
    | _ => none
  | .worker k =>
    match s.w[k]? with
    | some .compress => some (.compressed k)
    | some .release => some (.released k)
    | _ => none

def traceOf (s : State) : List Actor → List Ev
  | [] => []
  | a :: as =>
    match step s a with
    | none => traceOf s as
    | some s' => (eventOf s a).toList ++ traceOf s' as

/-- the per-channel order clauses of `validTrace`, for every block channel -/
def Ord (n : Nat) (tr : List Ev) : Prop :=
  ∀ c, c < n →
    before tr (.submit c) (.compressed c) = true ∧ before tr (.submit c) (.dequeued c) = true ∧
    before tr (.dequeued c) (.written c) = true ∧ before tr (.compressed c) (.written c) = true ∧
    before tr (.written c) (.released c) = true

theorem ord_nil (n : Nat) : Ord n [] := fun _ _ =>
  ⟨before_nil _ _, before_nil _ _, before_nil _ _, before_nil _ _, before_nil _ _⟩

theorem ord_submit {n tr} (k : Nat) (h : Ord n tr) : Ord n (tr ++ [.submit k]) := by
  intro c hc
  obtain ⟨h1, h2, h3, h4, h5⟩ := h c hc
  refine ⟨before_snoc h1 ?_, before_snoc h2 ?_, before_snoc h3 ?_, before_snoc h4 ?_, before_snoc h5 ?_⟩ <;>
    (intro he; cases he)

theorem ord_sentinel {n tr} (k : Nat) (h : Ord n tr) : Ord n (tr ++ [.sentinel k]) := by
  intro c hc
  obtain ⟨h1, h2, h3, h4, h5⟩ := h c hc
  refine ⟨before_snoc h1 ?_, before_snoc h2 ?_, before_snoc h3 ?_, before_snoc h4 ?_, before_snoc h5 ?_⟩ <;>
    (intro he; cases he)

theorem ord_done {n tr} (k : Nat) (h : Ord n tr) : Ord n (tr ++ [.done k]) := by
  intro c hc
  obtain ⟨h1, h2, h3, h4, h5⟩ := h c hc
  refine ⟨before_snoc h1 ?_, before_snoc h2 ?_, before_snoc h3 ?_, before_snoc h4 ?_, before_snoc h5 ?_⟩ <;>
    (intro he; cases he)

theorem ord_compressed {n tr} (k : Nat) (h : Ord n tr) (hk : Ev.submit k ∈ tr) : Ord n (tr ++ [.compressed k]) := by
  intro c hc
  obtain ⟨h1, h2, h3, h4, h5⟩ := h c hc
  refine ⟨before_snoc h1 ?_, before_snoc h2 ?_, before_snoc h3 ?_, before_snoc h4 ?_, before_snoc h5 ?_⟩ <;>
    (intro he; cases he)
  exact hk

theorem ord_dequeued {n tr} (k : Nat) (h : Ord n tr) (hk : k < n → Ev.submit k ∈ tr) : Ord n (tr ++ [.dequeued k]) := by
  intro c hc
  obtain ⟨h1, h2, h3, h4, h5⟩ := h c hc
  refine ⟨before_snoc h1 ?_, before_snoc h2 ?_, before_snoc h3 ?_, before_snoc h4 ?_, before_snoc h5 ?_⟩ <;>
    (intro he; cases he)
  exact hk hc

theorem ord_written {n tr} (k : Nat) (h : Ord n tr) (hd : Ev.dequeued k ∈ tr) (hcm : Ev.compressed k ∈ tr) :
    Ord n (tr ++ [.written k]) := by
  intro c hc
  obtain ⟨h1, h2, h3, h4, h5⟩ := h c hc
  refine ⟨before_snoc h1 ?_, before_snoc h2 ?_, before_snoc h3 ?_, before_snoc h4 ?_, before_snoc h5 ?_⟩ <;>
    (intro he; cases he)
  · exact hd
  · exact hcm

theorem ord_released {n tr} (k : Nat) (h : Ord n tr) (hk : Ev.written k ∈ tr) : Ord n (tr ++ [.released k]) := by
  intro c hc
  obtain ⟨h1, h2, h3, h4, h5⟩ := h c hc
  refine ⟨before_snoc h1 ?_, before_snoc h2 ?_, before_snoc h3 ?_, before_snoc h4 ?_, before_snoc h5 ?_⟩ <;>
    (intro he; cases he)
  exact hk

/-- number of dequeue operations the orderer has performed -/
def dqN (c : Nat) : OPc → Nat
  | .idle | .exited => c
  | _ => c + 1

/-- ghost facts relating the trace logged so far to the state -/
structure TInv (s : State) (tr : List Ev) : Prop where
  subs : chansOf tr = List.range s.w.length
  wrs : writtenOf tr = List.range (min s.closed.length s.n)
  deqs : deqAll tr = List.range (dqN s.closed.length s.o)
  ord : Ord s.n tr
  compM : ∀ k x, s.w[k]? = some x → x ≠ .compress → Ev.compressed k ∈ tr
  doneM : s.p = .sentWait ∨ s.p = .returned → Ev.done s.n ∈ tr

theorem tinv_init (num n : Nat) (f : Option Nat) : TInv (init num n f) [] := by
  unfold init
  constructor <;> try (simp [chansOf, writtenOf, deqAll, dqN]; done)
  · exact ord_nil _
  · dsimp only; split <;> simp

theorem chansOf_snoc (tr : List Ev) (e : Ev) :
    chansOf (tr ++ [e]) = chansOf tr ++ (match e with | .submit c => [c] | _ => []) := by
  simp only [chansOf, List.filterMap_append]; cases e <;> rfl
theorem writtenOf_snoc (tr : List Ev) (e : Ev) :
    writtenOf (tr ++ [e]) = writtenOf tr ++ (match e with | .written c => [c] | _ => []) := by
  simp only [writtenOf, List.filterMap_append]; cases e <;> rfl
theorem deqAll_snoc (tr : List Ev) (e : Ev) :
    deqAll (tr ++ [e]) = deqAll tr ++ (match e with | .dequeued c => [c] | _ => []) := by
  simp only [deqAll, List.filterMap_append]; cases e <;> rfl

theorem wlen_le {num n f s} (hI : Inv num n f s) : s.w.length ≤ s.n := by
  have := hI.pinv
  cases hp : s.p <;> simp only [hp, pOk] at this <;> omega

theorem tinv_producer {num n f s s' tr} (hI : Inv num n f s) (h : TInv s tr) (hs : step s .producer = some s') :
    TInv s' (tr ++ (eventOf s .producer).toList) := by
  obtain ⟨subs, wrs, deqs, ord, compM, doneM⟩ := h
  have pinv := hI.pinv
  simp only [step] at hs
  split at hs
  · rename_i k hp
    split at hs
    · injection hs with hs; subst hs
      rw [hp] at pinv; simp only [pOk] at pinv
      have he : eventOf s .producer = some (.submit k) := by simp [eventOf, hp]
      rw [he]; simp only [Option.toList_some]
      constructor <;> dsimp only
      · rw [chansOf_snoc, subs]; simp only [List.length_append, List.length_singleton, List.range_succ, pinv.1]
      · rw [writtenOf_snoc]; simpa using wrs
      · rw [deqAll_snoc]; simpa using deqs
      · exact ord_submit k ord
      · intro k' x hx hne
        by_cases hk' : k' < s.w.length
        · rw [List.getElem?_append_left hk'] at hx
          exact List.mem_append_left _ (compM k' x hx hne)
        · have : k' = s.w.length := by
            have := (List.getElem?_eq_some_iff.1 hx).1; simp at this; omega
          subst this
          simp at hx; exact absurd hx.symm hne
      · intro hc; split at hc <;> simp at hc
    · simp at hs
  · rename_i hp
    split at hs
    · injection hs with hs; subst hs
      have he : eventOf s .producer = some (.sentinel s.n) := by simp [eventOf, hp]
      rw [he]; simp only [Option.toList_some]
      constructor <;> dsimp only
      · rw [chansOf_snoc]; simpa using subs
      · rw [writtenOf_snoc]; simpa using wrs
      · rw [deqAll_snoc]; simpa using deqs
      · exact ord_sentinel _ ord
      · intro k' x hx hne; exact List.mem_append_left _ (compM k' x hx hne)
      · intro hc; simp at hc
    · simp at hs
  · simp at hs
  · rename_i hp
    split at hs
    · injection hs with hs; subst hs
      have he : eventOf s .producer = none := by simp [eventOf, hp]
      rw [he]; simp only [Option.toList_none, List.append_nil]
      exact ⟨subs, wrs, deqs, ord, compM, fun _ => doneM (Or.inl hp)⟩
    · simp at hs
  · simp at hs

theorem compM_set {tr : List Ev} {w : List WPc} {k : Nat} {x0 v : WPc}
    (compM : ∀ k x, w[k]? = some x → x ≠ .compress → Ev.compressed k ∈ tr)
    (_hw : w[k]? = some x0) (hk : v ≠ .compress → Ev.compressed k ∈ tr) :
    ∀ k' x, (w.set k v)[k']? = some x → x ≠ .compress → Ev.compressed k' ∈ tr := by
  intro k' x hx hne
  rw [List.getElem?_set] at hx
  split at hx
  · rename_i hkk; subst hkk
    split at hx
    · injection hx with hx; subst hx; exact hk hne
    · simp at hx
  · exact compM k' x hx hne

theorem tinv_worker {num n f s s' tr} (k : Nat) (hI : Inv num n f s) (h : TInv s tr)
    (hs : step s (.worker k) = some s') : TInv s' (tr ++ (eventOf s (.worker k)).toList) := by
  obtain ⟨subs, wrs, deqs, ord, compM, doneM⟩ := h
  simp only [step] at hs
  split at hs
  · -- compress
    rename_i hw
    injection hs with hs; subst hs
    have he : eventOf s (.worker k) = some (.compressed k) := by simp [eventOf, hw]
    rw [he]; simp only [Option.toList_some]
    have hk : k < s.w.length := (List.getElem?_eq_some_iff.1 hw).1
    have hsub : Ev.submit k ∈ tr := by rw [← mem_chansOf, subs]; simpa using hk
    constructor <;> dsimp only [setAt]
    · rw [chansOf_snoc]; simpa using subs
    · rw [writtenOf_snoc]; simpa using wrs
    · rw [deqAll_snoc]; simpa using deqs
    · exact ord_compressed k ord hsub
    · apply compM_set (fun k x hx hne => List.mem_append_left _ (compM k x hx hne)) hw
      intro _; simp
    · intro hc; exact List.mem_append_left _ (doneM hc)
  · -- waitClose
    rename_i hw
    split at hs
    · injection hs with hs; subst hs
      have he : eventOf s (.worker k) = none := by simp [eventOf, hw]
      rw [he]; simp only [Option.toList_none, List.append_nil]
      constructor <;> dsimp only [setAt]
      · simpa using subs
      · exact wrs
      · exact deqs
      · exact ord
      · exact compM_set compM hw (fun _ => compM k _ hw (by simp))
      · exact doneM
    · simp at hs
  · -- release
    rename_i hw
    injection hs with hs; subst hs
    have he : eventOf s (.worker k) = some (.released k) := by simp [eventOf, hw]
    rw [he]; simp only [Option.toList_some]
    have hk : k < s.w.length := (List.getElem?_eq_some_iff.1 hw).1
    have hwn := wlen_le hI
    have hkc := hI.winv k _ hw
    simp only [wOk] at hkc
    have hwr : Ev.written k ∈ tr := by rw [← mem_writtenOf, wrs]; simp; omega
    constructor <;> dsimp only [setAt]
    · rw [chansOf_snoc]; simpa using subs
    · rw [writtenOf_snoc]; simpa using wrs
    · rw [deqAll_snoc]; simpa using deqs
    · exact ord_released k ord hwr
    · apply compM_set (fun k x hx hne => List.mem_append_left _ (compM k x hx hne)) hw
      intro _; exact List.mem_append_left _ (compM k _ hw (by simp))
    · intro hc; exact List.mem_append_left _ (doneM hc)
  · simp at hs

theorem tinv_orderer {num n f s s' tr} (hI : Inv num n f s) (h : TInv s tr)
    (hs : step s .orderer = some s') : TInv s' (tr ++ (eventOf s .orderer).toList) := by
  obtain ⟨subs, wrs, deqs, ord, compM, doneM⟩ := h
  have pinv := hI.pinv; have oinv := hI.oinv
  have hwn := wlen_le hI
  simp only [step] at hs
  split at hs
  · -- idle
    rename_i ho
    rw [ho] at pinv oinv deqs
    split at hs
    · simp at hs
    · rename_i i rest hq
      injection hs with hs; subst hs
      have he : eventOf s .orderer = some (.dequeued i) := by simp [eventOf, ho, hq]
      rw [he]; simp only [Option.toList_some]
      simp only [oOk] at oinv
      rw [hq] at oinv
      obtain ⟨h1, h2, h3⟩ := q_pop oinv.2
      constructor <;> dsimp only
      · rw [chansOf_snoc]; simpa using subs
      · rw [writtenOf_snoc]; simpa using wrs
      · rw [deqAll_snoc, deqs]; simp only [dqN, List.range_succ, h1]
      · apply ord_dequeued i ord
        intro hin
        rw [← mem_chansOf, subs]
        have : i < s.w.length := by
          cases hp : s.p <;> simp only [hp, pOk, tot, pExtra] at pinv h2 <;> omega
        simpa using this
      · intro k x hx hne; exact List.mem_append_left _ (compM k x hx hne)
      · intro hc; exact List.mem_append_left _ (doneM hc)
  · -- recv
    rename_i i ho
    rw [ho] at pinv oinv deqs
    simp only [oOk] at oinv
    obtain ⟨h1, h2, h3⟩ := oinv
    split at hs
    · rename_i hin
      split at hs
      · rename_i hw
        injection hs with hs; subst hs
        have he : eventOf s .orderer = none := by simp [eventOf, ho, hin]
        rw [he]; simp only [Option.toList_none, List.append_nil]
        constructor <;> dsimp only [setAt]
        · simpa using subs
        · exact wrs
        · exact deqs
        · exact ord
        · exact compM_set compM hw (fun _ => compM i _ hw (by simp))
        · exact doneM
      · simp at hs
    · rename_i hin
      split at hs
      · rename_i hp
        injection hs with hs; subst hs
        have he : eventOf s .orderer = some (.done i) := by simp [eventOf, ho, hin]
        rw [he]; simp only [Option.toList_some]
        rw [hp] at pinv h2
        simp only [pOk] at pinv
        simp only [tot, pExtra] at h2
        have hi : i = s.n := by omega
        constructor <;> dsimp only
        · rw [chansOf_snoc]; simpa using subs
        · rw [writtenOf_snoc]; simpa using wrs
        · rw [deqAll_snoc]; simpa [dqN] using deqs
        · exact ord_done _ ord
        · intro k x hx hne; exact List.mem_append_left _ (compM k x hx hne)
        · intro _; rw [hi]; simp
      · simp at hs
  · -- write
    rename_i i ho
    rw [ho] at deqs
    have he : eventOf s .orderer = none := by simp [eventOf, ho]
    rw [he]; simp only [Option.toList_none, List.append_nil]
    split at hs
    · injection hs with hs; subst hs
      exact ⟨subs, wrs, deqs, ord, compM, doneM⟩
    · split at hs
      · injection hs with hs; subst hs
        exact ⟨subs, wrs, deqs, ord, compM, doneM⟩
      · injection hs with hs; subst hs
        exact ⟨subs, wrs, deqs, ord, compM, doneM⟩
  · -- closing
    rename_i i ho
    rw [ho] at pinv oinv deqs
    simp only [oOk] at oinv
    obtain ⟨h1, h2, h3⟩ := oinv
    have htot := tot_le pinv
    injection hs with hs; subst hs
    have hdq : dqN (i :: s.closed).length (if i = s.n then OPc.exited else OPc.idle) = dqN s.closed.length (.closing i) := by
      split <;> simp [dqN]
    by_cases hin : i < s.n
    · have he : eventOf s .orderer = some (.written i) := by simp [eventOf, ho, hin]
      rw [he]; simp only [Option.toList_some]
      have hd : Ev.dequeued i ∈ tr := by rw [← mem_deqAll, deqs]; simp [dqN]; omega
      have hwl : i < s.w.length := by
        cases hp : s.p <;> simp only [hp, pOk, tot, pExtra] at pinv h2 <;> omega
      have hcm : Ev.compressed i ∈ tr := by
        have hget : s.w[i]? = some s.w[i] := by simp [hwl]
        apply compM i _ hget
        intro hx
        have := hI.winv i _ hget
        rw [hx, ho] at this
        simp only [wOk, rcv, oExtra] at this
        omega
      constructor <;> dsimp only [setAt]
      · rw [chansOf_snoc]; simpa using subs
      · rw [writtenOf_snoc, wrs]
        simp only [List.length_cons]
        have e1 : min s.closed.length s.n = i := by omega
        have e2 : min (s.closed.length + 1) s.n = i + 1 := by omega
        rw [e1, e2, List.range_succ]
      · rw [deqAll_snoc, hdq]; simpa using deqs
      · exact ord_written i ord hd hcm
      · intro k x hx hne; exact List.mem_append_left _ (compM k x hx hne)
      · intro hc; exact List.mem_append_left _ (doneM hc)
    · have he : eventOf s .orderer = none := by simp [eventOf, ho, hin]
      rw [he]; simp only [Option.toList_none, List.append_nil]
      constructor <;> dsimp only [setAt]
      · exact subs
      · rw [wrs]; simp only [List.length_cons]
        congr 1; omega
      · rw [hdq]; exact deqs
      · exact ord
      · exact compM
      · exact doneM
  · simp at hs

theorem tinv_step {num n f s s' tr} (a : Actor) (hI : Inv num n f s) (h : TInv s tr)
    (hs : step s a = some s') : TInv s' (tr ++ (eventOf s a).toList) := by
  cases a
  · exact tinv_producer hI h hs
  · exact tinv_orderer hI h hs
  · exact tinv_worker _ hI h hs

theorem tinv_run {num n f} (sched : List Actor) :
    ∀ s tr, Inv num n f s → TInv s tr → TInv (run s sched) (tr ++ traceOf s sched) := by
  induction sched with
  | nil => intro s tr _ h; simpa [traceOf, run] using h
  | cons a as ih =>
    intro s tr hI h
    simp only [run, traceOf]
    cases hs : step s a with
    | none => simpa using ih s tr hI h
    | some s' =>
      simp only [Option.getD_some]
      rw [← List.append_assoc]
      exact ih s' _ (inv_step a hI hs) (tinv_step a hI h hs)

theorem wr_le {num n f s} (hI : Inv num n f s) : min s.closed.length s.n ≤ s.w.length := by
  have pinv := hI.pinv; have oinv := hI.oinv
  have hc : s.closed.length ≤ tot s.w.length s.p := by
    cases ho : s.o <;> simp only [ho, oOk] at oinv <;> omega
  cases hp : s.p <;> simp only [hp, pOk, tot, pExtra] at pinv hc <;> omega

/-- the non-`fin` clauses of `validTrace` follow from the ghost invariant -/
theorem tinv_valid {num n f s tr} (hI : Inv num n f s) (h : TInv s tr) : validTrace tr false = true := by
  obtain ⟨subs, wrs, deqs, ord, compM, doneM⟩ := h
  have hwn := wlen_le hI
  simp only [validTrace, Bool.and_eq_true, Bool.or_eq_true, if_false, Bool.false_eq_true]
  refine ⟨⟨⟨⟨?_, ?_⟩, ?_⟩, ?_⟩, trivial⟩
  · rw [List.all_eq_true]
    intro c hc
    rw [subs] at hc
    have hc' : c < s.n := by simp at hc; omega
    obtain ⟨h1, h2, h3, h4, h5⟩ := ord c hc'
    simp [h1, h2, h3, h4, h5]
  · left; rw [wrs, subs]; exact range_prefix (wr_le hI)
  · left
    rw [dequeuedOf_eq, deqs, subs, range_filter_mem_range]
    exact range_prefix (by omega)
  · rw [subs]; simpa using eraseDups_range s.w.length

theorem tinv_valid_complete {num n f s tr} (hI : Inv num n f s) (h : TInv s tr) (hp : s.p = .returned) :
    validTrace tr true = true := by
  have hv := tinv_valid hI h
  obtain ⟨subs, wrs, deqs, ord, compM, doneM⟩ := h
  obtain ⟨ho, hc, hq, hw⟩ := inv_returned hI hp
  simp only [validTrace, Bool.and_eq_true, Bool.or_eq_true, if_false, Bool.false_eq_true] at hv
  obtain ⟨⟨⟨⟨v1, v2⟩, v3⟩, v4⟩, _⟩ := hv
  simp only [validTrace, Bool.and_eq_true, Bool.or_eq_true, if_true]
  refine ⟨⟨⟨⟨v1, v2⟩, v3⟩, v4⟩, ⟨?_, ?_⟩, ?_⟩
  · rw [wrs, subs, hc, hw]
    have : min (s.n + 1) s.n = s.n := by omega
    rw [this]; simp
  · simp
  · rw [List.any_eq_true]
    exact ⟨_, doneM (Or.inr hp), rfl⟩

theorem trace_valid (num n : Nat) (f : Option Nat) (sched : List Actor) :
    validTrace (traceOf (init num n f) sched) false = true := by
  have hI := inv_run sched _ (inv_init num n f)
  have hT := tinv_run sched _ _ (inv_init num n f) (tinv_init num n f)
  simp only [List.nil_append] at hT
  exact tinv_valid hI hT

theorem trace_valid_complete (num n : Nat) (f : Option Nat) (sched : List Actor)
    (h : (run (init num n f) sched).p = .returned) :
    validTrace (traceOf (init num n f) sched) true = true := by
  have hI := inv_run sched _ (inv_init num n f)
  have hT := tinv_run sched _ _ (inv_init num n f) (tinv_init num n f)
  simp only [List.nil_append] at hT
  exact tinv_valid_complete hI hT h

/-! ### the orders promised by the doc-comment of `validTrace` but not tested by it -/

theorem p_mono {s s' : State} {a : Actor} (hs : step s a = some s') :
    (pExtra s.p = 1 → pExtra s'.p = 1) ∧
    (s.p = .sentWait ∨ s.p = .returned → s'.p = .sentWait ∨ s'.p = .returned) := by
  cases a <;> simp only [step] at hs <;> (repeat' split at hs) <;>
    first
    | (simp at hs; done)
    | (injection hs with hs; subst hs; simp_all [pExtra])

theorem ev_BC {s s' : State} {a : Actor} (hs : step s a = some s') :
    (∀ c, eventOf s a = some (.sentinel c) → pExtra s'.p = 1) ∧
    (∀ c, eventOf s a = some (.done c) → s'.p = .sentWait ∨ s'.p = .returned) ∧
    (∀ k, eventOf s a = some (.submit k) → pExtra s.p = 0) := by
  cases a <;> simp only [step] at hs <;> (repeat' split at hs) <;>
    first
    | (simp at hs; done)
    | (injection hs with hs; subst hs; simp_all [pExtra, eventOf])

theorem ev_D {num n f} {s : State} {a : Actor} (hI : Inv num n f s) :
    ∀ e, eventOf s a = some e → (∀ k, e ≠ .released k) → ¬ (s.p = .sentWait ∨ s.p = .returned) := by
  intro e he hrel hp
  have pinv := hI.pinv; have oinv := hI.oinv
  have hpo : s.w.length = s.n ∧ (s.o = .closing s.n ∨ s.o = .exited) := by
    rcases hp with hp | hp <;> rw [hp] at pinv <;> simp only [pOk] at pinv
    · exact pinv
    · exact ⟨pinv.1, Or.inr pinv.2⟩
  obtain ⟨hwl, ho⟩ := hpo
  cases a with
  | producer =>
    simp only [eventOf] at he
    rcases hp with hp | hp <;> rw [hp] at he <;> simp at he
  | orderer =>
    simp only [eventOf] at he
    rcases ho with ho | ho <;> rw [ho] at he <;> simp at he
  | worker k =>
    simp only [eventOf] at he
    split at he
    · rename_i hw
      have hk : k < s.w.length := (List.getElem?_eq_some_iff.1 hw).1
      have := hI.winv k _ hw
      simp only [wOk] at this
      rcases ho with ho | ho <;> rw [ho] at this oinv <;> simp only [rcv, oExtra, oOk] at this oinv <;> omega
    · injection he with he; exact hrel _ he.symm
    · simp at he

/-- the orders promised by the doc-comment of `validTrace` that `validTrace` itself does not test:
no `submit` after the `sentinel`; after `done` only `released` events -/
def tailOK : List Ev → Bool
  | [] => true
  | .sentinel _ :: l => l.all (fun e => match e with | .submit _ => false | _ => true) && tailOK l
  | .done _ :: l => l.all (fun e => match e with | .released _ => true | _ => false)
  | _ :: l => tailOK l

theorem tailOK_snoc {l : List Ev} {e : Ev} (h : tailOK l = true)
    (h1 : ∀ k, e = .submit k → ∀ c, Ev.sentinel c ∉ l)
    (h2 : (∀ k, e ≠ .released k) → ∀ c, Ev.done c ∉ l) : tailOK (l ++ [e]) = true := by
  induction l with
  | nil => cases e <;> simp [tailOK]
  | cons x xs ih =>
    have h1' : ∀ k, e = .submit k → ∀ c, Ev.sentinel c ∉ xs :=
      fun k hk c hc => h1 k hk c (List.mem_cons_of_mem _ hc)
    have h2' : (∀ k, e ≠ .released k) → ∀ c, Ev.done c ∉ xs :=
      fun hk c hc => h2 hk c (List.mem_cons_of_mem _ hc)
    cases x with
    | sentinel c =>
      simp only [List.cons_append, tailOK, Bool.and_eq_true, List.all_append, List.all_cons, List.all_nil,
        Bool.and_true] at h ⊢
      refine ⟨⟨h.1, ?_⟩, ih h.2 h1' h2'⟩
      cases e <;> try rfl
      rename_i k
      exact absurd (List.mem_cons_self) (h1 k rfl c)
    | done c =>
      simp only [List.cons_append, tailOK, Bool.and_eq_true, List.all_append, List.all_cons, List.all_nil,
        Bool.and_true] at h ⊢
      refine ⟨h, ?_⟩
      cases e <;> try rfl
      all_goals exact absurd (List.mem_cons_self) (h2 (by intro k hk; cases hk) c)
    | _ => simp only [List.cons_append, tailOK] at h ⊢; exact ih h h1' h2'

structure TInv2 (s : State) (tr : List Ev) : Prop where
  tail : tailOK tr = true
  sentG : ∀ c, Ev.sentinel c ∈ tr → pExtra s.p = 1
  doneG : ∀ c, Ev.done c ∈ tr → s.p = .sentWait ∨ s.p = .returned

theorem tinv2_init (num n : Nat) (f : Option Nat) : TInv2 (init num n f) [] := by
  constructor <;> simp [tailOK]

theorem tinv2_step {num n f s s' tr} (a : Actor) (hI : Inv num n f s) (h : TInv2 s tr)
    (hs : step s a = some s') : TInv2 s' (tr ++ (eventOf s a).toList) := by
  obtain ⟨tail, sentG, doneG⟩ := h
  obtain ⟨m1, m2⟩ := p_mono hs
  obtain ⟨b1, b2, b3⟩ := ev_BC hs
  cases he : eventOf s a with
  | none =>
    simp only [Option.toList_none, List.append_nil]
    exact ⟨tail, fun c hc => m1 (sentG c hc), fun c hc => m2 (doneG c hc)⟩
  | some e =>
    simp only [Option.toList_some]
    refine ⟨tailOK_snoc tail ?_ ?_, ?_, ?_⟩
    · intro k hk c hc
      have := b3 k (hk ▸ he)
      have := sentG c hc
      omega
    · intro hrel c hc
      exact ev_D hI e he hrel (doneG c hc)
    · intro c hc
      rcases List.mem_append.1 hc with hc | hc
      · exact m1 (sentG c hc)
      · simp only [List.mem_singleton] at hc
        exact b1 c (hc ▸ he)
    · intro c hc
      rcases List.mem_append.1 hc with hc | hc
      · exact m2 (doneG c hc)
      · simp only [List.mem_singleton] at hc
        exact b2 c (hc ▸ he)

theorem tinv2_run {num n f} (sched : List Actor) :
    ∀ s tr, Inv num n f s → TInv2 s tr → TInv2 (run s sched) (tr ++ traceOf s sched) := by
  induction sched with
  | nil => intro s tr _ h; simpa [traceOf, run] using h
  | cons a as ih =>
    intro s tr hI h
    simp only [run, traceOf]
    cases hs : step s a with
    | none => simpa using ih s tr hI h
    | some s' =>
      simp only [Option.getD_some]
      rw [← List.append_assoc]
      exact ih s' _ (inv_step a hI hs) (tinv2_step a hI h hs)

theorem trace_tail (num n : Nat) (f : Option Nat) (sched : List Actor) :
    tailOK (traceOf (init num n f) sched) = true := by
  have hT := tinv2_run sched _ _ (inv_init num n f) (tinv2_init num n f)
  simp only [List.nil_append] at hT
  exact hT.tail

end W
/-! ## read pipeline -/
namespace R
open PipeR Proofs.PipeR

theorem idx_go_none {e : Ev} {l : List Ev} {i : Nat} (h : e ∉ l) : idx.go e l i = none := by
  induction l generalizing i with
  | nil => rfl
  | cons x xs ih =>
    simp only [List.mem_cons, not_or] at h
    simp only [idx.go]
    rw [if_neg (fun hx => h.1 hx.symm)]
    exact ih h.2

theorem idx_go_some {e : Ev} {l : List Ev} {i : Nat} (h : e ∈ l) :
    ∃ j, idx.go e l i = some j ∧ i ≤ j ∧ j < i + l.length := by
  induction l generalizing i with
  | nil => simp at h
  | cons x xs ih =>
    simp only [idx.go]
    by_cases hx : x = e
    · rw [if_pos hx]; exact ⟨i, rfl, Nat.le_refl _, by simp⟩
    · rw [if_neg hx]
      have : e ∈ xs := by
        rcases List.mem_cons.1 h with h | h
        · exact absurd h.symm hx
        · exact h
      obtain ⟨j, h1, h2, h3⟩ := ih (i := i + 1) this
      exact ⟨j, h1, by omega, by simp only [List.length_cons]; omega⟩

theorem idx_go_append_mem {e : Ev} {l m : List Ev} {i : Nat} (h : e ∈ l) :
    idx.go e (l ++ m) i = idx.go e l i := by
  induction l generalizing i with
  | nil => simp at h
  | cons x xs ih =>
    simp only [List.cons_append, idx.go]
    by_cases hx : x = e
    · rw [if_pos hx, if_pos hx]
    · rw [if_neg hx, if_neg hx]
      have : e ∈ xs := by
        rcases List.mem_cons.1 h with h | h
        · exact absurd h.symm hx
        · exact h
      exact ih this

theorem idx_go_append_not_mem {e : Ev} {l m : List Ev} {i : Nat} (h : e ∉ l) :
    idx.go e (l ++ m) i = idx.go e m (i + l.length) := by
  induction l generalizing i with
  | nil => simp
  | cons x xs ih =>
    simp only [List.mem_cons, not_or] at h
    simp only [List.cons_append, idx.go]
    rw [if_neg (fun hx => h.1 hx.symm), ih h.2]
    congr 1; simp only [List.length_cons]; omega

/-- appending one event keeps `a` before `b` provided that, when the new event is `b`, `a` is already there -/
theorem before_snoc {l : List Ev} {a b e : Ev} (h : before l a b = true) (hb : e = b → a ∈ l) :
    before (l ++ [e]) a b = true := by
  unfold before idx at *
  by_cases hbl : b ∈ l
  · obtain ⟨j, hj, _, _⟩ := idx_go_some (i := 0) hbl
    rw [idx_go_append_mem hbl, hj]
    rw [hj] at h
    by_cases hal : a ∈ l
    · rw [idx_go_append_mem hal]; exact h
    · rw [idx_go_none hal] at h; simp at h
  · rw [idx_go_append_not_mem hbl]
    by_cases he : e = b
    · have hal := hb he
      obtain ⟨i, hi, _, hi2⟩ := idx_go_some (i := 0) hal
      rw [idx_go_append_mem hal, hi]
      simp only [idx.go, if_pos he]
      simp only [Nat.zero_add, decide_eq_true_eq]; omega
    · simp only [idx.go, if_neg he]

theorem before_nil (a b : Ev) : before [] a b = true := by
  simp [before, idx, idx.go]


theorem mem_readsOf {l : List Ev} {c : Nat} : c ∈ readsOf l ↔ Ev.read c ∈ l := by
  simp only [readsOf, List.mem_filterMap]
  constructor
  · rintro ⟨e, he, h⟩
    cases e <;> simp at h
    subst h; exact he
  · intro h; exact ⟨_, h, rfl⟩

/-- the event logged by the instrumented code when actor `a` takes its step in state `s`.
`lf = true`: the `decoded` hook fires whether or not the block decoded (this is where the hook sits in the
Go code: right after `Uncompress`, before the error test); `lf = false`: only successful decodes are logged. -/
def eventOf (lf : Bool) (s : State) (a : Actor) : Option Ev :=
  match a with
  | .reader =>
    match s.g with
    | .read k => if s.err then none else some (.read k)
    | .sentEnq => some (.sentinel s.n)
    | _ => none
  | .collector =>
    match s.c with
    | .recv i => if i < s.n then none else some (.done i)
    | .deliver i => some (.delivered i)
    | _ => none
  | .decoder k =>
    match s.d[k]? with
    | some .decoding => if k ∈ s.bad ∧ lf = false then none else some (.decoded k)
    | _ => none
  | .consumer => none

def traceOf (lf : Bool) (s : State) : List Actor → List Ev
  | [] => []
  | a :: as =>
    match step s a with
    | none => traceOf lf s as
    | some s' => (eventOf lf s a).toList ++ traceOf lf s' as

def Ord (tr : List Ev) : Prop :=
  ∀ c, before tr (.read c) (.decoded c) = true ∧ before tr (.decoded c) (.delivered c) = true

theorem ord_nil : Ord [] := fun _ => ⟨before_nil _ _, before_nil _ _⟩

theorem ord_read {tr} (k : Nat) (h : Ord tr) : Ord (tr ++ [.read k]) := by
  intro c
  obtain ⟨h1, h2⟩ := h c
  refine ⟨before_snoc h1 ?_, before_snoc h2 ?_⟩ <;> (intro he; cases he)

theorem ord_sentinel {tr} (k : Nat) (h : Ord tr) : Ord (tr ++ [.sentinel k]) := by
  intro c
  obtain ⟨h1, h2⟩ := h c
  refine ⟨before_snoc h1 ?_, before_snoc h2 ?_⟩ <;> (intro he; cases he)

theorem ord_done {tr} (k : Nat) (h : Ord tr) : Ord (tr ++ [.done k]) := by
  intro c
  obtain ⟨h1, h2⟩ := h c
  refine ⟨before_snoc h1 ?_, before_snoc h2 ?_⟩ <;> (intro he; cases he)

theorem ord_decoded {tr} (k : Nat) (h : Ord tr) (hk : Ev.read k ∈ tr) : Ord (tr ++ [.decoded k]) := by
  intro c
  obtain ⟨h1, h2⟩ := h c
  refine ⟨before_snoc h1 ?_, before_snoc h2 ?_⟩ <;> (intro he; cases he)
  exact hk

theorem ord_delivered {tr} (k : Nat) (h : Ord tr) (hk : Ev.decoded k ∈ tr) : Ord (tr ++ [.delivered k]) := by
  intro c
  obtain ⟨h1, h2⟩ := h c
  refine ⟨before_snoc h1 ?_, before_snoc h2 ?_⟩ <;> (intro he; cases he)
  exact hk

theorem readsOf_snoc (tr : List Ev) (e : Ev) :
    readsOf (tr ++ [e]) = readsOf tr ++ (match e with | .read c => [c] | _ => []) := by
  simp only [readsOf, List.filterMap_append]; cases e <;> rfl
theorem deliveredOf_snoc (tr : List Ev) (e : Ev) :
    deliveredOf (tr ++ [e]) = deliveredOf tr ++ (match e with | .delivered c => [c] | _ => []) := by
  simp only [deliveredOf, List.filterMap_append]; cases e <;> rfl

/-- ghost facts relating the trace logged so far to the state -/
structure TInv (s : State) (tr : List Ev) : Prop where
  rds : readsOf tr = List.range s.d.length
  dels : deliveredOf tr = s.delivered
  delLe : s.delivered.length ≤ s.d.length
  ord : Ord tr
  decM : ∀ k, (s.d[k]? = some .sending ∨ s.d[k]? = some .done) → Ev.decoded k ∈ tr
  doneM : 2 ≤ gClass s.g → Ev.done s.n ∈ tr

theorem tinv_init (num n : Nat) (bad : List Nat) : TInv (init num n bad) [] := by
  unfold init
  constructor <;> try (simp [readsOf, deliveredOf]; done)
  · exact ord_nil
  · dsimp only; split <;> simp [gClass]

theorem tinv_reader {lf num n bad j s s' tr} (hI : InvJ num n bad j s) (h : TInv s tr)
    (hs : step s .reader = some s') : TInv s' (tr ++ (eventOf lf s .reader).toList) := by
  obtain ⟨rds, dels, delLe, ord, decM, doneM⟩ := h
  have ginv := hI.ginv
  simp only [step] at hs
  split at hs
  · rename_i k hg
    rw [hg] at ginv; simp only [gOk] at ginv
    split at hs
    · rename_i herr
      injection hs with hs; subst hs
      have he : eventOf lf s .reader = none := by simp [eventOf, hg, herr]
      rw [he]; simp only [Option.toList_none, List.append_nil]
      exact ⟨rds, dels, delLe, ord, decM, fun hc => by simp [gClass] at hc⟩
    · rename_i herr
      split at hs
      · injection hs with hs; subst hs
        have he : eventOf lf s .reader = some (.read k) := by simp [eventOf, hg, herr]
        rw [he]; simp only [Option.toList_some]
        constructor <;> (try dsimp only)
        · rw [readsOf_snoc, rds]; simp only [List.length_append, List.length_singleton, List.range_succ, ginv.1]
        · rw [deliveredOf_snoc]; simpa using dels
        · simp only [List.length_append, List.length_singleton]; omega
        · exact ord_read k ord
        · intro k' hx
          by_cases hk' : k' < s.d.length
          · rw [List.getElem?_append_left hk'] at hx
            exact List.mem_append_left _ (decM k' hx)
          · have hlt : k' < (s.d ++ [DPc.decoding]).length := by
              rcases hx with hx | hx <;> exact (List.getElem?_eq_some_iff.1 hx).1
            have : k' = s.d.length := by simp at hlt; omega
            subst this
            simp at hx
        · intro hc; split at hc <;> simp [gClass] at hc
      · simp at hs
  · rename_i hg
    split at hs
    · injection hs with hs; subst hs
      have he : eventOf lf s .reader = some (.sentinel s.n) := by simp [eventOf, hg]
      rw [he]; simp only [Option.toList_some]
      constructor <;> (try dsimp only)
      · rw [readsOf_snoc]; simpa using rds
      · rw [deliveredOf_snoc]; simpa using dels
      · exact delLe
      · exact ord_sentinel _ ord
      · intro k hx; exact List.mem_append_left _ (decM k hx)
      · intro hc; simp [gClass] at hc
    · simp at hs
  · simp at hs
  · rename_i hg
    split at hs
    · injection hs with hs; subst hs
      have he : eventOf lf s .reader = none := by simp [eventOf, hg]
      rw [he]; simp only [Option.toList_none, List.append_nil]
      exact ⟨rds, dels, delLe, ord, decM, fun _ => doneM (by simp [hg, gClass])⟩
    · simp at hs
  · rename_i hg
    injection hs with hs; subst hs
    have he : eventOf lf s .reader = none := by simp [eventOf, hg]
    rw [he]; simp only [Option.toList_none, List.append_nil]
    exact ⟨rds, dels, delLe, ord, decM, fun _ => doneM (by simp [hg, gClass])⟩
  · simp at hs

theorem decM_set {tr : List Ev} {d : List DPc} {k : Nat} {v : DPc}
    (decM : ∀ k, (d[k]? = some .sending ∨ d[k]? = some .done) → Ev.decoded k ∈ tr)
    (hk : v = .sending ∨ v = .done → Ev.decoded k ∈ tr) :
    ∀ k', ((d.set k v)[k']? = some .sending ∨ (d.set k v)[k']? = some .done) → Ev.decoded k' ∈ tr := by
  intro k' hx
  rw [List.getElem?_set] at hx
  split at hx
  · rename_i hkk; subst hkk
    split at hx
    · apply hk
      rcases hx with hx | hx <;> injection hx with hx
      · exact Or.inl hx
      · exact Or.inr hx
    · simp at hx
  · exact decM k' hx

theorem tinv_decoder {lf s s' tr} (k : Nat) (h : TInv s tr)
    (hs : step s (.decoder k) = some s') : TInv s' (tr ++ (eventOf lf s (.decoder k)).toList) := by
  obtain ⟨rds, dels, delLe, ord, decM, doneM⟩ := h
  simp only [step] at hs
  split at hs
  · rename_i hd
    have hk : k < s.d.length := (List.getElem?_eq_some_iff.1 hd).1
    have hrd : Ev.read k ∈ tr := by rw [← mem_readsOf, rds]; simpa using hk
    split at hs
    · rename_i hb
      injection hs with hs; subst hs
      cases lf with
      | false =>
        have he : eventOf false s (.decoder k) = none := by simp [eventOf, hd, hb]
        rw [he]; simp only [Option.toList_none, List.append_nil]
        constructor <;> (try dsimp only)
        · simpa using rds
        · exact dels
        · simpa using delLe
        · exact ord
        · exact decM_set decM (fun hc => by simp at hc)
        · exact doneM
      | true =>
        have he : eventOf true s (.decoder k) = some (.decoded k) := by simp [eventOf, hd]
        rw [he]; simp only [Option.toList_some]
        constructor <;> (try dsimp only)
        · rw [readsOf_snoc]; simpa using rds
        · rw [deliveredOf_snoc]; simpa using dels
        · simpa using delLe
        · exact ord_decoded k ord hrd
        · apply decM_set (fun k hx => List.mem_append_left _ (decM k hx))
          intro _; simp
        · intro hc; exact List.mem_append_left _ (doneM hc)
    · rename_i hb
      injection hs with hs; subst hs
      have he : eventOf lf s (.decoder k) = some (.decoded k) := by simp [eventOf, hd, hb]
      rw [he]; simp only [Option.toList_some]
      constructor <;> (try dsimp only)
      · rw [readsOf_snoc]; simpa using rds
      · rw [deliveredOf_snoc]; simpa using dels
      · simpa using delLe
      · exact ord_decoded k ord hrd
      · apply decM_set (fun k hx => List.mem_append_left _ (decM k hx))
        intro _; simp
      · intro hc; exact List.mem_append_left _ (doneM hc)
  · simp at hs

theorem tinv_consumer {lf s s' tr} (h : TInv s tr)
    (hs : step s .consumer = some s') : TInv s' (tr ++ (eventOf lf s .consumer).toList) := by
  obtain ⟨rds, dels, delLe, ord, decM, doneM⟩ := h
  simp only [step] at hs
  have he : eventOf lf s .consumer = none := rfl
  rw [he]; simp only [Option.toList_none, List.append_nil]
  split at hs
  · split at hs
    · injection hs with hs; subst hs
      exact ⟨rds, dels, delLe, ord, decM, doneM⟩
    · simp at hs
  · simp at hs

theorem tinv_collector {lf num n bad j s s' tr} (hI : InvJ num n bad j s) (h : TInv s tr)
    (hs : step s .collector = some s') : TInv s' (tr ++ (eventOf lf s .collector).toList) := by
  obtain ⟨rds, dels, delLe, ord, decM, doneM⟩ := h
  have cinv := hI.cinv
  simp only [step] at hs
  split at hs
  · -- idle
    rename_i hc
    have he : eventOf lf s .collector = none := by simp [eventOf, hc]
    rw [he]; simp only [Option.toList_none, List.append_nil]
    split at hs
    · simp at hs
    · injection hs with hs; subst hs
      exact ⟨rds, dels, delLe, ord, decM, doneM⟩
  · -- recv
    rename_i i hc
    rw [hc] at cinv; simp only [cOk] at cinv
    split at hs
    · rename_i hin
      have he : eventOf lf s .collector = none := by simp [eventOf, hc, hin]
      rw [he]; simp only [Option.toList_none, List.append_nil]
      split at hs
      · rename_i hd
        injection hs with hs; subst hs
        constructor <;> (try dsimp only)
        · simpa using rds
        · exact dels
        · simpa using delLe
        · exact ord
        · exact decM_set decM (fun _ => decM i (Or.inl hd))
        · exact doneM
      · injection hs with hs; subst hs
        exact ⟨rds, dels, delLe, ord, decM, doneM⟩
      · simp at hs
    · rename_i hin
      split at hs
      · rename_i hg
        injection hs with hs; subst hs
        have he : eventOf lf s .collector = some (.done i) := by simp [eventOf, hc, hin]
        rw [he]; simp only [Option.toList_some]
        have hi : i = s.n := (cinv.2 hin).1
        constructor <;> (try dsimp only)
        · rw [readsOf_snoc]; simpa using rds
        · rw [deliveredOf_snoc]; simpa using dels
        · exact delLe
        · exact ord_done _ ord
        · intro k hx; exact List.mem_append_left _ (decM k hx)
        · intro _; rw [hi]; simp
      · simp at hs
  · -- deliver
    rename_i i hc
    rw [hc] at cinv; simp only [cOk] at cinv
    split at hs
    · injection hs with hs; subst hs
      have he : eventOf lf s .collector = some (.delivered i) := by simp [eventOf, hc]
      rw [he]; simp only [Option.toList_some]
      obtain ⟨h1, h2, h3, h4, h5, h6, h7⟩ := cinv
      have hds := hI.delSkip h6
      rw [hc] at hds; simp only [dlen] at hds
      constructor <;> (try dsimp only)
      · rw [readsOf_snoc]; simpa using rds
      · rw [deliveredOf_snoc, dels]
      · simp only [List.length_append, List.length_singleton]; omega
      · exact ord_delivered i ord (decM i (Or.inr h7))
      · intro k hx; exact List.mem_append_left _ (decM k hx)
      · intro hc; exact List.mem_append_left _ (doneM hc)
    · simp at hs
  · -- closing
    rename_i i hc
    injection hs with hs; subst hs
    have he : eventOf lf s .collector = none := by simp [eventOf, hc]
    rw [he]; simp only [Option.toList_none, List.append_nil]
    exact ⟨rds, dels, delLe, ord, decM, doneM⟩
  · simp at hs

theorem tinv_step {lf num n bad j s s' tr} (a : Actor) (hI : InvJ num n bad j s) (h : TInv s tr)
    (hs : step s a = some s') : TInv s' (tr ++ (eventOf lf s a).toList) := by
  cases a
  · exact tinv_reader hI h hs
  · exact tinv_collector hI h hs
  · exact tinv_decoder _ h hs
  · exact tinv_consumer h hs

theorem tinv_run {lf num n bad} (sched : List Actor) :
    ∀ s tr, Inv num n bad s → TInv s tr → TInv (run s sched) (tr ++ traceOf lf s sched) := by
  induction sched with
  | nil => intro s tr _ h; simpa [traceOf, run] using h
  | cons a as ih =>
    intro s tr hI h
    simp only [run, traceOf]
    cases hs : step s a with
    | none => simpa using ih s tr hI h
    | some s' =>
      simp only [Option.getD_some]
      rw [← List.append_assoc]
      obtain ⟨j, hJ⟩ := hI
      exact ih s' _ (inv_step a ⟨j, hJ⟩ hs) (tinv_step a hJ h hs)

theorem tinv_valid {num n bad s tr} (hI : Inv num n bad s) (h : TInv s tr) : validTrace tr false = true := by
  obtain ⟨rds, dels, delLe, ord, decM, doneM⟩ := h
  obtain ⟨j, hJ⟩ := hI
  simp only [validTrace, Bool.and_eq_true, Bool.or_eq_true, if_false, Bool.false_eq_true]
  refine ⟨⟨⟨?_, ?_⟩, ?_⟩, trivial⟩
  · rw [List.all_eq_true]
    intro c _
    obtain ⟨h1, h2⟩ := ord c
    simp [h1, h2]
  · left; rw [dels, rds, hJ.delEq]; exact range_prefix delLe
  · rw [rds]; simpa using eraseDups_range s.d.length

theorem tinv_valid_complete {num n bad s tr} (hI : Inv num n bad s) (h : TInv s tr) (hu : s.u = .finished) :
    validTrace tr true = true := by
  have hv := tinv_valid hI h
  obtain ⟨rds, dels, delLe, ord, decM, doneM⟩ := h
  obtain ⟨j, hJ⟩ := hI
  obtain ⟨hg, _, _, _⟩ := inv_finished hJ hu
  simp only [validTrace, Bool.and_eq_true, Bool.or_eq_true, if_false, Bool.false_eq_true] at hv
  obtain ⟨⟨⟨v1, v2⟩, v3⟩, _⟩ := hv
  simp only [validTrace, Bool.and_eq_true, Bool.or_eq_true, if_true]
  refine ⟨⟨⟨v1, v2⟩, v3⟩, ?_⟩
  rw [List.any_eq_true]
  exact ⟨_, doneM (by simp [hg, gClass]), rfl⟩

theorem trace_valid (lf : Bool) (num n : Nat) (bad : List Nat) (sched : List Actor) :
    validTrace (traceOf lf (init num n bad) sched) false = true := by
  have hI := inv_run sched _ ⟨0, inv_init num n bad⟩
  have hT := tinv_run (lf := lf) sched _ _ ⟨0, inv_init num n bad⟩ (tinv_init num n bad)
  simp only [List.nil_append] at hT
  exact tinv_valid hI hT

theorem trace_valid_complete (lf : Bool) (num n : Nat) (bad : List Nat) (sched : List Actor)
    (h : (run (init num n bad) sched).u = .finished) :
    validTrace (traceOf lf (init num n bad) sched) true = true := by
  have hI := inv_run sched _ ⟨0, inv_init num n bad⟩
  have hT := tinv_run (lf := lf) sched _ _ ⟨0, inv_init num n bad⟩ (tinv_init num n bad)
  simp only [List.nil_append] at hT
  exact tinv_valid_complete hI hT h

/-! ### the orders promised by the doc-comment of `validTrace` but not tested by it -/

theorem g_mono {s s' : State} {a : Actor} (hs : step s a = some s') : gClass s.g ≤ gClass s'.g := by
  cases a <;> simp only [step] at hs <;> (repeat' split at hs) <;>
    first
    | (simp at hs; done)
    | (injection hs with hs; subst hs; simp_all [gClass]; done)
    | (injection hs with hs; subst hs; simp only [gClass]; split <;> simp_all [gClass])

theorem ev_BC {lf} {s s' : State} {a : Actor} (hs : step s a = some s') :
    (∀ c, eventOf lf s a = some (.sentinel c) → 1 ≤ gClass s'.g) ∧
    (∀ c, eventOf lf s a = some (.done c) → 2 ≤ gClass s'.g) ∧
    (∀ k, eventOf lf s a = some (.read k) → gClass s.g = 0) := by
  cases a <;> simp only [step] at hs <;> (repeat' split at hs) <;>
    first
    | (simp at hs; done)
    | (injection hs with hs; subst hs; simp_all [gClass, eventOf])

theorem ev_D {lf num n bad j} {s : State} {a : Actor} (hI : InvJ num n bad j s) :
    ∀ k, eventOf lf s a = some (.delivered k) → gClass s.g ≤ 1 := by
  intro k he
  have cinv := hI.cinv
  cases a with
  | reader => simp only [eventOf] at he; split at he <;> (try split at he) <;> simp at he
  | collector =>
    simp only [eventOf] at he
    split at he
    · split at he <;> simp at he
    · rename_i i hc
      rw [hc] at cinv; simp only [cOk] at cinv
      exact cinv.2.2.2.2.1
    · simp at he
  | decoder k' => simp only [eventOf] at he; split at he <;> (try split at he) <;> simp at he
  | consumer => simp [eventOf] at he

/-- the orders promised by the doc-comment of `validTrace` that `validTrace` itself does not test:
no `read` after the `sentinel`; no `delivered` after `done` -/
def tailOK : List Ev → Bool
  | [] => true
  | .sentinel _ :: l => l.all (fun e => match e with | .read _ => false | _ => true) && tailOK l
  | .done _ :: l => l.all (fun e => match e with | .delivered _ => false | _ => true) && tailOK l
  | _ :: l => tailOK l

theorem tailOK_snoc {l : List Ev} {e : Ev} (h : tailOK l = true)
    (h1 : ∀ k, e = .read k → ∀ c, Ev.sentinel c ∉ l)
    (h2 : ∀ k, e = .delivered k → ∀ c, Ev.done c ∉ l) : tailOK (l ++ [e]) = true := by
  induction l with
  | nil => cases e <;> simp [tailOK]
  | cons x xs ih =>
    have h1' : ∀ k, e = .read k → ∀ c, Ev.sentinel c ∉ xs :=
      fun k hk c hc => h1 k hk c (List.mem_cons_of_mem _ hc)
    have h2' : ∀ k, e = .delivered k → ∀ c, Ev.done c ∉ xs :=
      fun k hk c hc => h2 k hk c (List.mem_cons_of_mem _ hc)
    cases x with
    | sentinel c =>
      simp only [List.cons_append, tailOK, Bool.and_eq_true, List.all_append, List.all_cons, List.all_nil,
        Bool.and_true] at h ⊢
      refine ⟨⟨h.1, ?_⟩, ih h.2 h1' h2'⟩
      cases e <;> try rfl
      rename_i k
      exact absurd (List.mem_cons_self) (h1 k rfl c)
    | done c =>
      simp only [List.cons_append, tailOK, Bool.and_eq_true, List.all_append, List.all_cons, List.all_nil,
        Bool.and_true] at h ⊢
      refine ⟨⟨h.1, ?_⟩, ih h.2 h1' h2'⟩
      cases e <;> try rfl
      rename_i k
      exact absurd (List.mem_cons_self) (h2 k rfl c)
    | _ => simp only [List.cons_append, tailOK] at h ⊢; exact ih h h1' h2'

structure TInv2 (s : State) (tr : List Ev) : Prop where
  tail : tailOK tr = true
  sentG : ∀ c, Ev.sentinel c ∈ tr → 1 ≤ gClass s.g
  doneG : ∀ c, Ev.done c ∈ tr → 2 ≤ gClass s.g

theorem tinv2_init (num n : Nat) (bad : List Nat) : TInv2 (init num n bad) [] := by
  constructor <;> simp [tailOK]

theorem tinv2_step {lf num n bad j s s' tr} (a : Actor) (hI : InvJ num n bad j s) (h : TInv2 s tr)
    (hs : step s a = some s') : TInv2 s' (tr ++ (eventOf lf s a).toList) := by
  obtain ⟨tail, sentG, doneG⟩ := h
  have m := g_mono hs
  obtain ⟨b1, b2, b3⟩ := ev_BC (lf := lf) hs
  cases he : eventOf lf s a with
  | none =>
    simp only [Option.toList_none, List.append_nil]
    exact ⟨tail, fun c hc => Nat.le_trans (sentG c hc) m, fun c hc => Nat.le_trans (doneG c hc) m⟩
  | some e =>
    simp only [Option.toList_some]
    refine ⟨tailOK_snoc tail ?_ ?_, ?_, ?_⟩
    · intro k hk c hc
      have := b3 k (hk ▸ he)
      have := sentG c hc
      omega
    · intro k hk c hc
      have := ev_D hI k (hk ▸ he)
      have := doneG c hc
      omega
    · intro c hc
      rcases List.mem_append.1 hc with hc | hc
      · exact Nat.le_trans (sentG c hc) m
      · simp only [List.mem_singleton] at hc
        exact b1 c (hc ▸ he)
    · intro c hc
      rcases List.mem_append.1 hc with hc | hc
      · exact Nat.le_trans (doneG c hc) m
      · simp only [List.mem_singleton] at hc
        exact b2 c (hc ▸ he)

theorem tinv2_run {lf num n bad} (sched : List Actor) :
    ∀ s tr, Inv num n bad s → TInv2 s tr → TInv2 (run s sched) (tr ++ traceOf lf s sched) := by
  induction sched with
  | nil => intro s tr _ h; simpa [traceOf, run] using h
  | cons a as ih =>
    intro s tr hI h
    simp only [run, traceOf]
    cases hs : step s a with
    | none => simpa using ih s tr hI h
    | some s' =>
      simp only [Option.getD_some]
      rw [← List.append_assoc]
      obtain ⟨j, hJ⟩ := hI
      exact ih s' _ (inv_step a ⟨j, hJ⟩ hs) (tinv2_step a hJ h hs)

theorem trace_tail (lf : Bool) (num n : Nat) (bad : List Nat) (sched : List Actor) :
    tailOK (traceOf lf (init num n bad) sched) = true := by
  have hT := tinv2_run (lf := lf) sched _ _ ⟨0, inv_init num n bad⟩ (tinv2_init num n bad)
  simp only [List.nil_append] at hT
  exact hT.tail

end R
end Lz4V.Proofs.Trace
