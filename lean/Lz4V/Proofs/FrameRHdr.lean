import Lz4V.Proofs.FrameRIO
import Lz4V.Props.C13
/-!
# Proofs.FrameRHdr — `parseHeaders` against `Spec.Frame.skipToFrame` / `Spec.Frame.header`
-/
namespace Lz4V.Proofs.FrameR
open Lz4V Lz4V.Go Lz4V.Gen Lz4V.Model Lz4V.Model.FrameR Lz4V.Model.FrameW

/-! ## descriptor flag getters as arithmetic -/

theorem flagBit (x : UInt16) (k : UInt16) (hk : k.toNat < 16) :
    (((x >>> k) &&& 1) != 0) = decide (x.toNat / 2 ^ k.toNat % 2 = 1) := by
  have h : ((x >>> k) &&& 1).toNat = x.toNat / 2 ^ k.toNat % 2 := by
    rw [UInt16.toNat_and, UInt16.toNat_shiftRight, Nat.mod_eq_of_lt hk, Nat.shiftRight_eq_div_pow]
    exact Nat.and_one_is_mod _
  by_cases hc : x.toNat / 2 ^ k.toNat % 2 = 1
  · simp only [hc, decide_true, bne_iff_ne, ne_eq]
    intro h0
    rw [h0] at h
    simp at h
    omega
  · simp only [hc, decide_false, bne_eq_false_iff_eq]
    apply UInt16.toNat_inj.mp
    rw [h]
    have : x.toNat / 2 ^ k.toNat % 2 < 2 := Nat.mod_lt _ (by omega)
    show _ = 0
    omega

theorem flagSize_eq (x : UInt16) : flagSize x = decide (x.toNat / 8 % 2 = 1) := flagBit x 3 (by decide)
theorem flagContentChecksum_eq (x : UInt16) : flagContentChecksum x = decide (x.toNat / 4 % 2 = 1) :=
  flagBit x 2 (by decide)
theorem flagBlockChecksum_eq (x : UInt16) : flagBlockChecksum x = decide (x.toNat / 16 % 2 = 1) :=
  flagBit x 4 (by decide)
theorem flagBlockIndependence_eq (x : UInt16) : flagBlockIndependence x = decide (x.toNat / 32 % 2 = 1) :=
  flagBit x 5 (by decide)
theorem blockSizeIndex_eq (x : UInt16) : blockSizeIndex x = x.toNat / 4096 % 8 := by
  unfold blockSizeIndex
  rw [UInt16.toNat_and, UInt16.toNat_shiftRight, Nat.shiftRight_eq_div_pow]
  exact Nat.and_two_pow_sub_one_eq_mod _ 3
theorem flags_toNat (b0 b1 : UInt8) :
    (b0.toNat + 256 * b1.toNat).toUInt16.toNat = b0.toNat + 256 * b1.toNat := by
  have := b0.toNat_lt; have := b1.toNat_lt
  rw [Nat.toUInt16_eq, UInt16.toNat_ofNat']
  omega

/-- the Reader's descriptor flags agree with the specification's frame parameters -/
structure FlagsMatch (flags : Flags) (info : Spec.Frame.Info) : Prop where
  indep : flagBlockIndependence flags = info.blockIndep
  bck : flagBlockChecksum flags = info.blockChecksum
  cck : flagContentChecksum flags = info.contentChecksum
  bmax : poolSize (blockSizeIndex flags) = info.blockMax
  bmax_le : info.blockMax ≤ 4194304

theorem arr3 (b : Array UInt8) (h : b.size = 3) : ∃ x y z, b = #[x, y, z] := by
  obtain ⟨l⟩ := b
  match l, h with
  | [x, y, z], _ => exact ⟨x, y, z, rfl⟩

theorem arr8 (b : Array UInt8) (h : b.size = 8) : ∃ s0 s1 s2 s3 s4 s5 s6 s7, b = #[s0, s1, s2, s3, s4, s5, s6, s7] := by
  obtain ⟨l⟩ := b
  match l, h with
  | [s0, s1, s2, s3, s4, s5, s6, s7], _ => exact ⟨s0, s1, s2, s3, s4, s5, s6, s7, rfl⟩

/-- the part of `parseHeaders` after a current-format magic (a restatement, equal by `rfl`) -/
def hdrRest (r : R) : R × Option Err :=
  let (s, b, e) := readFull r.src 3
  let r := { r with src := s }
  match e with
  | some e => (r, unexpected (some e))
  | none =>
  let flags : Flags := (b[0]!.toNat + 256 * b[1]!.toNat).toUInt16
  let r := { r with flags := flags }
  let step2 : R × Array UInt8 × Option Err :=
    if flagSize flags then
      let (s, b8, e) := readFull r.src 8
      ({ r with src := s }, b ++ b8, e)
    else (r, b, none)
  let (r, buf, e) := step2
  match e with
  | some e => (r, unexpected (some e))
  | none =>
  let r := if flagSize flags then
      { r with contentSize := u32 (buf.extract 2 6) + 4294967296 * u32 (buf.extract 6 10) } else r
  let ck := buf[buf.size - 1]!
  let body := buf.extract 0 (buf.size - 1)
  if ck.toNat ≠ (XXH.checksumZero body.toList).toNat / 256 % 256 then (r, some .badHeaderChecksum) else
  let idx := blockSizeIndex flags
  if ¬ (idx = 4 ∨ idx = 5 ∨ idx = 6 ∨ idx = 7) then (r, some .badBlockSize) else
  ({ r with cks := XXH.reset r.cks }, none)

/-- the skippable-frame part (restatement) -/
def skipRest (r : R) (fuel : Nat) : R × Option Err :=
  let (s, n, e) := readUint32 r.src
  let r := { r with src := s }
  match e with
  | some e => (r, unexpected (some e))
  | none =>
    let (s, e) := discardN r.src n (n + 1)
    let r := { r with src := s }
    match e with
    | some e => (r, unexpected (some e))
    | none => parseHeaders { r with magic := 0 } fuel

theorem parseHeaders_succ (r : R) (fuel : Nat) : parseHeaders r (fuel+1) =
    (if r.magic > 0 then (r, none) else
    let (s, m, e) := readUint32 r.src
    let r := { r with src := s }
    match e with
    | some e => (r, some e)
    | none =>
    let r := { r with magic := m }
    if m = frameMagic ∨ m = frameMagicLegacy then
      if m = frameMagicLegacy then
        ({ r with flags := blockSizeIndexSet 0 (indexOf Block8Mb).toUInt16, cks := XXH.reset r.cks }, none)
      else hdrRest r
    else if m / 16 = frameSkipMagic / 16 then skipRest r fuel
    else (r, some .badMagic)) := rfl

section flags2
variable (x y : UInt8)

theorem fl_size : flagSize (Nat.toUInt16 (x.toNat + 256 * y.toNat)) = decide (x.toNat / 8 % 2 = 1) := by
  rw [flagSize_eq, flags_toNat]; congr 1; apply propext; have := x.toNat_lt; omega
theorem fl_cck : flagContentChecksum (Nat.toUInt16 (x.toNat + 256 * y.toNat)) = decide (x.toNat / 4 % 2 = 1) := by
  rw [flagContentChecksum_eq, flags_toNat]; congr 1; apply propext; have := x.toNat_lt; omega
theorem fl_bck : flagBlockChecksum (Nat.toUInt16 (x.toNat + 256 * y.toNat)) = decide (x.toNat / 16 % 2 = 1) := by
  rw [flagBlockChecksum_eq, flags_toNat]; congr 1; apply propext; have := x.toNat_lt; omega
theorem fl_indep : flagBlockIndependence (Nat.toUInt16 (x.toNat + 256 * y.toNat)) = decide (x.toNat / 32 % 2 = 1) := by
  rw [flagBlockIndependence_eq, flags_toNat]; congr 1; apply propext; have := x.toNat_lt; omega
theorem fl_idx : blockSizeIndex (Nat.toUInt16 (x.toNat + 256 * y.toNat)) = y.toNat / 16 % 8 := by
  rw [blockSizeIndex_eq, flags_toNat]; have := x.toNat_lt; omega
end flags2

theorem blockMaxOf_idx (i : Nat) (h : i = 4 ∨ i = 5 ∨ i = 6 ∨ i = 7) :
    Spec.Frame.blockMaxOf i = some (poolSize i) ∧ poolSize i ≤ 4194304 := by
  rcases h with h | h | h | h <;> subst h <;> exact ⟨rfl, by decide⟩

theorem ne_eof_of_unexpected (e : Err) : unexpected (some e) ≠ some .eof := by
  cases e <;> simp [unexpected]

/-- the specification's reading of FLG = `x`, BD = `y` -/
def mkInfo (x y : UInt8) (csz : Option Nat) : Spec.Frame.Info :=
  { version := x.toNat / 64
    blockIndep := decide (x.toNat / 32 % 2 = 1)
    blockChecksum := decide (x.toNat / 16 % 2 = 1)
    contentChecksum := decide (x.toNat / 4 % 2 = 1)
    contentSize := csz
    blockMax := poolSize (y.toNat / 16 % 8) }

/-- the frame descriptor: either an error other than `io.EOF`, or the specification reads the same
descriptor from the same bytes -/
theorem hdrRest_spec (r : R) (hg : Good r.src) :
    (∃ r' e, hdrRest r = (r', some e) ∧ e ≠ .eof) ∨
    (∃ s' info fl csz, Good s' ∧ s'.data = r.src.data ∧ FlagsMatch fl info ∧ r.src.pos + 3 ≤ s'.pos ∧
       (∀ T, Spec.Frame.header ((r.src.data.extract r.src.pos s'.pos).toList ++ T) false = .ok (info, T)) ∧
       hdrRest r = ({ r with src := s', flags := fl, contentSize := csz, cks := XXH.reset r.cks }, none)) := by
  unfold hdrRest
  by_cases h3' : r.src.data.size < r.src.pos + 3
  · obtain ⟨s1, g1, d1, p1, e1⟩ := readFull_short r.src hg 3 (by omega)
    rw [e1]
    simp only [unexpected_shortErr]
    exact Or.inl ⟨_, _, rfl, by simp⟩
  have h3 : r.src.pos + 3 ≤ r.src.data.size := by omega
  obtain ⟨s1, g1, d1, p1, e1⟩ := readFull_ok r.src hg 3 h3
  rw [e1]
  simp only []
  obtain ⟨x, y, z, hb⟩ := arr3 (r.src.data.extract r.src.pos (r.src.pos + 3)) (by simp; omega)
  rw [hb]
  have hx : (#[x, y, z] : Array UInt8)[0]! = x := rfl
  have hy : (#[x, y, z] : Array UInt8)[1]! = y := rfl
  rw [hx, hy]
  by_cases hfs : flagSize (Nat.toUInt16 (x.toNat + 256 * y.toNat)) = true
  · simp only [hfs, if_true]
    by_cases h8' : s1.data.size < s1.pos + 8
    · obtain ⟨s2, g2, d2, p2, e2⟩ := readFull_short s1 g1 8 (by omega)
      rw [e2]
      simp only [unexpected_shortErr]
      exact Or.inl ⟨_, _, rfl, by simp⟩
    have h8 : s1.pos + 8 ≤ s1.data.size := by omega
    obtain ⟨s2, g2, d2, p2, e2⟩ := readFull_ok s1 g1 8 h8
    rw [e2]
    simp only []
    obtain ⟨s0, t1, t2, t3, t4, t5, t6, t7, hb8⟩ := arr8 (s1.data.extract s1.pos (s1.pos + 8)) (by simp; omega)
    rw [hb8]
    have hbuf : (#[x, y, z] ++ #[s0, t1, t2, t3, t4, t5, t6, t7] : Array UInt8)
        = #[x, y, z, s0, t1, t2, t3, t4, t5, t6, t7] := rfl
    rw [hbuf]
    have hck : (#[x, y, z, s0, t1, t2, t3, t4, t5, t6, t7] : Array UInt8)[
        (#[x, y, z, s0, t1, t2, t3, t4, t5, t6, t7] : Array UInt8).size - 1]! = t7 := rfl
    have hbody : ((#[x, y, z, s0, t1, t2, t3, t4, t5, t6, t7] : Array UInt8).extract 0
        ((#[x, y, z, s0, t1, t2, t3, t4, t5, t6, t7] : Array UInt8).size - 1)).toList
        = [x, y, z, s0, t1, t2, t3, t4, t5, t6] := rfl
    rw [hck, hbody, Props.C13.oneshot]
    by_cases hc : t7.toNat ≠ (Spec.XXH32.xxh32 [x, y, z, s0, t1, t2, t3, t4, t5, t6]).toNat / 256 % 256
    · rw [if_pos hc]
      exact Or.inl ⟨_, _, rfl, by simp⟩
    rw [if_neg hc]
    rw [fl_idx]
    by_cases hi : ¬ (y.toNat / 16 % 8 = 4 ∨ y.toNat / 16 % 8 = 5 ∨ y.toNat / 16 % 8 = 6 ∨ y.toNat / 16 % 8 = 7)
    · rw [if_pos hi]
      exact Or.inl ⟨_, _, rfl, by simp⟩
    rw [if_neg hi]
    have hi' := Classical.not_not.mp hi
    obtain ⟨hbm, hble⟩ := blockMaxOf_idx _ hi'
    refine Or.inr ⟨s2, mkInfo x y (some (u32 #[z, s0, t1, t2] + 4294967296 * u32 #[t3, t4, t5, t6])), _, _, g2, by rw [d2, d1],
      ⟨fl_indep x y, fl_bck x y, fl_cck x y, by rw [fl_idx]; rfl, hble⟩, by omega, ?_, rfl⟩
    intro T
    have hsplit : r.src.data.extract r.src.pos s2.pos =
        r.src.data.extract r.src.pos (r.src.pos + 3) ++ s1.data.extract s1.pos (s1.pos + 8) := by
      rw [d1, p1, p2, p1]
      exact extract_split _ _ _ _ (by omega) (by omega)
    rw [hsplit, hb, hb8]
    have hs : x.toNat / 8 % 2 = 1 := by
      rw [fl_size] at hfs; simpa using hfs
    simp only [Spec.Frame.header, hbuf, List.cons_append, List.nil_append, hs, if_true,
      Spec.Frame.u64, Spec.Frame.u32, Option.map_some, List.take_succ_cons, List.take_zero]
    simp only [ne_eq, Classical.not_not] at hc
    simp only [hc, ne_eq, not_true_eq_false, if_false, hbm, Bool.false_eq_true, false_and]
    rfl
  · simp only [hfs, if_false, Bool.false_eq_true]
    have hck : (#[x, y, z] : Array UInt8)[(#[x, y, z] : Array UInt8).size - 1]! = z := rfl
    have hbody : ((#[x, y, z] : Array UInt8).extract 0 ((#[x, y, z] : Array UInt8).size - 1)).toList
        = [x, y] := rfl
    rw [hck, hbody, Props.C13.oneshot]
    by_cases hc : z.toNat ≠ (Spec.XXH32.xxh32 [x, y]).toNat / 256 % 256
    · rw [if_pos hc]
      exact Or.inl ⟨_, _, rfl, by simp⟩
    rw [if_neg hc]
    rw [fl_idx]
    by_cases hi : ¬ (y.toNat / 16 % 8 = 4 ∨ y.toNat / 16 % 8 = 5 ∨ y.toNat / 16 % 8 = 6 ∨ y.toNat / 16 % 8 = 7)
    · rw [if_pos hi]
      exact Or.inl ⟨_, _, rfl, by simp⟩
    rw [if_neg hi]
    have hi' := Classical.not_not.mp hi
    obtain ⟨hbm, hble⟩ := blockMaxOf_idx _ hi'
    refine Or.inr ⟨s1, mkInfo x y none, _, r.contentSize, g1, d1,
      ⟨fl_indep x y, fl_bck x y, fl_cck x y, by rw [fl_idx]; rfl, hble⟩, by omega, ?_, rfl⟩
    intro T
    rw [p1, hb]
    have hs : ¬ x.toNat / 8 % 2 = 1 := by
      rw [fl_size] at hfs; simpa using hfs
    simp only [Spec.Frame.header, List.cons_append, List.nil_append, hs, if_false]
    simp only [ne_eq, Classical.not_not] at hc
    simp only [hc, ne_eq, not_true_eq_false, if_false, hbm, Bool.false_eq_true, false_and]
    rfl

theorem skipMagic_iff (m : Nat) :
    m / 16 = frameSkipMagic / 16 ↔ (Spec.Frame.skipLo ≤ m ∧ m ≤ Spec.Frame.skipHi) := by
  unfold frameSkipMagic Spec.Frame.skipLo Spec.Frame.skipHi
  omega

theorem size_extract_of_le (a : Array UInt8) (i n : Nat) (h : i + n ≤ a.size) :
    (a.extract i (i + n)).size = n := by
  simp only [Array.size_extract]; omega

/-- what a successful `parseHeaders` established -/
def HdrOk (D : Array UInt8) (p0 : Nat) (r r' : R) : Prop :=
  ∃ s' fl csz m, Good s' ∧ s'.data = D ∧
    r' = { r with src := s', magic := m, flags := fl, contentSize := csz, cks := XXH.reset r.cks } ∧
    ((m = frameMagic ∧ ∃ pm info, p0 + 4 ≤ pm ∧ pm + 3 ≤ s'.pos ∧ FlagsMatch fl info ∧
        (∀ T F, pm - p0 < F → Spec.Frame.skipToFrame F ((D.extract p0 pm).toList ++ T) = .ok T) ∧
        (∀ T, Spec.Frame.header ((D.extract pm s'.pos).toList ++ T) false = .ok (info, T))) ∨
     (m = frameMagicLegacy ∧ fl = blockSizeIndexSet 0 (indexOf Block8Mb).toUInt16 ∧ p0 + 4 ≤ s'.pos ∧
        s'.pos ≤ D.size ∧ u32 (D.extract (s'.pos - 4) s'.pos) = frameMagicLegacy ∧
        (∀ T F, s'.pos - p0 < F →
          Spec.Frame.skipToFrame F ((D.extract p0 s'.pos).toList ++ T) = .error .badMagic)))

theorem parseHeaders_spec (D : Array UInt8) (fuel : Nat) (r : R) (hg : Good r.src) (hd : r.src.data = D)
    (hm : r.magic = 0) (hf : D.size - r.src.pos < fuel) (r' : R) (e : Option Err)
    (h : parseHeaders r fuel = (r', e)) :
    (e = none → HdrOk D r.src.pos r r') ∧
    (e = some .eof → ∀ F, D.size - r.src.pos < F →
      Spec.Frame.skipToFrame F (D.extract r.src.pos D.size).toList = .error .truncated) := by
  induction fuel generalizing r with
  | zero => omega
  | succ fuel ih =>
    rw [parseHeaders_succ] at h
    simp only [hm, gt_iff_lt, Nat.lt_irrefl, if_false] at h
    subst hd
    by_cases h4' : r.src.data.size < r.src.pos + 4
    · obtain ⟨s1, g1, d1, p1, e1⟩ := readUint32_short r.src hg h4'
      rw [e1] at h
      simp only [Prod.mk.injEq] at h
      obtain ⟨-, rfl⟩ := h
      refine ⟨by simp, ?_⟩
      intro he F hF
      have hp : r.src.pos = r.src.data.size := by
        unfold shortErr at he
        by_cases hp : r.src.pos = r.src.data.size
        · exact hp
        · simp [hp] at he
      have : (r.src.data.extract r.src.pos r.src.data.size).toList = [] := by
        apply List.eq_nil_of_length_eq_zero
        simp only [Array.length_toList, Array.size_extract]; omega
      rw [this]
      cases F with
      | zero => omega
      | succ F => rfl
    have h4 : r.src.pos + 4 ≤ r.src.data.size := by omega
    obtain ⟨s1, g1, d1, p1, e1⟩ := readUint32_ok r.src hg h4
    rw [e1] at h
    simp only [] at h
    have hsz4 := size_extract_of_le r.src.data r.src.pos 4 h4
    generalize hmv : u32 (r.src.data.extract r.src.pos (r.src.pos + 4)) = m at h
    by_cases hm1 : m = frameMagic
    · -- a current-format frame
      have hm2 : ¬ m = frameMagicLegacy := by rw [hm1]; decide
      simp only [hm1, true_or, if_true] at h
      have hm2' : ¬ frameMagic = frameMagicLegacy := by decide
      simp only [hm2', if_false] at h
      rcases hdrRest_spec { r with src := s1, magic := frameMagic } g1 with ⟨r2, e2, hh, hne⟩ | hok
      · rw [hh] at h
        simp only [Prod.mk.injEq] at h
        obtain ⟨-, rfl⟩ := h
        exact ⟨by simp, by intro he; simp at he; exact absurd he hne⟩
      · obtain ⟨s2, info, fl, csz, g2, d2, hfm, hp2, hhdr, hh⟩ := hok
        rw [hh] at h
        simp only [Prod.mk.injEq] at h
        obtain ⟨rfl, rfl⟩ := h
        refine ⟨fun _ => ?_, by simp⟩
        simp only [] at d2 hp2 hhdr
        refine ⟨s2, fl, csz, frameMagic, g2, by rw [d2, d1], rfl, Or.inl ⟨rfl, r.src.pos + 4, info,
          Nat.le_refl _, by omega, hfm, ?_, ?_⟩⟩
        · intro T F hF
          cases F with
          | zero => omega
          | succ F =>
            simp only [Spec.Frame.skipToFrame, u32_toList _ hsz4, hmv, hm1]
            have : frameMagic = Spec.Frame.magic := rfl
            simp [this]
        · intro T
          rw [← p1, ← d1]
          exact hhdr T
    · by_cases hm2 : m = frameMagicLegacy
      · simp only [hm2, or_true, if_true] at h
        simp only [Prod.mk.injEq] at h
        obtain ⟨rfl, rfl⟩ := h
        refine ⟨fun _ => ?_, by simp⟩
        refine ⟨s1, _, r.contentSize, frameMagicLegacy, g1, d1, rfl, Or.inr ⟨rfl, rfl, by omega, by omega, ?_, ?_⟩⟩
        · rw [p1, Nat.add_sub_cancel, hmv, hm2]
        · intro T F hF
          cases F with
          | zero => omega
          | succ F =>
            rw [p1]
            simp only [Spec.Frame.skipToFrame, u32_toList _ hsz4, hmv, hm2]
            have h1 : ¬ frameMagicLegacy = Spec.Frame.magic := by decide
            have h2 : ¬ (Spec.Frame.skipLo ≤ frameMagicLegacy ∧ frameMagicLegacy ≤ Spec.Frame.skipHi) := by decide
            simp [h1, h2]
      · simp only [hm1, hm2, or_self, if_false] at h
        by_cases hsk : m / 16 = frameSkipMagic / 16
        · simp only [hsk, if_true] at h
          have hsk' := (skipMagic_iff m).mp hsk
          unfold skipRest at h
          simp only [] at h
          by_cases h8' : s1.data.size < s1.pos + 4
          · obtain ⟨s2, g2, d2, p2, e2⟩ := readUint32_short s1 g1 h8'
            rw [e2] at h
            simp only [unexpected_shortErr, Prod.mk.injEq] at h
            obtain ⟨-, rfl⟩ := h
            exact ⟨by simp, by simp⟩
          have h8 : s1.pos + 4 ≤ s1.data.size := by omega
          obtain ⟨s2, g2, d2, p2, e2⟩ := readUint32_ok s1 g1 h8
          rw [e2] at h
          simp only [] at h
          have hsz8 := size_extract_of_le s1.data s1.pos 4 h8
          generalize hnv : u32 (s1.data.extract s1.pos (s1.pos + 4)) = n at h
          by_cases hn' : s2.data.size < s2.pos + n
          · obtain ⟨s3, g3, d3, p3, e3⟩ := discardN_short s2 g2 n (n + 1) (by omega) hn'
            rw [e3] at h
            simp only [unexpected, Prod.mk.injEq] at h
            obtain ⟨-, rfl⟩ := h
            exact ⟨by simp, by simp⟩
          have hn : s2.pos + n ≤ s2.data.size := by omega
          obtain ⟨s3, g3, d3, p3, e3⟩ := discardN_ok s2 g2 n (n + 1) (by omega) hn
          rw [e3] at h
          simp only [] at h
          have hD3 : s3.data = r.src.data := by rw [d3, d2, d1]
          have hsz1 : s1.data.size = r.src.data.size := by rw [d1]
          have hsz2 : s2.data.size = r.src.data.size := by rw [d2, d1]
          have hpos3 : s3.pos = r.src.pos + 8 + n := by omega
          have hseg : ∀ q, s3.pos ≤ q → (r.src.data.extract r.src.pos q).toList =
              (r.src.data.extract r.src.pos (r.src.pos + 4)).toList ++
              ((s1.data.extract s1.pos (s1.pos + 4)).toList ++
              ((r.src.data.extract (r.src.pos + 8) (r.src.pos + 8 + n)).toList ++
              (r.src.data.extract s3.pos q).toList)) := by
            intro q hq
            rw [extract_split r.src.data r.src.pos (r.src.pos + 4) q (by omega) (by omega),
              extract_split r.src.data (r.src.pos + 4) (r.src.pos + 8) q (by omega) (by omega),
              extract_split r.src.data (r.src.pos + 8) (r.src.pos + 8 + n) q (by omega) (by omega)]
            rw [d1, p1, hpos3]
            simp only [Array.toList_append]
          have hlen : ((r.src.data.extract (r.src.pos + 8) (r.src.pos + 8 + n)).toList).length = n := by
            rw [Array.length_toList]; exact size_extract_of_le _ _ _ (by omega)
          have hstep : ∀ T F, Spec.Frame.skipToFrame (F + 1)
              ((r.src.data.extract r.src.pos (r.src.pos + 4)).toList ++
              ((s1.data.extract s1.pos (s1.pos + 4)).toList ++
              ((r.src.data.extract (r.src.pos + 8) (r.src.pos + 8 + n)).toList ++ T))) =
              Spec.Frame.skipToFrame F T := by
            intro T F
            have hm1' : ¬ m = Spec.Frame.magic := hm1
            simp only [Spec.Frame.skipToFrame, u32_toList _ hsz4, hmv, hm1', if_false, hsk', and_self,
              if_true, u32_toList _ hsz8, hnv]
            have := dropN_append (r.src.data.extract (r.src.pos + 8) (r.src.pos + 8 + n)).toList T
            rw [hlen] at this
            rw [this]
          have hrec := ih { r with src := s3, magic := 0 } g3 hD3 rfl
            (by simp only []; omega) h
          simp only [] at hrec
          obtain ⟨hrec1, hrec2⟩ := hrec
          refine ⟨fun he => ?_, fun he F hF => ?_⟩
          · obtain ⟨s4, fl, csz, m4, g4, d4, hr', hcase⟩ := hrec1 he
            refine ⟨s4, fl, csz, m4, g4, d4, hr', ?_⟩
            rcases hcase with ⟨hm4, pm, info, hpm1, hpm2, hfm, hskip, hhdr⟩ | ⟨hm4, hfl, hq1, hq2, hq3, hskip⟩
            · refine Or.inl ⟨hm4, pm, info, by omega, hpm2, hfm, ?_, hhdr⟩
              intro T F hF
              cases F with
              | zero => omega
              | succ F =>
                rw [hseg pm (by omega)]
                simp only [List.append_assoc]
                rw [hstep]
                exact hskip T F (by omega)
            · refine Or.inr ⟨hm4, hfl, by omega, hq2, hq3, ?_⟩
              intro T F hF
              cases F with
              | zero => omega
              | succ F =>
                rw [hseg s4.pos (by omega)]
                simp only [List.append_assoc]
                rw [hstep]
                exact hskip T F (by omega)
          · cases F with
            | zero => omega
            | succ F =>
              have := hseg r.src.data.size (by have := g3.pos; rw [hD3] at this; exact this)
              rw [this, hstep]
              exact hrec2 he F (by omega)
        · simp only [hsk, if_false, Prod.mk.injEq] at h
          obtain ⟨-, rfl⟩ := h
          exact ⟨by simp, by simp⟩

/-- `parseHeaders` reports `io.EOF` only at a frame boundary: at the very end of the input, or after at
least one skippable frame -/
theorem parseHeaders_eof (r : R) (hg : Good r.src) (hm : r.magic = 0) (fuel : Nat) (r' : R)
    (h : parseHeaders r fuel = (r', some .eof)) :
    r.src.pos = r.src.data.size ∨ (r.src.pos + 4 ≤ r.src.data.size ∧
      Spec.Frame.skipLo ≤ u32 (r.src.data.extract r.src.pos (r.src.pos + 4)) ∧
      u32 (r.src.data.extract r.src.pos (r.src.pos + 4)) ≤ Spec.Frame.skipHi) := by
  cases fuel with
  | zero =>
    have h0 : parseHeaders r 0 = (r, some .unhandledState) := rfl
    rw [h0] at h
    simp at h
  | succ fuel =>
    rw [parseHeaders_succ] at h
    simp only [hm, gt_iff_lt, Nat.lt_irrefl, if_false] at h
    by_cases h4' : r.src.data.size < r.src.pos + 4
    · obtain ⟨s1, g1, d1, p1, e1⟩ := readUint32_short r.src hg h4'
      rw [e1] at h
      simp only [Prod.mk.injEq, Option.some.injEq] at h
      left
      have he := h.2
      unfold shortErr at he
      by_cases hp : r.src.pos = r.src.data.size
      · exact hp
      · simp [hp] at he
    have h4 : r.src.pos + 4 ≤ r.src.data.size := by omega
    obtain ⟨s1, g1, d1, p1, e1⟩ := readUint32_ok r.src hg h4
    rw [e1] at h
    simp only [] at h
    generalize hmv : u32 (r.src.data.extract r.src.pos (r.src.pos + 4)) = m at h ⊢
    by_cases hm1 : m = frameMagic
    · have hm2' : ¬ frameMagic = frameMagicLegacy := by decide
      simp only [hm1, true_or, if_true, hm2', if_false] at h
      rcases hdrRest_spec { r with src := s1, magic := frameMagic } g1 with ⟨r2, e2, hh, hne⟩ | hok
      · rw [hh] at h
        simp only [Prod.mk.injEq, Option.some.injEq] at h
        exact absurd h.2 hne
      · obtain ⟨s2, info, fl, csz, g2, d2, hfm, hp2, hhdr, hh⟩ := hok
        rw [hh] at h
        simp at h
    · by_cases hm2 : m = frameMagicLegacy
      · simp only [hm2, or_true, if_true] at h
        simp at h
      · simp only [hm1, hm2, or_self, if_false] at h
        by_cases hsk : m / 16 = frameSkipMagic / 16
        · exact Or.inr ⟨h4, (skipMagic_iff m).mp hsk⟩
        · simp only [hsk, if_false, Prod.mk.injEq, Option.some.injEq] at h
          exact absurd h.2 (by simp)

end Lz4V.Proofs.FrameR
