import Lz4V.Proofs.Det
import Lz4V.Props.C01fast
import Lz4V.Props.C01hc
/-!
# Proofs.FrameWLegacy — legacy frames emitted by the Writer decode, under `Spec.Frame.decodeLegacy`,
to the data written (the legacy half of C09)

From `Det.session_char` the bytes of a clean legacy session are the legacy magic followed by
`blkWrites` of every 8 MiB block of the stream and of the short remainder.  In legacy mode a block is
never stored raw (`blkData_legacy`: the second attempt, into `CompressBlockBound(len(src))` bytes,
always succeeds) and the payload is never empty, so the size word is never followed by the end of the
input (the Linux-kernel trailer test of the specification does not fire), and it is at most
`CompressBlockBound(8 MiB) = 8421520 < 0x184C2102` (it is not mistaken for a legacy magic).
-/
namespace Lz4V.Proofs.FrameWLegacy
open Lz4V Lz4V.Gen Lz4V.Model Lz4V.Model.FrameW
open Lz4V.Go (Sink Err)
open Lz4V.Spec.Frame (u32 splitN legacyBlocks decodeLegacy legacySizesOk legacyMagic legacyBlockMax)
open Lz4V.Proofs.FrameW (u32_le32 splitN_array decode_mono reachable)
open Lz4V.Proofs.Det

/-! ## the block compressors as called by `FrameDataBlock.Compress` -/

theorem compressBlock_some (src : Array UInt8) (dstLen level : Nat) (d : Array UInt8)
    (h : compressBlock src dstLen level = some d) :
    0 < d.size ∧ d.size ≤ dstLen ∧ Spec.Block.decode d.toList [] src.size = some src := by
  unfold compressBlock at h
  by_cases hl : level = 0
  · simp only [hl, if_true] at h
    have h11 := Props.C01fast.c11_fast src (Array.replicate dstLen 0)
    cases hr : Fast.compressBlock src (Array.replicate dstLen 0) with
    | ok n d' =>
      rw [hr] at h h11
      simp only [Option.some.injEq] at h
      subst h
      obtain ⟨h0, hn, hsz, hdec, _⟩ := h11
      simp only [Array.size_extract, Array.size_replicate] at *
      exact ⟨by omega, by omega, hdec⟩
    | zero => rw [hr] at h; simp at h
    | err => rw [hr] at h; simp at h
    | panic => rw [hr] at h; simp at h
  · simp only [if_neg hl] at h
    have h11 := Props.C01hc.c11_hc src (Array.replicate dstLen 0) level
    cases hr : HC.compressBlock src (Array.replicate dstLen 0) level with
    | ok n d' =>
      rw [hr] at h h11
      simp only [Option.some.injEq] at h
      subst h
      obtain ⟨h0, hn, hsz, hdec, _⟩ := h11
      simp only [Array.size_extract, Array.size_replicate] at *
      exact ⟨by omega, by omega, hdec⟩
    | zero => rw [hr] at h; simp at h
    | err => rw [hr] at h; simp at h
    | panic => rw [hr] at h; simp at h

/-- with room for the worst case every compressor succeeds -/
theorem compressBlock_bound (src : Array UInt8) (dstLen level : Nat) (h : Fast.bound src.size ≤ dstLen) :
    ∃ d, compressBlock src dstLen level = some d := by
  unfold compressBlock
  by_cases hl : level = 0
  · simp only [hl, if_true]
    obtain ⟨n, d, hc, _⟩ := Props.C01fast.c01_fast src (Array.replicate dstLen 0) (by simpa using h)
    rw [hc]; exact ⟨_, rfl⟩
  · simp only [if_neg hl]
    obtain ⟨n, d, hc, _⟩ := Props.C01hc.c01_hc src (Array.replicate dstLen 0) level
      (by rw [Proofs.HC.bound_fast]; simpa using h)
    rw [hc]; exact ⟨_, rfl⟩

/-- `CompressBlockBound(8 MiB)` -/
def bound8 : Nat := 8421520

theorem bound_le8 (n : Nat) (h : n ≤ 8388608) : Fast.bound n ≤ bound8 := by
  rw [Proofs.Fast.bound_eq]; unfold bound8; omega

/-- a legacy data block is always stored compressed; the payload is not empty, no longer than
`CompressBlockBound(8 MiB)`, and decodes to the block's source -/
theorem blkData_legacy (flags : Flags) (level : Nat) (src : Array UInt8)
    (hidx : blockSizeIndex flags = 3) (hsz : src.size ≤ 8388608) :
    ∃ d, blkData flags level true src = (false, d) ∧ 0 < d.size ∧ d.size ≤ bound8 ∧
      Spec.Block.decode d.toList [] src.size = some src := by
  unfold blkData
  simp only [if_true, hidx]
  have hp : poolSize 3 = 8388608 := rfl
  rw [hp]
  cases h1 : compressBlock src 8388608 level with
  | some d =>
    obtain ⟨h0, hn, hdec⟩ := compressBlock_some _ _ _ _ h1
    exact ⟨d, rfl, h0, by unfold bound8; omega, hdec⟩
  | none =>
    simp only
    obtain ⟨d, h2⟩ := compressBlock_bound src (Fast.bound src.size) level (Nat.le_refl _)
    rw [h2]
    obtain ⟨h0, hn, hdec⟩ := compressBlock_some _ _ _ _ h2
    have := bound_le8 _ hsz
    exact ⟨d, rfl, h0, by omega, hdec⟩

/-- the two payloads of a legacy block: size word, compressed bytes -/
theorem bw_legacy (P : Par) (hlg : P.lg = true) (hidx : blockSizeIndex P.flags = 3) (src : Array UInt8)
    (hsz : src.size ≤ 8388608) :
    ∃ d, P.bw src = [le32 d.size, d] ∧ 0 < d.size ∧ d.size ≤ bound8 ∧
      Spec.Block.decode d.toList [] src.size = some src := by
  obtain ⟨d, hd, h0, hn, hdec⟩ := blkData_legacy P.flags P.level src hidx hsz
  refine ⟨d, ?_, h0, hn, hdec⟩
  unfold Par.bw blkWrites
  rw [hlg, hd]
  simp only [true_or, if_true, List.append_nil, Bool.false_eq_true, if_false, Nat.add_zero]
  have : d.size % 2147483648 = d.size := by unfold bound8 at hn; omega
  rw [this]

/-! ## the legacy specification on one block -/

theorem legacyBlocks_nil (fuel : Nat) (content : Array UInt8) (sizes : List Nat) :
    legacyBlocks (fuel + 1) [] content sizes = .ok (content, sizes.reverse) := rfl

theorem le32_toList_cons (w : Nat) (r : List UInt8) :
    (le32 w).toList ++ r = (w % 256).toUInt8 :: (w / 256 % 256).toUInt8 :: (w / 65536 % 256).toUInt8 ::
      (w / 16777216 % 256).toUInt8 :: r := rfl

/-- one iteration of `legacyBlocks` on a size word that is neither the magic nor a trailer -/
theorem legacyBlocks_block (fuel : Nat) (d : Array UInt8) (rest : List UInt8) (content out : Array UInt8)
    (sizes : List Nat) (h0 : 0 < d.size) (hn : d.size ≤ bound8)
    (hdec : Spec.Block.decode d.toList [] legacyBlockMax = some out) :
    legacyBlocks (fuel + 1) ((le32 d.size).toList ++ (d.toList ++ rest)) content sizes =
      legacyBlocks fuel rest (content ++ out) (out.size :: sizes) := by
  have hu := u32_le32 d.size (by unfold bound8 at hn; omega) (d.toList ++ rest)
  rw [le32_toList_cons] at hu ⊢
  conv => lhs; unfold legacyBlocks
  simp only [hu]
  have hne : d.toList ≠ [] := by
    intro h
    have := congrArg List.length h
    simp only [Array.length_toList, List.length_nil] at this
    omega
  have hm : ¬ d.size = legacyMagic := by unfold legacyMagic; unfold bound8 at hn; omega
  have ht : ¬ (d.size = content.size % 4294967296 ∧ (d.toList ++ rest).isEmpty = true) := by
    intro h
    have := h.2
    simp only [List.isEmpty_iff, List.append_eq_nil_iff] at this
    exact hne this.1
  have hb : ¬ d.size > legacyBlockMax + legacyBlockMax / 255 + 16 := by
    unfold legacyBlockMax; unfold bound8 at hn; omega
  rw [if_neg hm, if_neg ht, if_neg hb, splitN_array]
  simp only [hdec]

/-! ## all blocks -/

theorem legacyBlocks_all (P : Par) (hlg : P.lg = true) (hidx : blockSizeIndex P.flags = 3) :
    ∀ (srcs : List (Array UInt8)) (fuel : Nat) (content : Array UInt8) (sizes : List Nat),
      (∀ s ∈ srcs, s.size ≤ 8388608) → srcs.length < fuel →
      legacyBlocks fuel (flat (srcs.flatMap P.bw)).toList content sizes =
        .ok (content ++ flat srcs, sizes.reverse ++ srcs.map Array.size) := by
  intro srcs
  induction srcs with
  | nil =>
    intro fuel content sizes _ hf
    obtain ⟨f, rfl⟩ : ∃ f, fuel = f + 1 := ⟨fuel - 1, by simp only [List.length_nil] at hf; omega⟩
    simp only [List.flatMap_nil, flat, Array.toList_empty, legacyBlocks_nil, Array.append_empty, List.map_nil,
      List.append_nil]
  | cons s srcs ih =>
    intro fuel content sizes hs hf
    obtain ⟨f, rfl⟩ : ∃ f, fuel = f + 1 := ⟨fuel - 1, by simp only [List.length_cons] at hf; omega⟩
    have hs0 := hs s (List.mem_cons_self ..)
    obtain ⟨d, hbw, h0, hn, hdec⟩ := bw_legacy P hlg hidx s hs0
    rw [List.flatMap_cons, hbw]
    simp only [List.cons_append, List.nil_append, flat, Array.toList_append]
    rw [legacyBlocks_block f d _ content s sizes h0 hn
      (decode_mono _ _ _ _ _ (by unfold legacyBlockMax; exact hs0) hdec)]
    rw [ih f (content ++ s) (s.size :: sizes) (fun x hx => hs x (List.mem_cons_of_mem _ hx))
      (by simp only [List.length_cons] at hf; omega)]
    simp only [List.reverse_cons, List.map_cons, List.append_assoc, List.cons_append, List.nil_append,
      Array.append_assoc]

/-! ## "every block but the last holds exactly 8 MiB" -/

theorem sizesOk_append (l t : List Nat) (h : ∀ x ∈ l, x = 8388608) (ht : t.length ≤ 1) :
    legacySizesOk (l ++ t) = true := by
  induction l with
  | nil =>
    match t, ht with
    | [], _ => rfl
    | [_], _ => rfl
  | cons x l ih =>
    have hx := h x (List.mem_cons_self ..)
    have ih' := ih (fun y hy => h y (List.mem_cons_of_mem _ hy))
    rw [List.cons_append]
    cases hlt : l ++ t with
    | nil => rfl
    | cons y r =>
      rw [hlt] at ih'
      unfold legacySizesOk
      rw [ih', hx]
      rfl

/-! ## the frame -/

theorem flat_lastB (p : Array UInt8) : flat (lastB p) = p := by
  unfold lastB
  by_cases h : p.size > 0
  · rw [if_pos h]; simp [flat]
  · rw [if_neg h]
    have : p = #[] := Array.eq_empty_of_size_eq_zero (by omega)
    rw [this]; rfl

theorem lastB_length (p : Array UInt8) : (lastB p).length ≤ 1 := by
  unfold lastB
  by_cases h : p.size > 0
  · rw [if_pos h]; simp
  · rw [if_neg h]; simp

/-- the payload list of a legacy session, flattened -/
theorem flat_frameW_legacy (cfg : Cfg) (hl : cfg.legacy = true) (cks : XXH.State) (BL : List (Array UInt8))
    (p : Array UInt8) :
    flat (frameW cfg cks BL p) = le32 frameMagicLegacy ++ flat ((BL ++ lastB p).flatMap (parOf cfg).bw) := by
  unfold frameW bodyW tailW hdrW
  have : (parOf cfg).lg = true := hl
  rw [this]
  simp only [hl, if_true, List.append_nil, flat]

/-- the legacy specification decodes the payload list of a legacy session to the stream -/
theorem decodeLegacy_frameW (cfg : Cfg) (hr : cfg.flags ∈ reachable) (hl : cfg.legacy = true)
    (cks : XXH.State) (D : Array UInt8) (BL : List (Array UInt8)) (p : Array UInt8)
    (hd : Decomp (parOf cfg).B D BL p) :
    ∃ sizes, decodeLegacy (flat (frameW cfg cks BL p)).toList = .ok (D, sizes) ∧
      legacySizesOk sizes = true := by
  have hidx : blockSizeIndex (parOf cfg).flags = 3 := by
    show blockSizeIndex (flags1 cfg) = 3
    unfold flags1
    rw [if_pos hl]
    exact legacy_idx _ hr
  have hB : (parOf cfg).B = 8388608 := by
    show poolSize (blockSizeIndex (parOf cfg).flags) = 8388608
    rw [hidx]; rfl
  obtain ⟨hbl, hp, hD⟩ := hd
  rw [hB] at hbl hp
  have hsz : ∀ s ∈ BL ++ lastB p, s.size ≤ 8388608 := by
    intro s hs
    rcases List.mem_append.mp hs with hs | hs
    · rw [hbl s hs]; exact Nat.le_refl _
    · unfold lastB at hs
      by_cases h : p.size > 0
      · rw [if_pos h] at hs
        simp only [List.mem_singleton] at hs
        rw [hs]; omega
      · rw [if_neg h] at hs; simp at hs
  refine ⟨(BL ++ lastB p).map Array.size, ?_, ?_⟩
  · rw [flat_frameW_legacy cfg hl]
    unfold decodeLegacy
    rw [Array.toList_append, u32_le32 _ (by decide)]
    simp only
    rw [if_neg (by decide)]
    have hfuel : (BL ++ lastB p).length <
        (flat ((BL ++ lastB p).flatMap (parOf cfg).bw)).toList.length + 1 := by
      have : ∀ l : List (Array UInt8), (∀ s ∈ l, s.size ≤ 8388608) →
          l.length ≤ (flat (l.flatMap (parOf cfg).bw)).size := by
        intro l
        induction l with
        | nil => intro _; simp
        | cons s l ih =>
          intro hs
          obtain ⟨d, hbw, h0, _⟩ := bw_legacy (parOf cfg) hl hidx s (hs s (List.mem_cons_self ..))
          have := ih (fun x hx => hs x (List.mem_cons_of_mem _ hx))
          rw [List.flatMap_cons, hbw]
          simp only [List.cons_append, List.nil_append, flat, Array.size_append, List.length_cons]
          omega
      have := this _ hsz
      simp only [Array.length_toList]
      omega
    rw [legacyBlocks_all (parOf cfg) hl hidx _ _ #[] [] hsz hfuel]
    simp only [Array.empty_append, List.reverse_nil, List.nil_append]
    rw [flat_append, flat_lastB, hD]
  · rw [List.map_append]
    apply sizesOk_append
    · intro x hx
      obtain ⟨s, hs, rfl⟩ := List.mem_map.mp hx
      exact hbl s hs
    · rw [List.length_map]; exact lastB_length p

/-! ## sessions -/

theorem check_cfg (w : W) (e : Option Err) : (check w e).cfg = w.cfg := by
  unfold check
  split
  · rfl
  · cases e with
    | none => rfl
    | some e => simp only; split <;> rfl

theorem cfgOf_eq (opts : List Opt) : (apply (new none) opts).1.cfg = cfgA opts := by
  rw [apply_new_fa, check_cfg]

/-- a clean session was not rejected by `Apply` -/
theorem errA_of_clean (opts : List Opt) (chunks : List (Array UInt8))
    (hclean : (Run.writeSession opts chunks).2 = none) : errA opts = none := by
  cases h : errA opts with
  | none => rfl
  | some e =>
    have := (session_rejected none opts chunks e h).2
    rw [writeSession_eq, this] at hclean
    cases hclean

/-- the bytes of a clean session are the flattened payload list -/
theorem written_clean (opts : List Opt) (chunks : List (Array UInt8))
    (hclean : (Run.writeSession opts chunks).2 = none) :
    ∃ BL p, Decomp (parOf (cfgA opts)).B (flat chunks) BL p ∧
      Run.writtenBytes opts chunks = flat (frameW (cfgA opts) XXH.zero BL p) := by
  obtain ⟨BL, p, hd, hs⟩ := session_char none opts chunks (errA_of_clean opts chunks hclean)
  refine ⟨BL, p, hd, ?_⟩
  rw [emits_none _ _ rfl] at hs
  have h1 := congrArg Prod.fst hs
  simp only at h1
  unfold Run.writtenBytes
  rw [writeSession_eq, bytes_eq, h1]
  simp

theorem legacy_main (opts : List Opt) (chunks : List (Array UInt8))
    (hclean : (Run.writeSession opts chunks).2 = none)
    (hleg : (apply (new none) opts).1.cfg.legacy = true) :
    ∃ sizes, decodeLegacy (Run.writtenBytes opts chunks).toList = .ok (Run.concat chunks, sizes) ∧
      legacySizesOk sizes = true := by
  rw [cfgOf_eq] at hleg
  obtain ⟨BL, p, hd, hw⟩ := written_clean opts chunks hclean
  rw [hw, concat_eq]
  exact decodeLegacy_frameW (cfgA opts) (cfgA_reach opts) hleg XXH.zero (flat chunks) BL p hd

/-- on the all-accepting sink a session (legacy or not) fails only if `Apply` rejects an option -/
theorem clean_of_apply (opts : List Opt) (chunks : List (Array UInt8))
    (hap : (apply (new none) opts).2 = none) : (Run.writeSession opts chunks).2 = none := by
  rw [apply_err] at hap
  obtain ⟨BL, p, _, hs⟩ := session_char none opts chunks hap
  rw [emits_none _ _ rfl] at hs
  have h2 := congrArg Prod.snd hs
  simp only at h2
  rw [writeSession_eq, h2]

end Lz4V.Proofs.FrameWLegacy
