import Lz4V.Proofs.CReaderInv
import Lz4V.Props.C09full
/-!
# Proofs.CReaderFrame — the frame a compressing-reader session delivers: `frameOf`, its equality with
the session output, its validity for the strict frame specification, termination, and its equality with
the bytes of the Writer model (C18 (3), (5))
-/
namespace Lz4V.Proofs.CReader
open Lz4V Lz4V.Go Lz4V.Gen Lz4V.Model Lz4V.Model.CReader Lz4V.Model.FrameW
open Lz4V.Proofs.FrameW (initFlags cfgInit reachable infoOf hdrOf tailOf Ctx CksOK Step)

/-- a whole-read, never-failing source over `data` -/
def srcOf (data : Array UInt8) : Source := { data := data }

/-- the frame for configuration `cfg` (as left by `Apply`) and content `data`: header, one data block per
block-size slice of `data` (the last one possibly short; none for empty `data`), end mark, content checksum -/
def frameOf (cfg : Cfg) (data : Array UInt8) : Array UInt8 :=
  hdrArr cfg ++ restFrom (cfgInit cfg) data (poolSize (blockSizeIndex (cfgInit cfg).flags)) 0 (XXH.reset XXH.zero)

/-! ## `NewCompressingReader` + `Apply` -/

theorem apply_new (src : Source) (opts : List Opt) :
    Model.CReader.apply (new src) opts =
      ({ new src with cfg := (Model.CReader.apply.go (new src).cfg opts).1 },
        (Model.CReader.apply.go (new src).cfg opts).2) := rfl

theorem new_cfg (src : Source) : (new src).cfg = (FrameW.new none).cfg := rfl

theorem apply_go_reach (opts : List Opt) : ∀ c : Cfg, c.flags ∈ reachable →
    (Model.CReader.apply.go c opts).1.flags ∈ reachable := by
  induction opts with
  | nil => intro c hc; exact hc
  | cons o os ih =>
    intro c hc
    cases o <;> simp only [Model.CReader.apply.go] <;> try exact hc
    all_goals
      split
      · rename_i c' h
        exact ih c' (Proofs.FrameW.applyOne_reach c c' _ hc h)
      · exact hc

/-- the options the compressing reader accepts are accepted by the Writer, with the same effect; the
concurrency level and the legacy flag stay untouched -/
theorem apply_go_writer (opts : List Opt) : ∀ c : Cfg, (Model.CReader.apply.go c opts).2 = none →
    Model.FrameW.apply.go c opts = Model.CReader.apply.go c opts ∧
      (Model.CReader.apply.go c opts).1.num = c.num ∧ (Model.CReader.apply.go c opts).1.legacy = c.legacy := by
  induction opts with
  | nil => intro c _; exact ⟨rfl, rfl, rfl⟩
  | cons o os ih =>
    intro c h
    cases o with
    | concurrency n => simp [Model.CReader.apply.go] at h
    | legacy b => simp [Model.CReader.apply.go] at h
    | blockSize n =>
      simp only [Model.CReader.apply.go, Model.FrameW.apply.go] at h ⊢
      cases ha : applyOne c (.blockSize n) with
      | error e => rw [ha] at h; simp at h
      | ok c' =>
        rw [ha] at h
        simp only at h ⊢
        have := ih c' h
        simp only [applyOne] at ha
        split at ha
        · cases ha; exact this
        · cases ha
    | blockChecksum b =>
      simp only [Model.CReader.apply.go, Model.FrameW.apply.go, applyOne] at h ⊢
      exact ih _ h
    | checksum b =>
      simp only [Model.CReader.apply.go, Model.FrameW.apply.go, applyOne] at h ⊢
      exact ih _ h
    | size n =>
      simp only [Model.CReader.apply.go, Model.FrameW.apply.go, applyOne] at h ⊢
      exact ih _ h
    | level n =>
      simp only [Model.CReader.apply.go, Model.FrameW.apply.go] at h ⊢
      cases ha : applyOne c (.level n) with
      | error e => rw [ha] at h; simp at h
      | ok c' =>
        rw [ha] at h
        simp only at h ⊢
        have := ih c' h
        simp only [applyOne] at ha
        split at ha
        · cases ha; exact this
        · cases ha

/-- the reader `NewCompressingReader(src)` + `Apply(opts)` leaves -/
abbrev startOf (data : Array UInt8) (opts : List Opt) : CR := (Model.CReader.apply (new (srcOf data)) opts).1

theorem start_reach (data : Array UInt8) (opts : List Opt) : (startOf data opts).cfg.flags ∈ reachable :=
  apply_go_reach opts _ Proofs.FrameW.reach_new

theorem start_wf (data : Array UInt8) (opts : List Opt) : WF (startOf data opts) := by
  have hr := start_reach data opts
  have hi := Proofs.FrameW.init_idx _ hr
  have hrng := Proofs.FrameW.reach_idx_range _ hr
  have hp := (Proofs.FrameW.poolSize_bounds _ hrng.1 hrng.2).1
  exact ⟨⟨rfl, rfl, rfl⟩, by show St.initial ≠ St.done; decide, fun h => hp, fun _ => ⟨hi, hp⟩⟩

theorem start_rest (data : Array UInt8) (opts : List Opt) :
    (startOf data opts).ov ++ rest (startOf data opts) = frameOf (startOf data opts).cfg data := by
  rw [rest_initial _ rfl]
  show #[] ++ _ = _
  rw [Array.empty_append]
  rfl

/-- C18 (3): the output of a session that ends with `io.EOF` is `frameOf` -/
theorem session_frame (opts : List Opt) (data : Array UInt8) (sizes : List Nat)
    (heof : (session (startOf data opts) sizes).1.getLast?.map (·.2.2) = some (some .eof)) :
    output (session (startOf data opts) sizes).1 = frameOf (startOf data opts).cfg data := by
  rw [session_eof sizes _ (start_wf data opts) heof, start_rest]

/-! ## termination -/

theorem session_ones (k : Nat) : ∀ (c : CR), WF c → (c.ov ++ rest c).size < k →
    (session c (List.replicate k 1)).1.getLast?.map (·.2.2) = some (some .eof) := by
  induction k with
  | zero => intro c _ h; omega
  | succ k ih =>
    intro c hwf hk
    rw [List.replicate_succ]
    rcases read_wf c hwf 1 with ⟨he, hwf1, hc⟩ | ⟨he, _, _⟩
    · rw [session_cons_none c 1 _ he]
      simp only
      have h1 := read_le c 1
      have h2 := read_progress c 1 (by omega)
      have hb : (read c 1).2.1.size = 1 := by
        rcases h2 with h | h
        · omega
        · exact absurd he h
      have hsz : (read c 1).2.1.size + ((read c 1).1.ov ++ rest (read c 1).1).size = (c.ov ++ rest c).size := by
        rw [← hc, Array.size_append, Array.size_append, Array.size_append]; omega
      have := ih (read c 1).1 hwf1 (by omega)
      cases hs : (session (read c 1).1 (List.replicate k 1)).1 with
      | nil => rw [hs] at this; simp at this
      | cons r rs => rw [List.getLast?_cons_cons, ← hs]; exact this
    · rw [session_cons_some c 1 _ .eof he]
      simp

/-- C18 (5): with one-byte buffers `io.EOF` is reached after at most `frame size + 1` calls -/
theorem session_reaches (opts : List Opt) (data : Array UInt8) (k : Nat)
    (hk : (frameOf (startOf data opts).cfg data).size < k) :
    (session (startOf data opts) (List.replicate k 1)).1.getLast?.map (·.2.2) = some (some .eof) :=
  session_ones k _ (start_wf data opts) (by rw [start_rest]; exact hk)


/-! ## the strict frame specification accepts `frameOf` -/

theorem tailArr_toList (cfg1 : Cfg) (cks : XXH.State) : (tailArr cfg1 cks).toList = tailOf cfg1 cks := by
  unfold tailArr tailOf
  split <;> simp

theorem hdrArr_toList (cfg : Cfg) : (hdrArr cfg).toList = hdrOf cfg := by
  simp only [hdrArr, hdrOf, Proofs.FrameW.hcOf, Proofs.FrameW.descOf, Array.toList_append, List.append_assoc]
  rfl

theorem blockOut_ok {cfg1 : Cfg} {info : Spec.Frame.Info} (ctx : Ctx cfg1 info) (cks : XXH.State)
    (src : Array UInt8) (h0 : 0 < src.size) (h1 : src.size ≤ poolSize (blockSizeIndex cfg1.flags)) :
    (blockOut cfg1 cks src).2 = (if flagContentChecksum cfg1.flags then XXH.write cks src.toList else cks) ∧
      Step info (blockOut cfg1 cks src).1.toList src ∧ 1 ≤ (blockOut cfg1 cks src).1.toList.length := by
  obtain ⟨sink', bs, hwb, _, hbytes, hstep, hlen⟩ :=
    Proofs.FrameW.writeBlock_ok ctx cks {} src rfl h0 h1
  unfold blockOut
  rw [hwb]
  simp only
  have : sink'.bytes.toList = bs := by
    rw [hbytes]; simp [Sink.bytes]
  rw [this]
  exact ⟨trivial, hstep, hlen⟩

theorem encRest_run {cfg1 : Cfg} {info : Spec.Frame.Info} (ctx : Ctx cfg1 info) (data : Array UInt8) (fuel : Nat) :
    ∀ (off : Nat) (cks : XXH.State) (bs0 : List UInt8) (k0 : Nat),
      data.size - off ≤ fuel → Proofs.FrameW.Run info bs0 (data.extract 0 off) k0 → k0 ≤ bs0.length →
      CksOK cfg1 cks (data.extract 0 off) →
      ∃ bs k cks', bs0 ++ (encRest cfg1 data (poolSize (blockSizeIndex cfg1.flags)) fuel off cks).toList =
          bs ++ tailOf cfg1 cks' ∧ Proofs.FrameW.Run info bs data k ∧ k ≤ bs.length ∧ CksOK cfg1 cks' data := by
  have hB := (Proofs.FrameW.poolSize_bounds _ ctx.idx4 ctx.idx7).1
  induction fuel with
  | zero =>
    intro off cks bs0 k0 hf hrun hk hcks
    have he : data.extract 0 off = data := Array.extract_eq_self_of_le (by omega)
    rw [he] at hrun hcks
    exact ⟨bs0, k0, cks, by rw [encRest, tailArr_toList], hrun, hk, hcks⟩
  | succ fuel ih =>
    intro off cks bs0 k0 hf hrun hk hcks
    rw [encRest]
    by_cases h : off < data.size
    · rw [if_pos h]
      have hsz : (data.extract off (off + poolSize (blockSizeIndex cfg1.flags))).size =
          min (off + poolSize (blockSizeIndex cfg1.flags)) data.size - off := by
        rw [Array.size_extract]
      obtain ⟨hc2, hstep, hlen⟩ := blockOut_ok ctx cks
        (data.extract off (off + poolSize (blockSizeIndex cfg1.flags))) (by omega) (by omega)
      have hcat : data.extract 0 off ++ data.extract off (off + poolSize (blockSizeIndex cfg1.flags)) =
          data.extract 0 (off + poolSize (blockSizeIndex cfg1.flags)) := by
        rw [Array.extract_append_extract, Nat.zero_min, Nat.max_eq_right (by omega)]
      have hrun' := hrun.snoc hstep
      have hcks' := Proofs.FrameW.cksOK_step (data.extract off (off + poolSize (blockSizeIndex cfg1.flags))) hcks
      rw [hcat] at hrun' hcks'
      rw [← hc2] at hcks'
      obtain ⟨bs, k, cks', he, hr, hkk, hck⟩ := ih (off + poolSize (blockSizeIndex cfg1.flags))
        (blockOut cfg1 cks (data.extract off (off + poolSize (blockSizeIndex cfg1.flags)))).2
        (bs0 ++ (blockOut cfg1 cks (data.extract off (off + poolSize (blockSizeIndex cfg1.flags)))).1.toList)
        (k0 + 1) (by omega) hrun' (by rw [List.length_append]; omega) hcks'
      refine ⟨bs, k, cks', ?_, hr, hkk, hck⟩
      rw [Array.toList_append, ← List.append_assoc, he]
    · rw [if_neg h]
      have he : data.extract 0 off = data := Array.extract_eq_self_of_le (by omega)
      rw [he] at hrun hcks
      exact ⟨bs0, k0, cks, by rw [tailArr_toList], hrun, hk, hcks⟩

/-- `frameOf` is accepted by the strict specification, for any block compressor satisfying `CompOK` -/
theorem frameOf_decode (cfg : Cfg) (data : Array UInt8) (hf : cfg.flags ∈ reachable)
    (hcomp : Proofs.FrameW.CompOK cfg.level) (hcs : cfg.contentSize < 2 ^ 64) (hlen : data.size < 2 ^ 64) :
    Spec.Frame.decode (frameOf cfg data).toList true = .ok ⟨infoOf cfg, data, (frameOf cfg data).size⟩ := by
  have ctx : Ctx (cfgInit cfg) (infoOf cfg) := Proofs.FrameW.ctx_of cfg hf hcomp
  have hcks0 : CksOK (cfgInit cfg) (XXH.reset XXH.zero) (data.extract 0 0) :=
    fun _ => ⟨XXH.zero, [], rfl, by simp⟩
  obtain ⟨bs, k, cks', he, hr, hk, hck⟩ := encRest_run ctx data (data.size - 0) 0 (XXH.reset XXH.zero) [] 0
    (Nat.le_refl _) (by simpa using Proofs.FrameW.Run.nil (infoOf cfg)) (Nat.le_refl _) hcks0
  have hb : (Sink.bytes { writes := #[frameOf cfg data] }) = frameOf cfg data := by simp [Sink.bytes]
  have hfin : Proofs.FrameW.Final (cfgInit cfg) (infoOf cfg) (hdrOf cfg)
      ({ cfg := cfg, sink := { writes := #[frameOf cfg data] } } : W) data := by
    refine ⟨bs, k, cks', ?_, hr, hk, hck⟩
    show (Sink.bytes { writes := #[frameOf cfg data] }).toList = _
    rw [hb, ← he, List.nil_append, ← hdrArr_toList]
    unfold frameOf restFrom
    rw [Array.toList_append]
  have := Proofs.FrameW.decode_final cfg hf hcs _ data hfin hlen
  simp only [hb] at this
  exact this

/-- C18 (3), validity: unconditional in the compressor (`hcCorrect` is proved in `Props/C09full.lean`) -/
theorem frameOf_valid (opts : List Opt) (data : Array UInt8) (hsz : data.size < 2 ^ 64)
    (hcs : (startOf data opts).cfg.contentSize < 2 ^ 64) :
    Spec.Frame.decode (frameOf (startOf data opts).cfg data).toList true =
      .ok ⟨infoOf (startOf data opts).cfg, data, (frameOf (startOf data opts).cfg data).size⟩ :=
  frameOf_decode _ data (start_reach data opts) (Proofs.FrameW.compOK_any Props.C09.hcCorrect _) hcs hsz

end Lz4V.Proofs.CReader
