import Lz4V.Model.Emit
import Lz4V.Proofs.BlockSpec2
/-!
# Proofs.FastEmit — the emission code (`Emit.emitSeq`, `Emit.lastLiterals`) writes exactly the
canonical serialisation (`Spec.Block.emitSeq`, `Spec.Block.emitLast`) when it has room, and
fails only when it has not.
-/
namespace Lz4V.Proofs.FastEmit
open Lz4V Lz4V.Go Lz4V.Model.Emit Lz4V.Proofs.BlockSpec2

/-- `n` bytes of `a` from index `i`, as a list -/
def slice (a : Array UInt8) (i n : Nat) : List UInt8 := (a.toList.drop i).take n

theorem slice_length (a : Array UInt8) (i n : Nat) (h : i + n ≤ a.size) : (slice a i n).length = n := by
  unfold slice
  rw [List.length_take, List.length_drop, Array.length_toList]; omega

theorem slice_zero (a : Array UInt8) (i : Nat) : slice a i 0 = [] := by
  unfold slice; simp

theorem slice_succ (a : Array UInt8) (i n : Nat) (h : i < a.size) :
    slice a i (n+1) = a[i]! :: slice a (i+1) n := by
  unfold slice
  have h' : i < a.toList.length := by rw [Array.length_toList]; exact h
  rw [List.drop_eq_getElem_cons h', List.take_succ_cons, getElem!_pos a i h, Array.getElem_toList]

theorem extract_toList (a : Array UInt8) (i : Nat) : (a.extract 0 i).toList = a.toList.take i := by
  rw [Array.toList_extract, List.extract_eq_take_drop]; simp

theorem extract_append_slice (a : Array UInt8) (i n : Nat) :
    a.extract 0 i ++ slice a i n = a.extract 0 (i+n) := by
  apply Array.ext'
  rw [Array.toList_appendList, extract_toList, extract_toList, List.take_add]
  rfl

theorem extract_append_slice_all (a : Array UInt8) (i : Nat) (h : i ≤ a.size) :
    a.extract 0 i ++ slice a i (a.size - i) = a := by
  rw [extract_append_slice]
  have : i + (a.size - i) = a.size := by omega
  rw [this]; simp

/-- `Wr d di d' di' bs`: `d'` is `d` with the bytes `bs` written at `di‥di'`; nothing before `di` changed. -/
def Wr (d : Array UInt8) (di : Nat) (d' : Array UInt8) (di' : Nat) (bs : List UInt8) : Prop :=
  d'.size = d.size ∧ di' = di + bs.length ∧ di' ≤ d.size ∧ d'.toList.take di' = d.toList.take di ++ bs

theorem Wr.refl (d : Array UInt8) (di : Nat) (h : di ≤ d.size) : Wr d di d di [] := by
  refine ⟨rfl, by simp, h, by simp⟩

theorem Wr.trans {d d' d'' : Array UInt8} {di di' di'' : Nat} {bs cs : List UInt8}
    (h1 : Wr d di d' di' bs) (h2 : Wr d' di' d'' di'' cs) : Wr d di d'' di'' (bs ++ cs) := by
  obtain ⟨a1, a2, a3, a4⟩ := h1
  obtain ⟨b1, b2, b3, b4⟩ := h2
  refine ⟨by omega, by simp only [List.length_append]; omega, by omega, ?_⟩
  rw [b4, a4, List.append_assoc]

theorem take_succ_set (l : List UInt8) (i : Nat) (v : UInt8) (h : i < l.length) :
    (l.set i v).take (i+1) = l.take i ++ [v] := by
  induction l generalizing i with
  | nil => simp at h
  | cons x xs ih =>
    cases i with
    | zero => simp
    | succ i =>
      simp only [List.set_cons_succ, List.take_succ_cons, List.cons_append]
      rw [ih i (by simpa using h)]

theorem Wr.set (d : Array UInt8) (di : Nat) (v : UInt8) (h : di < d.size) :
    Wr d di (d.set! di v) (di+1) [v] := by
  refine ⟨by simp, by simp, by omega, ?_⟩
  show (d.setIfInBounds di v).toList.take (di+1) = _
  rw [Array.toList_setIfInBounds, take_succ_set _ _ _ (by rw [Array.length_toList]; exact h)]

theorem Wr.blit (d : Array UInt8) (di : Nat) (src : Array UInt8) (si n : Nat)
    (h1 : di + n ≤ d.size) (h2 : si + n ≤ src.size) :
    Wr d di (blit d di src si n) (di+n) (slice src si n) := by
  induction n generalizing d di si with
  | zero => rw [slice_zero]; exact Wr.refl d di (by omega)
  | succ n ih =>
    rw [slice_succ src si n (by omega)]
    unfold Go.blit
    have hs := Wr.set d di src[si]! (by omega)
    have hb := ih (d.set! di src[si]!) (di+1) (si+1) (by rw [hs.1]; omega) (by omega)
    have := hs.trans hb
    have e : di + 1 + n = di + (n + 1) := by omega
    rw [e] at this
    exact this

theorem emitLen_lt (l : Nat) (h : l < 255) : Spec.Block.emitLen l = [l.toUInt8] := by
  rw [Spec.Block.emitLen, if_pos h]
theorem emitLen_ge (l : Nat) (h : ¬ l < 255) : Spec.Block.emitLen l = 255 :: Spec.Block.emitLen (l - 255) := by
  rw [Spec.Block.emitLen, if_neg h]

theorem ffLoop_spec (d : Array UInt8) (di l : Nat) (hdi : di ≤ d.size) :
    (ffLoop d di l).1.size = d.size ∧ (ffLoop d di l).2.1 ≤ d.size ∧
    (ffLoop d di l).2.1 ≤ di + l / 255 ∧
    ((ffLoop d di l).2.1 < d.size →
      Wr d di ((ffLoop d di l).1.set! (ffLoop d di l).2.1 (ffLoop d di l).2.2.toUInt8)
        ((ffLoop d di l).2.1 + 1) (Spec.Block.emitLen l)) := by
  induction l using Nat.strongRecOn generalizing d di with
  | _ l ih =>
    rw [ffLoop]
    split
    · rename_i h
      have hs := Wr.set d di 255 h.2
      obtain ⟨i1, i2, i3, i4⟩ := ih (l - 255) (by omega) (d.set! di 255) (di+1) (by rw [hs.1]; omega)
      rw [hs.1] at i1 i2 i4
      refine ⟨i1, i2, by omega, ?_⟩
      intro hlt
      have := hs.trans (i4 hlt)
      rw [emitLen_ge l (by omega)]
      exact this
    · rename_i h
      refine ⟨rfl, hdi, by simp, ?_⟩
      intro hlt
      simp only at hlt ⊢
      rw [emitLen_lt l (by omega)]
      exact Wr.set d di _ hlt

/-- token + literal-length header, shared by `emitSeq` and `lastLiterals`
(returns the index of the last byte written) -/
def hdr (dst : Array UInt8) (di lLen : Nat) (tA tB : UInt8) : Option (Array UInt8 × Nat) :=
  if lLen < 15 then some (dst.set! di tA, di)
  else
    let dst := dst.set! di tB
    let (dst, di, l) := ffLoop dst (di+1) (lLen - 15)
    if di ≥ dst.size then none else some (dst.set! di l.toUInt8, di)

def tailSeq (src dst : Array UInt8) (di anchor lLen offset mLen : Nat) : Option (Array UInt8 × Nat) :=
  if di + lLen > dst.size then none else
  let dst := blit dst di src anchor lLen
  let di := di + lLen + 2
  if di > dst.size then none else
  let dst := (dst.set! (di - 2) (offset % 256).toUInt8).set! (di - 1) (offset / 256 % 256).toUInt8
  if mLen ≥ 15 then
    let (dst, di, m) := ffLoop dst di (mLen - 15)
    if di ≥ dst.size then none else some (dst.set! di m.toUInt8, di + 1)
  else some (dst, di)

theorem emitSeq_eq (src dst : Array UInt8) (di anchor lLen offset mLen : Nat) :
    emitSeq src dst di anchor lLen offset mLen =
      if di ≥ dst.size then none else
      match hdr dst di lLen ((if mLen < 15 then mLen else 15) + lLen * 16).toUInt8
          ((if mLen < 15 then mLen else 15) + 0xF0).toUInt8 with
      | none => none
      | some (dst, di) => tailSeq src dst (di+1) anchor lLen offset mLen := by
  rfl

theorem lastLiterals_eq (src dst : Array UInt8) (di anchor : Nat) (notComp first : Bool) :
    lastLiterals src dst di anchor notComp first =
      if first ∧ notComp ∧ anchor = 0 then .zero else
      if di ≥ dst.size then .err else
      match hdr dst di (src.size - anchor) ((src.size - anchor) * 16).toUInt8 0xF0 with
      | none => .err
      | some (dst', di) =>
        if notComp ∧ di + 1 ≥ anchor then .zero else
        if di + 1 + src.size - anchor > dst'.size then .err else
        .ok (di + 1 + (src.size - anchor)) (blit dst' (di + 1) src anchor (src.size - anchor)) := by
  rfl

theorem hdr_spec (dst : Array UInt8) (di lLen : Nat) (tA tB : UInt8) (h : di < dst.size) :
    match hdr dst di lLen tA tB with
    | some (d', di') => Wr dst di d' (di'+1) ((if lLen < 15 then tA else tB) :: Spec.Block.ext lLen)
    | none => dst.size < di + 1 + (Spec.Block.ext lLen).length := by
  unfold hdr
  by_cases hl : lLen < 15
  · simp only [hl, if_true]
    have : Spec.Block.ext lLen = [] := by unfold Spec.Block.ext; rw [if_pos hl]
    rw [this]
    exact Wr.set dst di tA h
  · simp only [hl, if_false]
    have hs := Wr.set dst di tB h
    obtain ⟨i1, i2, i3, i4⟩ := ffLoop_spec (dst.set! di tB) (di+1) (lLen - 15) (by rw [hs.1]; omega)
    have hext : Spec.Block.ext lLen = Spec.Block.emitLen (lLen - 15) := by
      unfold Spec.Block.ext; rw [if_neg hl]
    generalize hr : ffLoop (dst.set! di tB) (di+1) (lLen - 15) = r at *
    obtain ⟨d1, di1, l1⟩ := r
    simp only at i1 i2 i3 i4 ⊢
    rw [hs.1] at i1 i2 i4
    by_cases hge : di1 ≥ d1.size
    · simp only [hge, if_true]
      rw [hext, emitLen_length]; omega
    · simp only [hge, if_false]
      rw [hext]
      exact hs.trans (i4 (by omega))

theorem off_hi (off : Nat) : (off / 256 % 256).toUInt8 = (off / 256).toUInt8 := by
  apply UInt8.toNat_inj.mp
  rw [Nat.toUInt8_eq, Nat.toUInt8_eq, UInt8.toNat_ofNat', UInt8.toNat_ofNat']; omega

theorem tailSeq_spec (src dst : Array UInt8) (di anchor lLen offset mLen : Nat)
    (hsrc : anchor + lLen ≤ src.size) :
    match tailSeq src dst di anchor lLen offset mLen with
    | some (d', di') => Wr dst di d' di'
        (slice src anchor lLen ++ ((offset % 256).toUInt8 :: (offset / 256).toUInt8 :: Spec.Block.ext mLen))
    | none => dst.size < di + lLen + 2 + (Spec.Block.ext mLen).length := by
  unfold tailSeq
  by_cases h1 : di + lLen > dst.size
  · simp only [h1, if_true]; omega
  simp only [h1, if_false]
  have hb := Wr.blit dst di src anchor lLen (by omega) hsrc
  rw [off_hi]
  by_cases h2 : di + lLen + 2 > (blit dst di src anchor lLen).size
  · simp only [h2, if_true]; rw [hb.1] at h2; omega
  simp only [h2, if_false]
  rw [hb.1] at h2
  have e2 : di + lLen + 2 - 2 = di + lLen := by omega
  have e1 : di + lLen + 2 - 1 = di + lLen + 1 := by omega
  rw [e1, e2]
  have hs1 := Wr.set (blit dst di src anchor lLen) (di + lLen) (offset % 256).toUInt8 (by rw [hb.1]; omega)
  have hs2 := Wr.set ((blit dst di src anchor lLen).set! (di + lLen) (offset % 256).toUInt8) (di + lLen + 1)
    (offset / 256).toUInt8 (by rw [hs1.1, hb.1]; omega)
  have h12 := hb.trans (hs1.trans hs2)
  by_cases hm : mLen ≥ 15
  · simp only [hm, if_true]
    have hext : Spec.Block.ext mLen = Spec.Block.emitLen (mLen - 15) := by
      unfold Spec.Block.ext; rw [if_neg (by omega)]
    obtain ⟨i1, i2, i3, i4⟩ := ffLoop_spec (((blit dst di src anchor lLen).set! (di + lLen) (offset % 256).toUInt8).set!
      (di + lLen + 1) (offset / 256).toUInt8) (di + lLen + 2) (mLen - 15) (by rw [h12.1]; omega)
    generalize hr : ffLoop (((blit dst di src anchor lLen).set! (di + lLen) (offset % 256).toUInt8).set!
      (di + lLen + 1) (offset / 256).toUInt8) (di + lLen + 2) (mLen - 15) = r at *
    obtain ⟨d1, di1, l1⟩ := r
    simp only at i1 i2 i3 i4 ⊢
    rw [h12.1] at i1 i2 i4
    by_cases hge : di1 ≥ d1.size
    · simp only [hge, if_true]
      rw [hext, emitLen_length]; omega
    · simp only [hge, if_false]
      rw [hext]
      have := h12.trans (i4 (by omega))
      simpa [List.append_assoc] using this
  · simp only [hm, if_false]
    have hext : Spec.Block.ext mLen = [] := by
      unfold Spec.Block.ext; rw [if_pos (by omega)]
    rw [hext]
    simpa [List.append_assoc] using h12

theorem token_eq1 (lLen mLen : Nat) (h : lLen < 15) :
    ((if mLen < 15 then mLen else 15) + lLen * 16).toUInt8 = Spec.Block.token lLen mLen := by
  unfold Spec.Block.token
  have : (if mLen < 15 then mLen else 15) + lLen * 16 = min lLen 15 * 16 + min mLen 15 := by
    split <;> omega
  rw [this]
theorem token_eq2 (lLen mLen : Nat) (h : ¬ lLen < 15) :
    ((if mLen < 15 then mLen else 15) + 0xF0).toUInt8 = Spec.Block.token lLen mLen := by
  unfold Spec.Block.token
  have : (if mLen < 15 then mLen else 15) + 0xF0 = min lLen 15 * 16 + min mLen 15 := by
    split <;> omega
  rw [this]

/-- `Emit.emitSeq` writes `Spec.Block.emitSeq` of the sequence, or fails for lack of room -/
theorem emitSeq_spec (src dst : Array UInt8) (di anchor lLen offset mLen : Nat)
    (hsrc : anchor + lLen ≤ src.size) :
    match emitSeq src dst di anchor lLen offset mLen with
    | some (d', di') => Wr dst di d' di' (Spec.Block.emitSeq ⟨slice src anchor lLen, offset, mLen⟩)
    | none => dst.size < di + (Spec.Block.emitSeq ⟨slice src anchor lLen, offset, mLen⟩).length := by
  rw [emitSeq_eq]
  have hlen := slice_length src anchor lLen hsrc
  rw [emitSeq_length]
  simp only [hlen]
  by_cases h0 : di ≥ dst.size
  · simp only [h0, if_true]; omega
  simp only [h0, if_false]
  have hh := hdr_spec dst di lLen ((if mLen < 15 then mLen else 15) + lLen * 16).toUInt8
          ((if mLen < 15 then mLen else 15) + 0xF0).toUInt8 (by omega)
  have htok : (if lLen < 15 then ((if mLen < 15 then mLen else 15) + lLen * 16).toUInt8
      else ((if mLen < 15 then mLen else 15) + 0xF0).toUInt8) = Spec.Block.token lLen mLen := by
    split
    · exact token_eq1 _ _ (by assumption)
    · exact token_eq2 _ _ (by assumption)
  rw [htok] at hh
  generalize hdr dst di lLen _ _ = r at hh
  cases r with
  | none => simp only at hh ⊢; omega
  | some p =>
    obtain ⟨d1, di1⟩ := p
    simp only at hh ⊢
    have ht := tailSeq_spec src d1 (di1+1) anchor lLen offset mLen hsrc
    generalize tailSeq src d1 (di1+1) anchor lLen offset mLen = r2 at ht
    cases r2 with
    | none =>
      simp only at ht ⊢
      have := hh.2.1
      simp only [List.length_cons] at this
      rw [hh.1] at ht; omega
    | some p2 =>
      obtain ⟨d2, di2⟩ := p2
      simp only at ht ⊢
      have := hh.trans ht
      unfold Spec.Block.emitSeq
      simpa [hlen, List.append_assoc] using this

theorem token_last (lLen : Nat) :
    (if lLen < 15 then (lLen * 16).toUInt8 else (0xF0 : UInt8)) = Spec.Block.token lLen 0 := by
  unfold Spec.Block.token
  split
  · have : min lLen 15 * 16 + min 0 15 = lLen * 16 := by omega
    rw [this]
  · have : min lLen 15 * 16 + min 0 15 = 240 := by omega
    rw [this]; rfl

/-- `Emit.lastLiterals` writes `Spec.Block.emitLast` of the remaining bytes, or reports
"incompressible" (only when `notComp`), or fails for lack of room -/
theorem lastLiterals_spec (src dst : Array UInt8) (di anchor : Nat) (notComp : Bool)
    (ha : anchor ≤ src.size) :
    match lastLiterals src dst di anchor notComp with
    | .ok n d => Wr dst di d n (Spec.Block.emitLast (slice src anchor (src.size - anchor)))
    | .zero => notComp = true
    | .err => dst.size < di + (Spec.Block.emitLast (slice src anchor (src.size - anchor))).length
    | .panic => False := by
  rw [lastLiterals_eq]
  have hlen := slice_length src anchor (src.size - anchor) (by omega)
  unfold Spec.Block.emitLast
  simp only [List.length_cons, List.length_append, hlen]
  by_cases h0 : (True ∧ notComp = true ∧ anchor = 0)
  · rw [if_pos h0]; exact h0.2.1
  rw [if_neg h0]
  by_cases h1 : di ≥ dst.size
  · simp only [h1, if_true]; omega
  simp only [h1, if_false]
  have hh := hdr_spec dst di (src.size - anchor) ((src.size - anchor) * 16).toUInt8 0xF0 (by omega)
  rw [token_last] at hh
  generalize hdr dst di (src.size - anchor) _ _ = r at hh
  cases r with
  | none => simp only at hh ⊢; omega
  | some p =>
    obtain ⟨d1, di1⟩ := p
    simp only at hh ⊢
    by_cases h2 : notComp = true ∧ di1 + 1 ≥ anchor
    · rw [if_pos h2]; exact h2.1
    rw [if_neg h2]
    have hl := hh.2.1
    simp only [List.length_cons] at hl
    by_cases h3 : di1 + 1 + src.size - anchor > d1.size
    · simp only [h3, if_true]
      rw [hh.1] at h3; omega
    simp only [h3, if_false]
    rw [hh.1] at h3
    have hb := Wr.blit d1 (di1+1) src anchor (src.size - anchor) (by rw [hh.1]; omega) (by omega)
    have := hh.trans hb
    simpa [List.append_assoc] using this

end Lz4V.Proofs.FastEmit
