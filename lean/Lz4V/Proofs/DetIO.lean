import Lz4V.Model.Run
/-!
# Proofs.DetIO — `io.ReadFull` / `Writer.ReadFrom` do not depend on how the source fragments its reads (C15)
-/
namespace Lz4V.Proofs.Det
open Lz4V Lz4V.Go Lz4V.Gen Lz4V.Model Lz4V.Model.FrameW

/-! ## `io.ReadFull` over a non-failing source -/

/-- the result `io.ReadFull` reports when `r` bytes are still requested, `rem` remain in the source and
`accsz` have been gathered already -/
def rfErr (r rem accsz : Nat) : Option Err :=
  if r = 0 then none else if rem ≥ r then none else if accsz + rem > 0 then some .unexpectedEOF else some .eof

theorem rfErr_ge {r rem a : Nat} (h : r ≤ rem) : rfErr r rem a = none := by
  unfold rfErr; grind
theorem rfErr_pos {r rem a : Nat} (h : rem < r) (h2 : 0 < a + rem) : rfErr r rem a = some .unexpectedEOF := by
  unfold rfErr; grind
theorem rfErr_eof {r rem a : Nat} (h : rem < r) (h2 : a + rem = 0) : rfErr r rem a = some .eof := by
  unfold rfErr; grind

theorem read_eq (s : Source) (want : Nat) (h : s.failAt = none) :
    s.read want = Source.read.go want { s with calls := s.calls + 1 } := by
  unfold Source.read
  rw [h]

theorem read_go_eq (s : Source) (want : Nat) :
    Source.read.go want s =
      (if want = 0 then (s, #[], none) else
       if s.data.size - s.pos = 0 then (s, #[], some .eof) else
       if s.eofWithData ∧ s.pos + min (min want (s.data.size - s.pos)) (if s.chunk = 0 then want else s.chunk) = s.data.size then
         ({ s with pos := s.pos + min (min want (s.data.size - s.pos)) (if s.chunk = 0 then want else s.chunk) },
           s.data.extract s.pos (s.pos + min (min want (s.data.size - s.pos)) (if s.chunk = 0 then want else s.chunk)), some .eof)
       else
         ({ s with pos := s.pos + min (min want (s.data.size - s.pos)) (if s.chunk = 0 then want else s.chunk) },
           s.data.extract s.pos (s.pos + min (min want (s.data.size - s.pos)) (if s.chunk = 0 then want else s.chunk)), none)) := by
  rfl

theorem loop_succ (want : Nat) (s : Source) (acc : Array UInt8) (fuel : Nat) :
    readFull.loop want s acc (fuel + 1) =
      (if acc.size ≥ want then (s, acc, none) else
        match (s.read (want - acc.size)).2.2 with
        | none =>
          if (s.read (want - acc.size)).2.1.size = 0 then
            ((s.read (want - acc.size)).1, acc ++ (s.read (want - acc.size)).2.1, some .unexpectedEOF)
          else readFull.loop want (s.read (want - acc.size)).1 (acc ++ (s.read (want - acc.size)).2.1) fuel
        | some err =>
          if (acc ++ (s.read (want - acc.size)).2.1).size ≥ want then
            ((s.read (want - acc.size)).1, acc ++ (s.read (want - acc.size)).2.1, none)
          else if err = .eof ∧ (acc ++ (s.read (want - acc.size)).2.1).size > 0 then
            ((s.read (want - acc.size)).1, acc ++ (s.read (want - acc.size)).2.1, some .unexpectedEOF)
          else ((s.read (want - acc.size)).1, acc ++ (s.read (want - acc.size)).2.1, some err)) := by
  rfl

theorem loop_char (want : Nat) (fuel : Nat) : ∀ (s : Source) (acc : Array UInt8), s.failAt = none →
    want - acc.size < fuel →
    ∃ s', readFull.loop want s acc fuel =
        (s', acc ++ s.data.extract s.pos (s.pos + (want - acc.size)),
          rfErr (want - acc.size) (s.data.size - s.pos) acc.size) ∧
      s'.data = s.data ∧ s'.pos = s.pos + min (want - acc.size) (s.data.size - s.pos) ∧
      s'.failAt = none ∧ s'.chunk = s.chunk ∧ s'.eofWithData = s.eofWithData := by
  induction fuel with
  | zero => intro s acc _ h; omega
  | succ fuel ih =>
    intro s acc hfa hf
    rw [loop_succ]
    by_cases hdone : acc.size ≥ want
    · rw [if_pos hdone]
      have h0 : want - acc.size = 0 := by omega
      refine ⟨s, ?_, rfl, by rw [h0]; simp, hfa, rfl, rfl⟩
      rw [h0]
      simp [rfErr]
      omega
    · rw [if_neg hdone]
      rw [read_eq s _ hfa, read_go_eq]
      have hr : ¬ (want - acc.size = 0) := by omega
      rw [if_neg hr]
      simp only
      by_cases hrem : s.data.size - s.pos = 0
      · rw [if_pos hrem]
        simp only [Array.append_empty]
        rw [if_neg hdone]
        refine ⟨{ s with calls := s.calls + 1 }, ?_, rfl, by simp [hrem], hfa, rfl, rfl⟩
        have hex : s.data.extract s.pos (s.pos + (want - acc.size)) = #[] := by
          apply Array.extract_empty_of_size_le_start; omega
        rw [hex, Array.append_empty]
        by_cases ha : acc.size > 0
        · rw [if_pos ⟨trivial, ha⟩, rfErr_pos (by omega) (by omega)]
        · rw [if_neg (by intro h; exact ha h.2), rfErr_eof (by omega) (by omega)]
      · rw [if_neg hrem]
        generalize hn : min (min (want - acc.size) (s.data.size - s.pos)) (if s.chunk = 0 then want - acc.size else s.chunk) = n
        have hn0 : 0 < n := by
          rw [← hn]; split <;> omega
        have hnr : n ≤ want - acc.size := by rw [← hn]; omega
        have hnm : n ≤ s.data.size - s.pos := by rw [← hn]; omega
        have hsz : (s.data.extract s.pos (s.pos + n)).size = n := by
          rw [Array.size_extract]; omega
        have hcat : acc ++ s.data.extract s.pos (s.pos + n) ++
            s.data.extract (s.pos + n) (s.pos + n + (want - (acc.size + n))) =
            acc ++ s.data.extract s.pos (s.pos + (want - acc.size)) := by
          rw [Array.append_assoc, Array.extract_append_extract]
          congr 2 <;> omega
        by_cases heof : s.eofWithData = true ∧ s.pos + n = s.data.size
        · rw [if_pos heof]
          simp only [Array.size_append, hsz]
          refine ⟨{ s with pos := s.pos + n, calls := s.calls + 1 }, ?_, rfl, by show s.pos + n = _; omega, hfa, rfl, rfl⟩
          have hex : s.data.extract s.pos (s.pos + (want - acc.size)) = s.data.extract s.pos (s.pos + n) := by
            rw [Array.extract_eq_extract_right]; omega
          rw [hex]
          by_cases hge : acc.size + n ≥ want
          · rw [if_pos hge, rfErr_ge (by omega)]
          · rw [if_neg hge, if_pos ⟨trivial, by omega⟩, rfErr_pos (by omega) (by omega)]
        · rw [if_neg heof]
          simp only [hsz]
          rw [if_neg (by omega)]
          obtain ⟨s', hl, hd, hp, hf', hc, he⟩ := ih { s with pos := s.pos + n, calls := s.calls + 1 }
            (acc ++ s.data.extract s.pos (s.pos + n)) hfa (by rw [Array.size_append, hsz]; omega)
          refine ⟨s', ?_, hd, ?_, hf', hc, he⟩
          · rw [hl]
            simp only [Array.size_append, hsz]
            rw [hcat]
            congr 2
            by_cases h2 : s.data.size - s.pos ≥ want - acc.size
            · rw [rfErr_ge (by show want - (acc.size + n) ≤ s.data.size - (s.pos + n); omega), rfErr_ge h2]
            · rw [rfErr_pos (by show s.data.size - (s.pos + n) < want - (acc.size + n); omega) (by omega),
                rfErr_pos (by omega) (by omega)]
          · rw [hp]
            simp only [Array.size_append, hsz]
            omega

/-- `io.ReadFull` over a source that never fails: the bytes, the result and the new position are those of a
single big read — the chunk size and the `eofWithData` behaviour do not appear -/
theorem readFull_char (s : Source) (want : Nat) (hfa : s.failAt = none) :
    ∃ s', readFull s want =
        (s', s.data.extract s.pos (s.pos + want), rfErr want (s.data.size - s.pos) 0) ∧
      s'.data = s.data ∧ s'.pos = s.pos + min want (s.data.size - s.pos) ∧
      s'.failAt = none ∧ s'.chunk = s.chunk ∧ s'.eofWithData = s.eofWithData := by
  obtain ⟨s', h, hr⟩ := loop_char want (want + 1) s #[] hfa (by simp)
  refine ⟨s', ?_, hr⟩
  unfold readFull
  rw [h]
  simp

/-- two sources over the same data at the same position, neither of which fails -/
def Sim (s₁ s₂ : Source) : Prop :=
  s₁.data = s₂.data ∧ s₁.pos = s₂.pos ∧ s₁.failAt = none ∧ s₂.failAt = none

theorem readFull_sim {s₁ s₂ : Source} (h : Sim s₁ s₂) (want : Nat) :
    (readFull s₁ want).2 = (readFull s₂ want).2 ∧ Sim (readFull s₁ want).1 (readFull s₂ want).1 := by
  obtain ⟨hd, hp, h1, h2⟩ := h
  obtain ⟨a, ha, had, hap, haf, _⟩ := readFull_char s₁ want h1
  obtain ⟨b, hb, hbd, hbp, hbf, _⟩ := readFull_char s₂ want h2
  rw [ha, hb]
  refine ⟨?_, ?_, ?_, haf, hbf⟩
  · simp only [hd, hp]
  · simp only [had, hbd, hd]
  · simp only [hap, hbp, hd, hp]

theorem rfLoop_succ (size : Nat) (w : W) (src : Source) (n fuel : Nat) :
    readFrom.loop size w src n (fuel + 1) =
      (if (readFull src size).2.2.isSome ∧
          ¬ ((readFull src size).2.2 = some .eof ∨ (readFull src size).2.2 = some .unexpectedEOF) then
        (w, (readFull src size).1, n, (readFull src size).2.2)
      else
        match (writeOne w (readFull src size).2.1).2 with
        | some we => ((writeOne w (readFull src size).2.1).1, (readFull src size).1,
            n + (readFull src size).2.1.size, some we)
        | none =>
          if (readFull src size).2.2 = some .eof ∨ (readFull src size).2.2 = some .unexpectedEOF then
            ((writeOne w (readFull src size).2.1).1, (readFull src size).1, n + (readFull src size).2.1.size, none)
          else readFrom.loop size (writeOne w (readFull src size).2.1).1 (readFull src size).1
            (n + (readFull src size).2.1.size) fuel) := by
  rfl

theorem rfLoop_sim (size : Nat) (fuel : Nat) : ∀ (w : W) (s₁ s₂ : Source) (n : Nat), Sim s₁ s₂ →
    (readFrom.loop size w s₁ n fuel).1 = (readFrom.loop size w s₂ n fuel).1 ∧
    (readFrom.loop size w s₁ n fuel).2.2 = (readFrom.loop size w s₂ n fuel).2.2 := by
  induction fuel with
  | zero => intro w s₁ s₂ n _; exact ⟨rfl, rfl⟩
  | succ fuel ih =>
    intro w s₁ s₂ n h
    obtain ⟨hr, hs⟩ := readFull_sim h size
    rw [rfLoop_succ, rfLoop_succ, hr]
    split
    · exact ⟨rfl, rfl⟩
    · split
      · exact ⟨rfl, rfl⟩
      · split
        · exact ⟨rfl, rfl⟩
        · exact ih _ _ _ _ hs

theorem readFrom_eq (w : W) (src : Source) :
    readFrom w src =
      (if w.st = stClosed then (w, src, 0, some .closedPipe)
      else if w.st = stError then (w, src, 0, w.err)
      else if w.st = stNew then
        if (next (init w).1 (init w).2).2 then ((next (init w).1 (init w).2).1, src, 0, (init w).2)
        else
          let w2 := (next (init w).1 (init w).2).1
          let size := poolSize (blockSizeIndex w2.cfg.flags)
          let r := readFrom.loop size w2 src 0 (src.data.size / (max size 1) + 3)
          (check r.1 r.2.2.2, r.2.1, r.2.2.1, r.2.2.2)
      else ({ w with st := stError, err := some .unhandledState }, src, 0, some .unhandledState)) := by
  rfl

theorem readFrom_sim (w : W) (s₁ s₂ : Source) (h : Sim s₁ s₂) :
    (readFrom w s₁).1 = (readFrom w s₂).1 ∧ (readFrom w s₁).2.2 = (readFrom w s₂).2.2 := by
  rw [readFrom_eq, readFrom_eq]
  split
  · exact ⟨rfl, rfl⟩
  · split
    · exact ⟨rfl, rfl⟩
    · split
      · split
        · exact ⟨rfl, rfl⟩
        · simp only
          obtain ⟨h1, h2⟩ := rfLoop_sim (poolSize (blockSizeIndex (next (init w).1 (init w).2).1.cfg.flags))
            (s₂.data.size / (max (poolSize (blockSizeIndex (next (init w).1 (init w).2).1.cfg.flags)) 1) + 3)
            (next (init w).1 (init w).2).1 s₁ s₂ 0 h
          rw [h.1, h1, h2]
          exact ⟨rfl, rfl⟩
      · exact ⟨rfl, rfl⟩

end Lz4V.Proofs.Det
