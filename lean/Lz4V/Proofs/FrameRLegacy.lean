import Lz4V.Proofs.FrameR
import Lz4V.Proofs.Slice
/-!
# Proofs.FrameRLegacy — legacy frames through `WriteTo`

`lrunAll` is a small functional description of what the Reader does with a legacy stream, written
with `Spec.Block.decode` in place of the Go block decoder (so that it can be evaluated by the kernel
without an 8 MiB destination array).  `legacy_readAll` proves it equal to the Reader model on the
clean-completion observable; the comparison with `Spec.Frame.decodeLegacy` is then a statement about
`lrunAll`.
-/
set_option linter.unusedSimpArgs false
namespace Lz4V.Proofs.FrameR
open Lz4V Lz4V.Go Lz4V.Gen Lz4V.Model Lz4V.Model.FrameR Lz4V.Model.FrameW

inductive LRead where
  | err
  | eof (pos : Nat)
  | blk (pos : Nat) (payload : Array UInt8)

/-- `blockRead` on a legacy frame, as a function of the position -/
def lblockRead (D : Array UInt8) (cum : Nat) : (pos : Nat) → (fuel : Nat) → LRead
  | _, 0 => .err
  | pos, fuel+1 =>
    if D.size < pos + 4 then (if pos = D.size then .eof D.size else .err) else
    let x := u32 (D.extract pos (pos + 4))
    if x = frameMagicLegacy then lblockRead D cum (pos + 4) fuel
    else if x = cum % 4294967296 then .eof (pos + 4)
    else if x ≥ 2147483648 ∨ x % 2147483648 = 0 then .err
    else if x > Fast.bound Block8Mb then .err
    else if D.size < pos + 4 + x then .err
    else .blk (pos + 4 + x) (D.extract (pos + 4) (pos + 4 + x))

/-- what `UncompressBlock` yields for a stored legacy block (legacy blocks are independent) -/
def ldecode (payload : Array UInt8) : Option (Array UInt8) :=
  Spec.Block.decode payload.toList [] 8388608

def lrun (D : Array UInt8) : (pos cum : Nat) → (content : Array UInt8) → (fuel : Nat) →
    Option (Array UInt8 × Nat)
  | pos, _, content, 0 => some (content, pos)
  | pos, cum, content, fuel+1 =>
    match lblockRead D cum pos (D.size + 2) with
    | .err => none
    | .eof p => some (content, p)
    | .blk p payload =>
      match ldecode payload with
      | none => none
      | some dst => lrun D p (cum + dst.size) (content ++ dst) fuel

def lrunAll (D : Array UInt8) : Option (Array UInt8 × Nat) := lrun D 4 0 #[] (D.size + 4)

/-- the clean-completion observable of a session -/
def obs (res : Array UInt8 × Option Err × Nat) : Option (Array UInt8 × Nat) :=
  if res.2.1 = none then some (res.1, res.2.2) else none

def legacyFlags : Flags := blockSizeIndexSet 0 (indexOf Block8Mb).toUInt16

theorem legacyFlags_idx : poolSize (blockSizeIndex legacyFlags) = 8388608 := by decide
theorem legacyFlags_bck : flagBlockChecksum legacyFlags = false := by decide
theorem legacyFlags_cck : flagContentChecksum legacyFlags = false := by decide
theorem legacyFlags_indep : flagBlockIndependence legacyFlags = false := by decide
theorem bound8 : Fast.bound Block8Mb = 8421520 := by decide

structure LInv (D : Array UInt8) (r : R) : Prop where
  good : Good r.src
  data : r.src.data = D
  magic : r.magic = frameMagicLegacy
  flags : r.flags = legacyFlags

theorem isLegacy_of_legacy (r : R) (h : r.magic = frameMagicLegacy) : isLegacy r = true := by
  unfold isLegacy; rw [h]; decide

/-- `blockRead` on a legacy frame is `lblockRead` -/
theorem blockRead_legacy (D : Array UInt8) (f : Nat) : ∀ (r : R), LInv D r →
    match lblockRead D r.cum r.src.pos f with
    | .err => ∃ r' e, blockRead r f = (r', some e) ∧ e ≠ .eof
    | .eof p => ∃ s', Good s' ∧ s'.data = D ∧ s'.pos = p ∧ blockRead r f = ({ r with src := s' }, some .eof)
    | .blk p payload => ∃ s' x, Good s' ∧ s'.data = D ∧ s'.pos = p ∧ payload.size = x ∧ x < 2147483648 ∧ 0 < x ∧
        blockRead r f = ({ r with src := s', bSize := x, bData := payload }, none) := by
  induction f with
  | zero => intro r _; exact ⟨r, .unhandledState, rfl, by simp⟩
  | succ f ih =>
    intro r hinv
    obtain ⟨hg, hd, hmag, hfl⟩ := hinv
    subst hd
    rw [blockRead_succ]
    unfold lblockRead
    have hl1 : ∀ s, isLegacy { r with src := s } = true := fun s => isLegacy_of_legacy _ hmag
    have hl2 : ∀ s y, isLegacy { r with src := s, bSize := y } = true := fun s y => isLegacy_of_legacy _ hmag
    by_cases h4' : r.src.data.size < r.src.pos + 4
    · obtain ⟨s1, g1, d1, p1, e1⟩ := readUint32_short r.src hg h4'
      rw [e1]
      simp only [h4', if_true, hl1]
      by_cases hp : r.src.pos = r.src.data.size
      · simp only [hp, if_true, shortErr]
        exact ⟨s1, g1, d1, p1, rfl⟩
      · simp only [hp, if_false, shortErr]
        exact ⟨_, _, rfl, by simp⟩
    have h4 : r.src.pos + 4 ≤ r.src.data.size := by omega
    obtain ⟨s1, g1, d1, p1, e1⟩ := readUint32_ok r.src hg h4
    rw [e1]
    simp only [h4', if_false]
    generalize hxv : u32 (r.src.data.extract r.src.pos (r.src.pos + 4)) = x
    simp only [hl1, hl2, true_and, not_true_eq_false, false_and, if_false, if_true]
    by_cases hx1 : x = frameMagicLegacy
    · simp only [hx1, if_true]
      have := ih { r with src := s1 } ⟨g1, d1, hmag, hfl⟩
      simp only [p1] at this
      exact this
    simp only [hx1, if_false]
    by_cases hx2 : x = r.cum % 4294967296
    · simp only [hx2, if_true]
      exact ⟨s1, g1, d1, p1, rfl⟩
    simp only [hx2, if_false]
    by_cases hx3 : x ≥ 2147483648 ∨ x % 2147483648 = 0
    · simp only [hx3, if_true]
      exact ⟨_, _, rfl, by simp⟩
    simp only [hx3, if_false]
    have hmod : x % 2147483648 = x := Nat.mod_eq_of_lt (by omega)
    have hxpos : 0 < x := by omega
    rw [hmod]
    by_cases hx4 : x > Fast.bound Block8Mb
    · simp only [hx4, if_true]
      exact ⟨_, _, rfl, by simp⟩
    simp only [hx4, if_false]
    by_cases hp' : r.src.data.size < r.src.pos + 4 + x
    · obtain ⟨s2, g2, d2, p2, e2⟩ := readFull_short s1 g1 x (by rw [d1, p1]; exact hp')
      rw [e2]
      simp only [hp', if_true, unexpected_shortErr]
      exact ⟨_, _, rfl, by simp⟩
    have hp : s1.pos + x ≤ s1.data.size := by rw [d1, p1]; omega
    obtain ⟨s2, g2, d2, p2, e2⟩ := readFull_ok s1 g1 x hp
    rw [e2]
    simp only [hp', if_false, hfl, legacyFlags_bck, Bool.false_eq_true]
    refine ⟨s2, x, g2, by rw [d2, d1], by rw [p2, p1], size_extract_of_le _ _ _ (by omega), by omega, hxpos, ?_⟩
    rw [d1, p1]

def obs4 (res : R × Sink × Nat × Option Err) : Option (Array UInt8 × Nat) :=
  if res.2.2.2 = none then some (res.2.1.bytes, res.1.src.pos) else none

theorem lrun_succ (D : Array UInt8) (pos cum : Nat) (content : Array UInt8) (fuel : Nat) :
    lrun D pos cum content (fuel + 1) =
    (match lblockRead D cum pos (D.size + 2) with
    | .err => none
    | .eof p => some (content, p)
    | .blk p payload =>
      match ldecode payload with
      | none => none
      | some dst => lrun D p (cum + dst.size) (content ++ dst) fuel) := rfl

theorem closeR_legacy (r : R) (h : r.magic = frameMagicLegacy) : closeR r = (r, none) := by
  unfold closeR; simp only [isLegacy_of_legacy r h, if_true]

theorem loop_legacy (D : Array UInt8) (fuel : Nat) : ∀ (r : R) (sink : Sink) (n : Nat), LInv D r →
    sink.failAt = none →
    obs4 (writeTo.loop 8388608 r sink n fuel) = lrun D r.src.pos r.cum sink.bytes fuel := by
  induction fuel with
  | zero => intro r sink n _ _; rfl
  | succ fuel ih =>
    intro r sink n hinv hsf
    have hb := blockRead_legacy D (D.size + 2) r hinv
    obtain ⟨hg, hd, hmag, hfl⟩ := hinv
    subst hd
    rw [loop_succ, readBlock_eq, lrun_succ]
    cases hlb : lblockRead r.src.data r.cum r.src.pos (r.src.data.size + 2) with
    | err =>
      rw [hlb] at hb
      obtain ⟨r1, e1, h1, hne⟩ := hb
      rw [h1]
      cases e1 <;> first | exact absurd rfl hne | rfl
    | eof p =>
      rw [hlb] at hb
      obtain ⟨s1, g1, d1, p1, h1⟩ := hb
      rw [h1]
      simp only []
      rw [closeR_legacy { r with src := s1, data := r.data } hmag]
      simp only [obs4, if_true]
      rw [p1]
    | blk p payload =>
      rw [hlb] at hb
      obtain ⟨s1, x, g1, d1, p1, hsz, hx, hxpos, h1⟩ := hb
      rw [h1]
      have hidx : poolSize (blockSizeIndex r.flags) = 8388608 := by rw [hfl]; exact legacyFlags_idx
      have hbck : flagBlockChecksum r.flags = false := by rw [hfl]; exact legacyFlags_bck
      have hcck : flagContentChecksum r.flags = false := by rw [hfl]; exact legacyFlags_cck
      have hind : flagBlockIndependence r.flags = false := by rw [hfl]; exact legacyFlags_indep
      simp only [hidx]
      unfold uncompress
      have hx' : ¬ x ≥ 2147483648 := by omega
      have hleg1 : isLegacy { r with src := s1, bSize := x, bData := payload } = true :=
        isLegacy_of_legacy _ hmag
      have hdec : uncompressBlock payload 8388608 #[] = ldecode payload :=
        uncompressBlock_eq payload #[] 8388608 (by omega) (by decide)
      simp only [hbck, Bool.false_eq_true, false_and, if_false, hx', hleg1, if_true, hdec]
      cases hdec' : ldecode payload with
      | none => rfl
      | some dst =>
        simp only [hcck, Bool.false_eq_true, if_false, Nat.le_refl, ge_iff_le, decide_true, if_true,
          sink_write sink hsf]
        have hrec := ih { (afterBlock { r with src := s1, bSize := x, bData := payload } dst true) with data := r.data }
          { sink with writes := sink.writes.push dst, calls := sink.calls + 1 } (n + dst.size)
          ⟨by show Good (afterBlock _ dst true).src; rw [afterBlock_src]; exact g1,
           by show (afterBlock _ dst true).src.data = _; rw [afterBlock_src]; exact d1,
           by show (afterBlock _ dst true).magic = _; rw [afterBlock_magic]; exact hmag,
           by show (afterBlock _ dst true).flags = _; rw [afterBlock_flags]; exact hfl⟩ hsf
        rw [hrec, sink_bytes_push]
        have e1 : (afterBlock { r with src := s1, bSize := x, bData := payload } dst true).src.pos = p := by
          rw [afterBlock_src]; exact p1
        have e3 : (afterBlock { r with src := s1, bSize := x, bData := payload } dst true).cum = r.cum + dst.size := by
          unfold afterBlock
          simp only [hind, Bool.false_eq_true, not_false_eq_true, if_true]
          split <;> rfl
        show lrun _ (afterBlock _ dst true).src.pos (afterBlock _ dst true).cum _ _ = _
        rw [e1, e3]

theorem u32_extract0 (bytes : Array UInt8) (_h : 4 ≤ bytes.size) : u32 (bytes.extract 0 4) = u32 bytes := by
  unfold u32
  simp only [Proofs.Slice.extract_get!]
  simp

/-- the Reader after `parseHeaders` met the legacy magic -/
def rHdr (bytes : Array UInt8) (num : Nat) (s1 : Source) : R :=
  { r0 bytes num with src := s1, magic := frameMagicLegacy, flags := legacyFlags, cks := XXH.reset XXH.zero }

/-- ... and after `init` and `next` -/
def rInit (bytes : Array UInt8) (num : Nat) (s1 : Source) : R :=
  { rHdr bytes num s1 with num := 1, idx := 0, data := #[], cum := 0 }

/-- a legacy stream through `WriteTo`: the Reader model and `lrunAll` agree on clean completion -/
theorem legacy_readAll (bytes : Array UInt8) (num : Nat) (hleg : u32 bytes = frameMagicLegacy ∧ 4 ≤ bytes.size) :
    obs (Run.readAll bytes num) = lrunAll bytes := by
  obtain ⟨hmagic, h4⟩ := hleg
  have hg0 : Good (r0 bytes num).src := ⟨rfl, rfl, rfl, Nat.zero_le _⟩
  obtain ⟨s1, g1, d1, p1, e1⟩ := readUint32_ok (r0 bytes num).src hg0 h4
  have hv : u32 ((r0 bytes num).src.data.extract (r0 bytes num).src.pos ((r0 bytes num).src.pos + 4))
      = frameMagicLegacy := by
    show u32 (bytes.extract 0 (0 + 4)) = _
    rw [Nat.zero_add, u32_extract0 bytes h4, hmagic]
  rw [hv] at e1
  have hph : parseHeaders (r0 bytes num) ((r0 bytes num).src.data.size + 2) = (rHdr bytes num s1, none) := by
    rw [parseHeaders_succ, e1]
    have hm0 : ¬ (r0 bytes num).magic > 0 := Nat.lt_irrefl 0
    have h1 : ¬ frameMagicLegacy = frameMagic := by decide
    simp only [hm0, if_false, h1, false_or, if_true]
    rfl
  have hinit : init (r0 bytes num) = (rInit bytes num s1, none) := by
    rw [init_eq, hph]
    have : flagBlockIndependence (rHdr bytes num s1).flags = false := legacyFlags_indep
    simp only [this, Bool.false_eq_true, not_false_eq_true, if_true]
    rfl
  rw [readAll_eq, writeTo_new (r0 bytes num) {} rfl, hinit]
  have hidx : poolSize (blockSizeIndex (rInit bytes num s1).flags) = 8388608 := legacyFlags_idx
  simp only [FrameR.next, Bool.false_eq_true, if_false, hidx]
  have hl := loop_legacy bytes (bytes.size + 4) { rInit bytes num s1 with st := readerStates (rInit bytes num s1).st }
    {} 0 ⟨g1, d1, rfl, rfl⟩ rfl
  have hd1 : (rInit bytes num s1).src.data.size = bytes.size := by
    show s1.data.size = _
    rw [d1]; rfl
  rw [hd1]
  rcases hloop : writeTo.loop 8388608 { rInit bytes num s1 with st := readerStates (rInit bytes num s1).st }
    {} 0 (bytes.size + 4) with ⟨r4, sink4, n4, e4⟩
  rw [hloop] at hl
  have hl' : lrunAll bytes = obs4 (r4, sink4, n4, e4) := by
    rw [hl]
    show _ = lrun bytes s1.pos 0 #[] (bytes.size + 4)
    rw [p1]
    rfl
  rw [hl']
  cases e4 <;> rfl

/-! ## `lrunAll` against `Spec.Frame.decodeLegacy` -/

theorem legacyBlocks_nil (F : Nat) (content : Array UInt8) (sizes : List Nat) :
    Spec.Frame.legacyBlocks (F + 1) [] content sizes = .ok (content, sizes.reverse) := rfl

theorem legacyBlocks_cons (F : Nat) (W : Array UInt8) (hW : W.size = 4) (T : List UInt8) (content : Array UInt8)
    (sizes : List Nat) : Spec.Frame.legacyBlocks (F + 1) (W.toList ++ T) content sizes =
    (if u32 W = Spec.Frame.legacyMagic then Spec.Frame.legacyBlocks F T content sizes else
      if u32 W = content.size % 4294967296 ∧ T.isEmpty then .ok (content, sizes.reverse) else
      if u32 W > Spec.Frame.legacyBlockMax + Spec.Frame.legacyBlockMax / 255 + 16 then .error .blockTooLarge else
      match Spec.Frame.splitN (u32 W) T #[] with
      | none => .error .truncated
      | some (payload, r) =>
        match Spec.Block.decode payload.toList [] Spec.Frame.legacyBlockMax with
        | none => .error .badBlock
        | some out => Spec.Frame.legacyBlocks F r (content ++ out) (out.size :: sizes)) := by
  obtain ⟨l⟩ := W
  match l, hW with
  | [a, b, c, d], _ => rfl

/-- one `lblockRead` against the specification (`c` = where the session ends) -/
theorem lblockRead_spec (D : Array UInt8) (content : Array UInt8) (sizes : List Nat) (c : Nat)
    (f : Nat) : ∀ pos, pos ≤ D.size →
    match lblockRead D content.size pos f with
    | .err => True
    | .eof p => pos ≤ p ∧ p ≤ D.size ∧ (c = p → ∀ F, c - pos < F →
        Spec.Frame.legacyBlocks F (D.extract pos c).toList content sizes = .ok (content, sizes.reverse))
    | .blk p payload => pos + 4 < p ∧ p ≤ D.size ∧ (p ≤ c → ∀ F, c - pos < F →
        ∃ F', c - p < F' ∧ Spec.Frame.legacyBlocks F (D.extract pos c).toList content sizes =
          match Spec.Block.decode payload.toList [] 8388608 with
          | none => .error .badBlock
          | some ob => Spec.Frame.legacyBlocks F' (D.extract p c).toList (content ++ ob) (ob.size :: sizes)) := by
  induction f with
  | zero => intro pos _; trivial
  | succ f ih =>
    intro pos hpos
    unfold lblockRead
    by_cases h4' : D.size < pos + 4
    · simp only [h4', if_true]
      by_cases hp : pos = D.size
      · simp only [hp, if_true]
        refine ⟨Nat.le_refl _, Nat.le_refl _, ?_⟩
        intro hcp F hF
        have : (D.extract D.size c).toList = [] := by
          apply List.eq_nil_of_length_eq_zero
          simp only [Array.length_toList, Array.size_extract]; omega
        rw [this]
        cases F with
        | zero => omega
        | succ F => rfl
      · simp only [hp, if_false]
    simp only [h4', if_false]
    have h4 : pos + 4 ≤ D.size := by omega
    have hW := size_extract_of_le D pos 4 h4
    generalize hxv : u32 (D.extract pos (pos + 4)) = x
    have hsplit : ∀ q, pos + 4 ≤ q → (D.extract pos q).toList =
        (D.extract pos (pos + 4)).toList ++ (D.extract (pos + 4) q).toList := by
      intro q hq
      rw [extract_split D pos (pos + 4) q (by omega) hq, Array.toList_append]
    have hmg : frameMagicLegacy = Spec.Frame.legacyMagic := rfl
    by_cases hx1 : x = frameMagicLegacy
    · simp only [hx1, if_true]
      have := ih (pos + 4) h4
      cases hres : lblockRead D content.size (pos + 4) f with
      | err => trivial
      | eof p =>
        rw [hres] at this
        obtain ⟨a1, a2, a3⟩ := this
        refine ⟨by omega, a2, ?_⟩
        intro hcp F hF
        cases F with
        | zero => omega
        | succ F =>
          rw [hsplit c (by omega), legacyBlocks_cons F _ hW, hxv, hx1]
          simp only [hmg, if_true]
          exact a3 hcp F (by omega)
      | blk p payload =>
        rw [hres] at this
        obtain ⟨a1, a2, a3⟩ := this
        refine ⟨by omega, a2, ?_⟩
        intro hcp F hF
        cases F with
        | zero => omega
        | succ F =>
          rw [hsplit c (by omega), legacyBlocks_cons F _ hW, hxv, hx1]
          simp only [hmg, if_true]
          exact a3 hcp F (by omega)
    simp only [hx1, if_false]
    have hx1' : ¬ x = Spec.Frame.legacyMagic := hx1
    by_cases hx2 : x = content.size % 4294967296
    · subst hx2
      simp only [if_true]
      refine ⟨by omega, h4, ?_⟩
      intro hcp F hF
      cases F with
      | zero => omega
      | succ F =>
        rw [hsplit c (by omega), legacyBlocks_cons F _ hW, hxv]
        have : (D.extract (pos + 4) c).toList = [] := by
          apply List.eq_nil_of_length_eq_zero
          simp only [Array.length_toList, Array.size_extract]; omega
        rw [this]
        simp only [hx1', if_false, List.isEmpty_nil, and_self, if_true]
    simp only [hx2, if_false]
    by_cases hx3 : x ≥ 2147483648 ∨ x % 2147483648 = 0
    · simp only [hx3, if_true]
    simp only [hx3, if_false]
    by_cases hx4 : x > Fast.bound Block8Mb
    · simp only [hx4, if_true]
    simp only [hx4, if_false]
    by_cases hp' : D.size < pos + 4 + x
    · simp only [hp', if_true]
    simp only [hp', if_false]
    refine ⟨by omega, by omega, ?_⟩
    intro hpc F hF
    cases F with
    | zero => omega
    | succ F =>
      refine ⟨F, by omega, ?_⟩
      rw [hsplit c (by omega), legacyBlocks_cons F _ hW, hxv]
      have hx2' : ¬ (x = content.size % 4294967296 ∧ (D.extract (pos + 4) c).toList.isEmpty = true) :=
        fun hh => hx2 hh.1
      have hx4' : ¬ x > Spec.Frame.legacyBlockMax + Spec.Frame.legacyBlockMax / 255 + 16 := by
        rw [bound8] at hx4
        unfold Spec.Frame.legacyBlockMax
        omega
      simp only [hx1', hx2', hx4', if_false]
      have hsp : (D.extract (pos + 4) c).toList =
          (D.extract (pos + 4) (pos + 4 + x)).toList ++ (D.extract (pos + 4 + x) c).toList := by
        rw [extract_split D (pos + 4) (pos + 4 + x) c (by omega) hpc, Array.toList_append]
      have hsz := size_extract_of_le D (pos + 4) x (by omega)
      have hspn := splitN_toList (D.extract (pos + 4) (pos + 4 + x)) (D.extract (pos + 4 + x) c).toList #[]
      rw [hsz] at hspn
      rw [hsp, hspn]
      simp only [Array.empty_append]
      rfl

theorem lrun_spec (D : Array UInt8) (out : Array UInt8) (c : Nat) (fuel : Nat) :
    ∀ (pos cum : Nat) (content : Array UInt8) (sizes : List Nat), cum = content.size → pos ≤ D.size →
      lrun D pos cum content fuel = some (out, c) →
      (pos ≤ c ∧ c ≤ D.size) ∧ ∀ F, c - pos < F → ∃ s,
        Spec.Frame.legacyBlocks F (D.extract pos c).toList content sizes = .ok (out, s) := by
  induction fuel with
  | zero =>
    intro pos cum content sizes _ hpos h
    simp only [lrun, Option.some.injEq, Prod.mk.injEq] at h
    obtain ⟨rfl, rfl⟩ := h
    refine ⟨⟨Nat.le_refl _, hpos⟩, ?_⟩
    intro F hF
    have : (D.extract pos pos).toList = [] := by
      apply List.eq_nil_of_length_eq_zero
      simp only [Array.length_toList, Array.size_extract]; omega
    rw [this]
    cases F with
    | zero => omega
    | succ F => exact ⟨_, rfl⟩
  | succ fuel ih =>
    intro pos cum content sizes hcum hpos h
    subst hcum
    rw [lrun_succ] at h
    have hb := lblockRead_spec D content sizes c (D.size + 2) pos hpos
    cases hres : lblockRead D content.size pos (D.size + 2) with
    | err => rw [hres] at h; simp at h
    | eof p =>
      rw [hres] at h hb
      simp only [Option.some.injEq, Prod.mk.injEq] at h
      obtain ⟨rfl, rfl⟩ := h
      obtain ⟨a1, a2, a3⟩ := hb
      exact ⟨⟨a1, a2⟩, fun F hF => ⟨_, a3 rfl F hF⟩⟩
    | blk p payload =>
      rw [hres] at h hb
      obtain ⟨a1, a2, a3⟩ := hb
      simp only [] at h
      cases hdec : ldecode payload with
      | none => rw [hdec] at h; simp at h
      | some dst =>
        rw [hdec] at h
        simp only [] at h
        have hih := fun sz => ih p (content.size + dst.size) (content ++ dst) sz (by simp) a2 h
        obtain ⟨b1, b2⟩ := (hih []).1
        refine ⟨⟨by omega, b2⟩, ?_⟩
        intro F hF
        obtain ⟨F', hF', hstep⟩ := a3 b1 F hF
        unfold ldecode at hdec
        rw [hdec] at hstep
        simp only [] at hstep
        rw [hstep]
        exact (hih (dst.size :: sizes)).2 F' hF'

theorem lrunAll_spec (D : Array UInt8) (out : Array UInt8) (c : Nat) (h4 : 4 ≤ D.size)
    (hmagic : u32 D = frameMagicLegacy) (h : lrunAll D = some (out, c)) :
    (4 ≤ c ∧ c ≤ D.size) ∧ ∃ s, Spec.Frame.decodeLegacy (D.extract 0 c).toList = .ok (out, s) := by
  unfold lrunAll at h
  obtain ⟨⟨b1, b2⟩, b3⟩ := lrun_spec D out c (D.size + 4) 4 0 #[] [] rfl h4 h
  refine ⟨⟨b1, b2⟩, ?_⟩
  unfold Spec.Frame.decodeLegacy
  have hsplit : (D.extract 0 c).toList = (D.extract 0 4).toList ++ (D.extract 4 c).toList := by
    rw [extract_split D 0 4 c (by omega) b1, Array.toList_append]
  rw [hsplit, u32_toList _ (size_extract_of_le D 0 4 h4)]
  simp only []
  have hm : ¬ u32 (D.extract 0 (0 + 4)) ≠ Spec.Frame.legacyMagic := by
    rw [Nat.zero_add, u32_extract0 D h4, hmagic]
    exact fun hn => hn rfl
  rw [if_neg hm]
  exact b3 _ (by rw [toList_extract_length _ _ _ b2]; omega)

theorem obs_eq_some (res : Array UInt8 × Option Err × Nat) (out : Array UInt8) (c : Nat) :
    obs res = some (out, c) ↔ res = (out, none, c) := by
  obtain ⟨o, e, c'⟩ := res
  unfold obs
  cases e <;> simp

end Lz4V.Proofs.FrameR
