import Lz4V.Proofs.FrameW
import Lz4V.Model.CReader
/-!
# Proofs.CReader — the compressing reader model (`Model.CReader`): per-call facts, the byte-conservation
invariant of the overflow writer, and the frame it delivers (C18)
-/
namespace Lz4V.Proofs.CReader
open Lz4V Lz4V.Go Lz4V.Gen Lz4V.Model Lz4V.Model.CReader Lz4V.Model.FrameW
open Lz4V.Proofs.FrameW (initFlags cfgInit reachable)

def failF (c : CR) (e : Err) : CR × Array UInt8 × Option Err := ({ c with st := .done }, #[], some e)
abbrev loopF (want idx : Nat) := read.loop want failF idx

def tailArr (cfg1 : Cfg) (cks : XXH.State) : Array UInt8 :=
  le32 0 ++ (if flagContentChecksum cfg1.flags then le32 (XXH.sum32 cks).toNat else #[])

def hdrArr (cfg : Cfg) : Array UInt8 :=
  let flags := initFlags cfg.flags
  let d : Array UInt8 := #[(flags.toNat % 256).toUInt8, (flags.toNat / 256).toUInt8] ++
      (if flagSize flags then le64 cfg.contentSize else #[])
  le32 frameMagic ++ d ++ #[((XXH.checksumZero d.toList).toNat / 256 % 256).toUInt8]

theorem loop_zero (want idx : Nat) (c : CR) (out : Array UInt8) :
    loopF want idx c out 0 = failF c .unhandledState := rfl

theorem loop_succ (want idx : Nat) (c : CR) (out : Array UInt8) (fuel : Nat) :
    loopF want idx c out (fuel + 1) =
      (let r := readFull c.src (poolSize idx)
       let c1 : CR := { c with src := r.1 }
       match r.2.2 with
       | none =>
         let eb := emitBlock c1 want out r.2.1
         if eb.2.size = want then (eb.1, eb.2, none) else loopF want idx eb.1 eb.2 fuel
       | some err =>
         if err = .eof ∨ err = .unexpectedEOF then
           let eb := if r.2.1.size > 0 then emitBlock c1 want out r.2.1 else (c1, out)
           let ow := ovWrite want eb.2 eb.1.ov (tailArr eb.1.cfg eb.1.cks)
           ({ eb.1 with st := .flushing, ov := ow.2 }, ow.1, none)
         else failF c1 err) := rfl

/-- the part of `read` after `out.reset(p)` when the overflow does not fill the buffer -/
def readB (c : CR) (want : Nat) : CR × Array UInt8 × Option Err :=
  let out := c.ov
  let c0 : CR := { c with ov := #[], ovPosNonZero := false }
  match c.st with
  | .initial =>
    let ow := ovWrite want out #[] (hdrArr c.cfg)
    loopF want (blockSizeIndex c.cfg.flags)
      { c0 with cfg := cfgInit c.cfg, cks := XXH.reset c.cks, ov := ow.2, st := .reading } ow.1
      (c.src.data.size / (max (poolSize (blockSizeIndex (initFlags c.cfg.flags))) 1) + 3)
  | .done => failF c0 .readerDone
  | .flushing => if out.size > 0 then (c0, out, none) else ({ c0 with st := .done }, #[], some .eof)
  | .reading => loopF want (blockSizeIndex c.cfg.flags) c0 out
      (c.src.data.size / (max (poolSize (blockSizeIndex c.cfg.flags)) 1) + 3)

theorem read_eq (c : CR) (want : Nat) :
    read c want =
      if c.ov.size ≥ want then
        ({ c with ov := c.ov.extract want c.ov.size, ovPosNonZero := true }, c.ov.extract 0 want, none)
      else readB c want := by
  unfold Model.CReader.read readB
  split
  · rfl
  · cases h : c.st <;> rfl
/-! ## the overflow writer: sizes -/

theorem ovWrite_size (want : Nat) (out ov p : Array UInt8) (h : out.size ≤ want) :
    (ovWrite want out ov p).1.size ≤ want ∧ out.size ≤ (ovWrite want out ov p).1.size ∧
      (0 < want → 0 < p.size → 0 < (ovWrite want out ov p).1.size) := by
  simp only [ovWrite, Array.size_append, Array.size_extract]
  omega

def ovStep (want : Nat) (x : Array UInt8 × Array UInt8) (w : Array UInt8) : Array UInt8 × Array UInt8 :=
  ovWrite want x.1 x.2 w

theorem emitBlock_eq (c : CR) (want : Nat) (out data : Array UInt8) :
    emitBlock c want out data =
      ({ c with cks := (writeBlock c.cfg false c.cks {} data).2.1,
                ov := ((writeBlock c.cfg false c.cks {} data).1.writes.foldl (ovStep want) (out, c.ov)).2 },
       ((writeBlock c.cfg false c.cks {} data).1.writes.foldl (ovStep want) (out, c.ov)).1) := rfl

theorem foldOv_size (want : Nat) (ws : List (Array UInt8)) : ∀ (x : Array UInt8 × Array UInt8), x.1.size ≤ want →
    (ws.foldl (ovStep want) x).1.size ≤ want ∧ x.1.size ≤ (ws.foldl (ovStep want) x).1.size := by
  induction ws with
  | nil => intro x h; exact ⟨h, Nat.le_refl _⟩
  | cons w ws ih =>
    intro x h
    have h1 := ovWrite_size want x.1 x.2 w h
    have h2 := ih (ovStep want x w) h1.1
    simp only [List.foldl_cons]
    refine ⟨h2.1, Nat.le_trans h1.2.1 h2.2⟩

theorem emitBlock_size (c : CR) (want : Nat) (out data : Array UInt8) (h : out.size ≤ want) :
    (emitBlock c want out data).2.size ≤ want ∧ out.size ≤ (emitBlock c want out data).2.size := by
  rw [emitBlock_eq, ← Array.foldl_toList]
  exact foldOv_size want _ (out, c.ov) h

theorem tailArr_size (cfg1 : Cfg) (cks : XXH.State) : 0 < (tailArr cfg1 cks).size := by
  simp only [tailArr, Array.size_append, Proofs.FrameW.le32_size]
  omega

theorem hdrArr_size (cfg : Cfg) : 0 < (hdrArr cfg).size := by
  simp only [hdrArr, Array.size_append, Proofs.FrameW.le32_size]
  omega

/-! ## the read loop: size, progress and error facts that hold for every state and source -/

/-- what every result of `read` satisfies, given the number of bytes `n` already in the caller's buffer -/
def ResOK (want n : Nat) (r : CR × Array UInt8 × Option Err) : Prop :=
  r.2.1.size ≤ want ∧ (r.2.2 ≠ none → r.2.1 = #[] ∧ r.1.st = .done ∧ r.2.2 ≠ some .eof) ∧
    (r.2.2 = none → n ≤ r.2.1.size ∧ (0 < want → 0 < r.2.1.size))

theorem failF_ok (want n : Nat) (c : CR) (e : Err) (he : e ≠ .eof) : ResOK want n (failF c e) := by
  refine ⟨Nat.zero_le _, fun _ => ⟨rfl, rfl, ?_⟩, fun h => ?_⟩
  · simp only [failF, ne_eq, Option.some.injEq]; exact he
  · simp [failF] at h

theorem loop_res (want idx : Nat) (fuel : Nat) : ∀ (c : CR) (out : Array UInt8), out.size ≤ want →
    ResOK want out.size (loopF want idx c out fuel) := by
  induction fuel with
  | zero => intro c out _; rw [loop_zero]; exact failF_ok _ _ _ _ (by decide)
  | succ fuel ih =>
    intro c out h
    rw [loop_succ]
    simp only
    generalize readFull c.src (poolSize idx) = r
    obtain ⟨s, got, e⟩ := r
    cases e with
    | none =>
      simp only
      have hs := emitBlock_size { c with src := s } want out got h
      generalize emitBlock { c with src := s } want out got = eb at hs ⊢
      split
      · rename_i heq
        refine ⟨Nat.le_of_eq heq, fun hh => absurd rfl hh, fun _ => ⟨hs.2, fun hw => ?_⟩⟩
        simp only; omega
      · have := ih eb.1 eb.2 hs.1
        refine ⟨this.1, this.2.1, fun hn => ?_⟩
        have := this.2.2 hn
        omega
    | some err =>
      simp only
      split
      · have hs : (if got.size > 0 then emitBlock { c with src := s } want out got else ({ c with src := s }, out)).2.size ≤ want ∧
            out.size ≤ (if got.size > 0 then emitBlock { c with src := s } want out got else ({ c with src := s }, out)).2.size := by
          split
          · exact emitBlock_size _ want out got h
          · exact ⟨h, Nat.le_refl _⟩
        generalize (if got.size > 0 then emitBlock { c with src := s } want out got else ({ c with src := s }, out)) = eb at hs ⊢
        have ho := ovWrite_size want eb.2 eb.1.ov (tailArr eb.1.cfg eb.1.cks) hs.1
        refine ⟨ho.1, fun hh => absurd rfl hh, fun _ => ⟨?_, fun hw => ho.2.2 hw (tailArr_size _ _)⟩⟩
        simp only; omega
      · rename_i hne
        exact failF_ok _ _ _ _ (fun h => hne (Or.inl h))

/-- the per-call facts (C18 (1), (2), (4), (6)) in one statement -/
def ResR (want : Nat) (r : CR × Array UInt8 × Option Err) : Prop :=
  r.2.1.size ≤ want ∧ (r.2.2 ≠ none → r.2.1 = #[] ∧ r.1.st = .done) ∧
    (r.2.2 = none → 0 < want → 0 < r.2.1.size)

theorem ResOK.toR {want n : Nat} {r : CR × Array UInt8 × Option Err} (h : ResOK want n r) : ResR want r :=
  ⟨h.1, fun hn => ⟨(h.2.1 hn).1, (h.2.1 hn).2.1⟩, fun hn => (h.2.2 hn).2⟩

theorem ne_none_of_eq_some {o : Option Err} {e : Err} (h : o = some e) : o ≠ none := by
  rw [h]; simp

theorem readB_res (c : CR) (want : Nat) (h : ¬ c.ov.size ≥ want) :
    ResR want (readB c want) ∧ ((readB c want).2.2 = some .eof → c.st = .flushing ∧ c.ov = #[]) := by
  have hlt : c.ov.size ≤ want := by omega
  obtain ⟨st, cfg, src, cks, ov, opz⟩ := c
  simp only at hlt
  cases st with
  | initial =>
    have ho := ovWrite_size want ov #[] (hdrArr cfg) hlt
    have hl := loop_res want (blockSizeIndex cfg.flags)
      (src.data.size / (max (poolSize (blockSizeIndex (initFlags cfg.flags))) 1) + 3)
      { st := .reading, cfg := cfgInit cfg, src := src, cks := XXH.reset cks,
        ov := (ovWrite want ov #[] (hdrArr cfg)).2, ovPosNonZero := false } _ ho.1
    refine ⟨hl.toR, fun he => ?_⟩
    exact absurd he (hl.2.1 (ne_none_of_eq_some he)).2.2
  | done =>
    have hl := failF_ok want 0 { st := .done, cfg := cfg, src := src, cks := cks, ov := #[], ovPosNonZero := false }
      .readerDone (by decide)
    refine ⟨hl.toR, fun he => ?_⟩
    exact absurd he (hl.2.1 (ne_none_of_eq_some he)).2.2
  | flushing =>
    simp only [readB]
    split
    · rename_i hp
      refine ⟨⟨hlt, fun hh => absurd rfl hh, fun _ _ => hp⟩, fun he => ?_⟩
      simp at he
    · rename_i hp
      refine ⟨⟨Nat.zero_le _, fun _ => by simp, fun hh => ?_⟩, fun _ => ⟨trivial, ?_⟩⟩
      · simp at hh
      · exact Array.eq_empty_of_size_eq_zero (by omega)
  | reading =>
    have hl := loop_res want (blockSizeIndex cfg.flags)
      (src.data.size / (max (poolSize (blockSizeIndex cfg.flags)) 1) + 3)
      { st := .reading, cfg := cfg, src := src, cks := cks, ov := #[], ovPosNonZero := false } ov hlt
    refine ⟨hl.toR, fun he => ?_⟩
    exact absurd he (hl.2.1 (ne_none_of_eq_some he)).2.2

theorem read_res (c : CR) (want : Nat) :
    ResR want (read c want) ∧ ((read c want).2.2 = some .eof → c.st = .flushing ∧ c.ov = #[]) := by
  rw [read_eq]
  split
  · rename_i h
    refine ⟨⟨?_, fun hh => absurd rfl hh, fun _ hw => ?_⟩, fun he => ?_⟩
    · simp only [Array.size_extract]; omega
    · simp only [Array.size_extract]; omega
    · simp at he
  · rename_i h
    exact readB_res c want h

theorem read_le (c : CR) (want : Nat) : (read c want).2.1.size ≤ want := (read_res c want).1.1

theorem read_progress (c : CR) (want : Nat) (hw : 0 < want) :
    0 < (read c want).2.1.size ∨ (read c want).2.2 ≠ none := by
  cases he : (read c want).2.2 with
  | none => exact Or.inl ((read_res c want).1.2.2 he hw)
  | some e => exact Or.inr (by simp)

theorem read_err (c : CR) (want : Nat) (h : (read c want).2.2 ≠ none) :
    (read c want).2.1 = #[] ∧ (read c want).1.st = .done := (read_res c want).1.2.1 h

theorem read_eof (c : CR) (want : Nat) (h : (read c want).2.2 = some .eof) :
    c.st = .flushing ∧ c.ov = #[] := (read_res c want).2 h

/-! ## sessions -/

/-- read with the given buffer sizes until an error (io.EOF included) is returned or the sizes run out:
the per-call results `(want, bytes, error)` in order and the final state -/
def session (c : CR) : List Nat → List (Nat × Array UInt8 × Option Err) × CR
  | [] => ([], c)
  | n :: ns =>
    match (read c n).2.2 with
    | some e => ([(n, (read c n).2.1, some e)], (read c n).1)
    | none => ((n, (read c n).2.1, none) :: (session (read c n).1 ns).1, (session (read c n).1 ns).2)

/-- all bytes returned by a session -/
def output (rs : List (Nat × Array UInt8 × Option Err)) : Array UInt8 := rs.foldl (fun a r => a ++ r.2.1) #[]

theorem session_nil (c : CR) : session c [] = ([], c) := rfl

theorem session_cons_none (c : CR) (n : Nat) (ns : List Nat) (h : (read c n).2.2 = none) :
    session c (n :: ns) =
      ((n, (read c n).2.1, none) :: (session (read c n).1 ns).1, (session (read c n).1 ns).2) := by
  simp only [session, h]

theorem session_cons_some (c : CR) (n : Nat) (ns : List Nat) (e : Err) (h : (read c n).2.2 = some e) :
    session c (n :: ns) = ([(n, (read c n).2.1, some e)], (read c n).1) := by
  simp only [session, h]

theorem foldl_out (rs : List (Nat × Array UInt8 × Option Err)) : ∀ a : Array UInt8,
    rs.foldl (fun a r => a ++ r.2.1) a = a ++ rs.foldl (fun a r => a ++ r.2.1) #[] := by
  induction rs with
  | nil => intro a; simp
  | cons r rs ih =>
    intro a
    simp only [List.foldl_cons, Array.empty_append]
    rw [ih (a ++ r.2.1), ih r.2.1, Array.append_assoc]

theorem output_cons (r : Nat × Array UInt8 × Option Err) (rs : List (Nat × Array UInt8 × Option Err)) :
    output (r :: rs) = r.2.1 ++ output rs := by
  simp only [output, List.foldl_cons, Array.empty_append]
  exact foldl_out rs r.2.1

theorem output_nil : output [] = #[] := rfl

/-- every call but the last one of a session returns no error -/
theorem session_init_none (sizes : List Nat) : ∀ (c : CR), ∀ r ∈ (session c sizes).1.dropLast, r.2.2 = none := by
  induction sizes with
  | nil => intro c r hr; simp [session] at hr
  | cons n ns ih =>
    intro c r hr
    cases he : (read c n).2.2 with
    | some e => rw [session_cons_some c n ns e he] at hr; simp at hr
    | none =>
      rw [session_cons_none c n ns he] at hr
      simp only at hr
      cases hs : (session (read c n).1 ns).1 with
      | nil => rw [hs] at hr; simp at hr
      | cons r' rs' =>
        rw [hs, List.dropLast_cons_cons] at hr
        rcases List.mem_cons.1 hr with h | h
        · rw [h]
        · exact ih _ r (by rw [hs]; exact h)

/-- every entry records the result of a `read` with that size: at most `want` bytes -/
theorem session_le (sizes : List Nat) : ∀ (c : CR), ∀ r ∈ (session c sizes).1, r.2.1.size ≤ r.1 := by
  induction sizes with
  | nil => intro c r hr; simp [session] at hr
  | cons n ns ih =>
    intro c r hr
    cases he : (read c n).2.2 with
    | some e =>
      rw [session_cons_some c n ns e he] at hr
      simp only [List.mem_singleton] at hr
      rw [hr]; exact read_le c n
    | none =>
      rw [session_cons_none c n ns he] at hr
      rcases List.mem_cons.1 hr with h | h
      · rw [h]; exact read_le c n
      · exact ih _ r h

end Lz4V.Proofs.CReader
