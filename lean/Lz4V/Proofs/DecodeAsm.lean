import Lz4V.Model.DecodeAsm
import Lz4V.Proofs.DecodeGo
/-!
# Proofs.DecodeAsm — the amd64 assembly block decoder (model) is memory safe and refines the
block-format specification

Structure:
* Part 1: memory (`ld8`/`st8`/`ldN`/`stN`/`cpy`/`copyMatchLoop`) over the fixed layout of a `Mem`,
  expressed with `Go.blit` / `Go.copyFwd` on the destination array;
* Part 2: the simulation relation `Sim` and one lemma per assembly label, bottom-up;
* Part 3: the `loop` iteration and the top-level theorems.
-/
namespace Lz4V.Proofs.DecodeAsm
open Lz4V.Go Lz4V.Spec.Block Lz4V.Model.DecodeAsm Lz4V.Proofs.Slice Lz4V.Proofs.BlockSpec
open Lz4V.Model.DecodeGo (lenLoop)
open Lz4V.Proofs.DecodeGo (H H_size H_get H_zero H_extract H_copyMatch H_lits drop_cons drop_nil fieldM
  readField_spec fieldM_bounds specMatch_idx decodeAux_lits lits_err decodeAux_field_none lenLoop_bounds)

/-! ## Part 1: memory -/

/-- the layout guaranteed by Go (same fields as `Props.C03asm.Layout`) -/
structure Lay (m : Mem) : Prop where
  dstLen_le : m.dstLen ≤ m.dst.size
  dst_base : 4096 ≤ m.dstBase
  src_base : 4096 ≤ m.srcBase
  dict_base : m.dict.size = 0 ∨ 4096 ≤ m.dictBase
  dst_end : m.dstBase + m.dst.size + 4096 < 2 ^ 63
  src_end : m.srcBase + m.src.size + 4096 < 2 ^ 63
  dict_end : m.dictBase + m.dict.size + 4096 < 2 ^ 63
  disj_ds : m.dstBase + m.dst.size ≤ m.srcBase ∨ m.srcBase + m.src.size ≤ m.dstBase
  disj_dd : m.dict.size = 0 ∨ m.dstBase + m.dst.size ≤ m.dictBase ∨ m.dictBase + m.dict.size ≤ m.dstBase
  disj_sd : m.dict.size = 0 ∨ m.srcBase + m.src.size ≤ m.dictBase ∨ m.dictBase + m.dict.size ≤ m.srcBase

/-- the memory `m` with destination contents `d` -/
def M (m : Mem) (d : Array UInt8) : Mem := { m with dst := d }

theorem M_self (m : Mem) : M m m.dst = m := rfl
theorem M_M (m : Mem) (d d' : Array UInt8) : M (M m d) d' = M m d' := rfl

theorem W_eq : W = 18446744073709551616 := rfl
theorem Whalf : W / 2 = 9223372036854775808 := by decide

theorem toUInt8_toNat (b : UInt8) : b.toNat.toUInt8 = b := by
  simp

theorem ld8_src (m : Mem) (d : Array UInt8) (s : Nat) (h : s < m.src.size) :
    ld8 (M m d) (m.srcBase + s) = .ok (m.src[s]!).toNat := by
  unfold ld8
  simp only [M]
  have : m.srcBase ≤ m.srcBase + s ∧ m.srcBase + s < m.srcBase + m.src.size := by omega
  simp only [this, and_self, if_true, Nat.add_sub_cancel_left]
  rfl

theorem ld8_dst (m : Mem) (L : Lay m) (d : Array UInt8) (i : Nat) (h : i < m.dstLen) :
    ld8 (M m d) (m.dstBase + i) = .ok (d[i]!).toNat := by
  unfold ld8
  simp only [M]
  have h0 := L.dstLen_le
  have h1 : ¬ (m.srcBase ≤ m.dstBase + i ∧ m.dstBase + i < m.srcBase + m.src.size) := by
    have := L.disj_ds; omega
  have h2 : m.dstBase ≤ m.dstBase + i ∧ m.dstBase + i < m.dstBase + m.dstLen := by omega
  simp only [h1, h2, and_self, if_true, if_false, Nat.add_sub_cancel_left]
  rfl

theorem ld8_dict (m : Mem) (L : Lay m) (d : Array UInt8) (i : Nat) (h : i < m.dict.size) :
    ld8 (M m d) (m.dictBase + i) = .ok (m.dict[i]!).toNat := by
  unfold ld8
  simp only [M]
  have h0 := L.dstLen_le
  have h1 : ¬ (m.srcBase ≤ m.dictBase + i ∧ m.dictBase + i < m.srcBase + m.src.size) := by
    have := L.disj_sd; omega
  have h2 : ¬ (m.dstBase ≤ m.dictBase + i ∧ m.dictBase + i < m.dstBase + m.dstLen) := by
    have := L.disj_dd; omega
  have h3 : m.dictBase ≤ m.dictBase + i ∧ m.dictBase + i < m.dictBase + m.dict.size := by omega
  simp only [h1, h2, h3, and_self, if_true, if_false, Nat.add_sub_cancel_left]
  rfl

theorem st8_dst (m : Mem) (d : Array UInt8) (i v : Nat) (h : i < m.dstLen) :
    st8 (M m d) (m.dstBase + i) v = .ok (M m (d.set! i v.toUInt8)) := by
  unfold st8
  simp only [M]
  have h2 : m.dstBase ≤ m.dstBase + i ∧ m.dstBase + i < m.dstBase + m.dstLen := by omega
  simp only [h2, and_self, if_true, Nat.add_sub_cancel_left]
  rfl

/-- the bytes `a[s, s+n)` as register contents -/
def rd (a : Array UInt8) (s : Nat) : Nat → List Nat
  | 0 => []
  | n+1 => a[s]!.toNat :: rd a (s+1) n

theorem rd_length (a : Array UInt8) (s n : Nat) : (rd a s n).length = n := by
  induction n generalizing s with
  | zero => rfl
  | succ n ih => simp [rd, ih]

theorem bind_ok {α β : Type} (a : α) (f : α → X β) : (Except.ok a >>= f) = f a := rfl
theorem bind_err {α β : Type} (e : String) (f : α → X β) : ((Except.error e : X α) >>= f) = .error e := rfl
theorem pure_ok {α : Type} (a : α) : (pure a : X α) = .ok a := rfl

/-- a load of `n` bytes from a region where `ld8` reads the array `A` -/
theorem ldN_of (mm : Mem) (A : Array UInt8) (base : Nat) (s n : Nat)
    (h : ∀ k, s ≤ k → k < s + n → ld8 mm (base + k) = .ok (A[k]!).toNat) :
    ldN mm (base + s) n = .ok (rd A s n) := by
  induction n generalizing s with
  | zero => rfl
  | succ n ih =>
    simp only [ldN, rd]
    rw [h s (by omega) (by omega), bind_ok, Nat.add_assoc, ih (s + 1) (fun k h1 h2 => h k (by omega) (by omega)),
      bind_ok]
    rfl

theorem ldN_src (m : Mem) (d : Array UInt8) (s n : Nat) (h : s + n ≤ m.src.size) :
    ldN (M m d) (m.srcBase + s) n = .ok (rd m.src s n) :=
  ldN_of _ _ _ _ _ (fun k _ h2 => ld8_src m d k (by omega))

theorem ldN_dst (m : Mem) (L : Lay m) (d : Array UInt8) (s n : Nat) (h : s + n ≤ m.dstLen) :
    ldN (M m d) (m.dstBase + s) n = .ok (rd d s n) :=
  ldN_of _ _ _ _ _ (fun k _ h2 => ld8_dst m L d k (by omega))

theorem ldN_dict (m : Mem) (L : Lay m) (d : Array UInt8) (s n : Nat) (h : s + n ≤ m.dict.size) :
    ldN (M m d) (m.dictBase + s) n = .ok (rd m.dict s n) :=
  ldN_of _ _ _ _ _ (fun k _ h2 => ld8_dict m L d k (by omega))

/-- storing register contents -/
def wr (d : Array UInt8) (t : Nat) : List Nat → Array UInt8
  | [] => d
  | v :: vs => wr (d.set! t v.toUInt8) (t+1) vs

theorem stN_dst (m : Mem) (d : Array UInt8) (t : Nat) (vs : List Nat) (h : t + vs.length ≤ m.dstLen) :
    stN (M m d) (m.dstBase + t) vs = .ok (M m (wr d t vs)) := by
  induction vs generalizing d t with
  | nil => rfl
  | cons v vs ih =>
    simp only [List.length_cons] at h
    simp only [stN, wr]
    rw [st8_dst m d t v (by omega), bind_ok, Nat.add_assoc, ih _ _ (by omega)]

theorem wr_rd (d X : Array UInt8) (t s n : Nat) : wr d t (rd X s n) = blit d t X s n := by
  induction n generalizing d t s with
  | zero => rfl
  | succ n ih => simp only [rd, wr, blit, toUInt8_toNat, ih]

/-- a register-width copy / memmove into the destination, from a region where loads read `X` -/
theorem cpy_of (m : Mem) (d X : Array UInt8) (t fr s n : Nat) (ht : t + n ≤ m.dstLen)
    (hl : ldN (M m d) fr n = .ok (rd X s n)) :
    cpy (M m d) (m.dstBase + t) fr n = .ok (M m (blit d t X s n)) := by
  unfold cpy
  rw [hl, bind_ok, stN_dst m d t _ (by rw [rd_length]; exact ht), wr_rd]

theorem cpy_src (m : Mem) (d : Array UInt8) (t s n : Nat) (ht : t + n ≤ m.dstLen) (hs : s + n ≤ m.src.size) :
    cpy (M m d) (m.dstBase + t) (m.srcBase + s) n = .ok (M m (blit d t m.src s n)) :=
  cpy_of m d _ t _ s n ht (ldN_src m d s n hs)

theorem cpy_dst (m : Mem) (L : Lay m) (d : Array UInt8) (t s n : Nat) (ht : t + n ≤ m.dstLen)
    (hs : s + n ≤ m.dstLen) :
    cpy (M m d) (m.dstBase + t) (m.dstBase + s) n = .ok (M m (blit d t d s n)) :=
  cpy_of m d _ t _ s n ht (ldN_dst m L d s n hs)

theorem cpy_dict (m : Mem) (L : Lay m) (d : Array UInt8) (t s n : Nat) (ht : t + n ≤ m.dstLen)
    (hs : s + n ≤ m.dict.size) :
    cpy (M m d) (m.dstBase + t) (m.dictBase + s) n = .ok (M m (blit d t m.dict s n)) :=
  cpy_of m d _ t _ s n ht (ldN_dict m L d s n hs)

/-- a zero-length memmove touches nothing, whatever the source address -/
theorem cpy_zero (mm : Mem) (to fr : Nat) : cpy mm to fr 0 = .ok mm := rfl

/-- the byte loop -/
theorem copyMatchLoop_dst (m : Mem) (L : Lay m) (d : Array UInt8) (t s n : Nat) (hs : s ≤ t)
    (ht : t + n ≤ m.dstLen) :
    copyMatchLoop (M m d) (m.dstBase + t) (m.dstBase + s) n =
      .ok (M m (copyFwd d t s n), m.dstBase + (t + n)) := by
  induction n generalizing d t s with
  | zero => rfl
  | succ n ih =>
    simp only [copyMatchLoop, copyFwd]
    rw [ld8_dst m L d s (by omega), bind_ok, st8_dst m d t _ (by omega), bind_ok, toUInt8_toNat,
      Nat.add_assoc, Nat.add_assoc, ih _ _ _ (by omega) (by omega)]
    have : t + 1 + n = t + (n + 1) := by omega
    rw [this]

theorem copyFwd_size (a : Array UInt8) (t s n : Nat) : (copyFwd a t s n).size = a.size := by
  induction n generalizing a t s with
  | zero => rfl
  | succ n ih => simp [copyFwd, ih]

theorem copyFwd_get_out (a : Array UInt8) (t s n j : Nat) (h : j < t ∨ t + n ≤ j) :
    (copyFwd a t s n)[j]! = a[j]! := by
  induction n generalizing a t s with
  | zero => rfl
  | succ n ih =>
    simp only [copyFwd]
    rw [ih _ _ _ (by omega), get!_set!]
    have : ¬ (t = j ∧ j < a.size) := by omega
    simp [this]

theorem copyFwd_get_in (a : Array UInt8) (t s n j : Nat) (hs : s < t) (h1 : t ≤ j) (h2 : j < t + n)
    (h3 : j < a.size) :
    (copyFwd a t s n)[j]! = (copyFwd a t s n)[j - (t - s)]! := by
  induction n generalizing a t s with
  | zero => omega
  | succ n ih =>
    simp only [copyFwd]
    by_cases hc : j = t
    · subst hc
      rw [copyFwd_get_out _ _ _ _ _ (by omega), copyFwd_get_out _ _ _ _ _ (by omega), get!_set!, get!_set!]
      have e : j - (j - s) = s := by omega
      simp [h3, e]
    · have := ih (a.set! t a[s]!) (t + 1) (s + 1) (by omega) (by omega) (by omega) (by simpa using h3)
      have e : t + 1 - (s + 1) = t - s := by omega
      rw [e] at this
      exact this

/-! ### frames: what a run may change -/

/-- `d'` differs from `d` only below `L` -/
def Fr (L : Nat) (d d' : Array UInt8) : Prop := d'.size = d.size ∧ ∀ i, L ≤ i → d'[i]! = d[i]!

theorem Fr.refl (L : Nat) (d : Array UInt8) : Fr L d d := ⟨rfl, fun _ _ => rfl⟩
theorem Fr.trans {L : Nat} {a b c : Array UInt8} (h1 : Fr L a b) (h2 : Fr L b c) : Fr L a c :=
  ⟨h2.1.trans h1.1, fun i hi => (h2.2 i hi).trans (h1.2 i hi)⟩

theorem Fr_blit (L : Nat) (d X : Array UInt8) (t s n : Nat) (h : t + n ≤ L) : Fr L d (blit d t X s n) := by
  refine ⟨blit_size _ _ _ _ _, fun i hi => ?_⟩
  rw [blit_get]
  have : ¬ (t ≤ i ∧ i < t + n ∧ i < d.size) := by omega
  simp [this]

theorem Fr_copyFwd (L : Nat) (d : Array UInt8) (t s n : Nat) (h : t + n ≤ L) : Fr L d (copyFwd d t s n) :=
  ⟨copyFwd_size _ _ _ _, fun i hi => copyFwd_get_out _ _ _ _ _ (by omega)⟩

/-! ## Part 2: registers, the simulation relation, and the labels -/

/-- register invariant: the fixed registers, and `di`/`si` as offsets `t`/`s` into dst/src -/
structure RI (m : Mem) (r : R) (s t : Nat) : Prop where
  di : r.di = m.dstBase + t
  si : r.si = m.srcBase + s
  r8 : r.r8 = m.dstBase + m.dstLen
  r9 : r.r9 = m.srcBase + m.src.size
  r11 : r.r11 = m.dstBase
  r12 : r.r12 = m.dstBase + m.dstLen - 32
  r13 : r.r13 = m.srcBase + m.src.size - 16
  r14 : r.r14 = m.dictBase
  r15 : r.r15 = m.dict.size

theorem RI.setSi {m : Mem} {r : R} {s t : Nat} (hr : RI m r s t) (y s' : Nat)
    (hy : y = m.srcBase + s') : RI m { r with si := y } s' t :=
  ⟨hr.di, hy, hr.r8, hr.r9, hr.r11, hr.r12, hr.r13, hr.r14, hr.r15⟩

/-- What the (partial) execution `res` of one sequence, started with destination contents `d`, must
satisfy relative to the matching piece `spec` of the specification.  No fault; an error code means
the specification rejects (this single clause is guarded by `dict.size = 0 ∨ 65536 ≤ dstBase`, see
`iter_sim`: below 64 KiB the `JC err_corrupt` of shortcut stage 1 pre-empts the dictionary);
a count means the specification's output is `dst[0:count)`; a continuation at `loop` means the
specification continues at `src[s':]` with history `dict ++ dst[0:t')`. -/
def Sim (m : Mem) (d : Array UInt8) (s0 : Nat) (res : X Step) (spec : Nat → Option (Array UInt8)) : Prop :=
  match res with
  | .error _ => False
  | .ok (.done ret mm) => ∃ d', mm = M m d' ∧ Fr m.dstLen d d' ∧
      ((ret < 0 ∧ ((m.dict.size = 0 ∨ 65536 ≤ m.dstBase) → ∀ fuel, spec fuel = none)) ∨
       (∃ t' : Nat, ret = (t' : Int) ∧ t' ≤ m.dstLen ∧ ∀ fuel, spec fuel = some (H m.dict d' t')))
  | .ok (.cont mm r) => ∃ d' s' t', mm = M m d' ∧ RI m r s' t' ∧ Fr m.dstLen d d' ∧ s0 < s' ∧
      s' < m.src.size ∧ t' ≤ m.dstLen ∧
      ∀ fuel, spec fuel = decodeAux fuel (m.src.toList.drop s') (H m.dict d' t') m.dict.size m.dstLen

theorem Sim_err (m : Mem) (d d' : Array UInt8) (s0 : Nat) (ret : Int) (spec : Nat → Option (Array UInt8))
    (hret : ret < 0) (hf : Fr m.dstLen d d') (h : ∀ fuel, spec fuel = none) :
    Sim m d s0 (.ok (.done ret (M m d'))) spec :=
  ⟨d', rfl, hf, Or.inl ⟨hret, fun _ => h⟩⟩

theorem Sim.frame {m : Mem} {d0 d : Array UInt8} {s0 : Nat} {res : X Step}
    {spec : Nat → Option (Array UInt8)} (hf : Fr m.dstLen d0 d) (h : Sim m d s0 res spec) :
    Sim m d0 s0 res spec := by
  cases res with
  | error e => exact h
  | ok st =>
    cases st with
    | done ret mm =>
      obtain ⟨d', h1, h2, h3⟩ := h
      exact ⟨d', h1, hf.trans h2, h3⟩
    | cont mm r =>
      obtain ⟨d', s', t', h1, h2, h3, h4⟩ := h
      exact ⟨d', s', t', h1, h2, hf.trans h3, h4⟩

theorem Sim.congr {m : Mem} {d : Array UInt8} {s0 : Nat} {res : X Step}
    {spec spec' : Nat → Option (Array UInt8)} (h : Sim m d s0 res spec) (he : ∀ fuel, spec' fuel = spec fuel) :
    Sim m d s0 res spec' := by
  have : spec' = spec := funext he
  rw [this]; exact h

theorem errs : errCorrupt < 0 ∧ errShortBuf < 0 ∧ errShortDict < 0 := by decide

/-- the continuation of the specification after a complete sequence ending at `src[s]` -/
def specTail (m : Mem) (s : Nat) (h : Array UInt8) (fuel : Nat) : Option (Array UInt8) :=
  if s = m.src.size then some h else decodeAux fuel (m.src.toList.drop s) h m.dict.size m.dstLen

theorem loopcheck_sim (m : Mem) (d d' : Array UInt8) (r : R) (s0 s' t' : Nat) (hr : RI m r s' t')
    (hf : Fr m.dstLen d d') (hs0 : s0 < s') (hs : s' ≤ m.src.size) (ht : t' ≤ m.dstLen) :
    Sim m d s0 (.ok (loopcheck (M m d') r 0)) (specTail m s' (H m.dict d' t')) := by
  unfold loopcheck
  rw [hr.si, hr.r9]
  by_cases hc : s' < m.src.size
  · have : m.srcBase + s' < m.srcBase + m.src.size := by omega
    simp only [this, if_true]
    refine ⟨d', s', t', rfl, hr, hf, hs0, hc, ht, fun fuel => ?_⟩
    have : ¬ s' = m.src.size := by omega
    simp only [specTail, this, if_false]
  · have : ¬ m.srcBase + s' < m.srcBase + m.src.size := by omega
    simp only [this, if_false]
    unfold endL
    rw [hr.di, hr.r11]
    simp only [bne_self_eq_false, Bool.false_eq_true, if_false, Nat.add_sub_cancel_left]
    refine ⟨d', rfl, hf, Or.inr ⟨t', rfl, ht, fun fuel => ?_⟩⟩
    have : s' = m.src.size := by omega
    simp only [specTail, this, if_true]

/-- the specification of a match `(dx, n)` written at `dst[t]`, followed by the rest of the block -/
def specCopy (m : Mem) (d : Array UInt8) (s t dx n : Nat) (fuel : Nat) : Option (Array UInt8) :=
  if dx > m.dict.size + t then none else
  if t + n > m.dstLen then none else
  specTail m s (copyMatch (H m.dict d t) dx n) fuel

theorem match_finish (m : Mem) (d d' : Array UInt8) (r : R) (s0 s t dx n : Nat) (hr : RI m r s (t + n))
    (hf : Fr m.dstLen d d') (hs0 : s0 < s) (hs : s ≤ m.src.size) (hdx : dx ≤ m.dict.size + t)
    (ht : t + n ≤ m.dstLen) (hH : H m.dict d' (t + n) = copyMatch (H m.dict d t) dx n) :
    Sim m d s0 (.ok (loopcheck (M m d') r 0)) (specCopy m d s t dx n) := by
  apply (loopcheck_sim m d d' r s0 s (t + n) hr hf hs0 hs ht).congr
  intro fuel
  have c1 : ¬ dx > m.dict.size + t := by omega
  have c2 : ¬ t + n > m.dstLen := by omega
  simp only [specCopy, c1, c2, if_false, hH]

theorem specCopy_none (m : Mem) (d : Array UInt8) (s t dx n : Nat)
    (h : dx > m.dict.size + t ∨ t + n > m.dstLen) (fuel : Nat) : specCopy m d s t dx n fuel = none := by
  unfold specCopy
  by_cases c1 : dx > m.dict.size + t
  · simp [c1]
  · have c2 : t + n > m.dstLen := by omega
    simp [c1, c2]

theorem sub64_ge (a b : Nat) (h : b ≤ a) : sub64 a b = (a - b, false) := by
  unfold sub64; simp [h]
theorem sub64_lt (a b : Nat) (h : a < b) : sub64 a b = (a + W - b, true) := by
  unfold sub64
  have : ¬ a ≥ b := by omega
  simp [this]
theorem add64_lt (a b : Nat) (h : a + b < W) : add64 a b = (a + b, false) := by
  unfold add64; simp [h]
theorem add64_ge (a b : Nat) (h : W ≤ a + b) : add64 a b = (a + b - W, true) := by
  unfold add64
  have : ¬ a + b < W := by omega
  simp [this]

theorem memmoveMatch_eq (m : Mem) (d X : Array UInt8) (r : R) (s t n fr a : Nat) (hr : RI m r s t)
    (ht : t + n ≤ m.dstLen) (hl : ldN (M m d) fr n = .ok (rd X a n)) :
    memmoveMatch (M m d) r n fr = .ok (loopcheck (M m (blit d t X a n)) { r with di := r.di + n } 0) := by
  unfold memmoveMatch memmove
  rw [hr.di, cpy_of m d X t fr a n ht hl, bind_ok]
  rfl

theorem RI_mk (m : Mem) (x y s t : Nat) (hx : x = m.dstBase + t) (hy : y = m.srcBase + s) :
    RI m { di := x, si := y, r8 := m.dstBase + m.dstLen, r9 := m.srcBase + m.src.size, r11 := m.dstBase,
           r12 := m.dstBase + m.dstLen - 32, r13 := m.srcBase + m.src.size - 16, r14 := m.dictBase,
           r15 := m.dict.size } s t :=
  ⟨hx, hy, rfl, rfl, rfl, rfl, rfl, rfl, rfl⟩

/-- replace `r` by the explicit register file given by `hr : RI m r s t` -/
macro "ri_cases " r:ident hr:ident : tactic => `(tactic| (
  obtain ⟨rdi, rsi, r8, r9, r11, r12, r13, r14, r15⟩ := $r
  obtain ⟨h1, h2, h3, h4, h5, h6, h7, h8, h9⟩ := $hr
  simp only at h1 h2 h3 h4 h5 h6 h7 h8 h9
  subst h1 h2 h3 h4 h5 h6 h7 h8 h9))

theorem copyMatchFromDict_sim (m : Mem) (L : Lay m) (d : Array UInt8) (r : R) (s0 s t cx dx bx : Nat) (c : Bool)
    (hr : RI m r s t) (hd : d.size = m.dst.size) (hs0 : s0 < s) (hs : s ≤ m.src.size)
    (hdx1 : 1 ≤ dx) (hdx2 : dx ≤ 65535) (htdx : t ≤ dx) (hcx : 1 ≤ cx) (ht : t + cx ≤ m.dstLen)
    (hax : sub64 m.dstBase bx = (dx - t, c)) :
    Sim m d s0 (copyMatchFromDict (M m d) r cx bx) (specCopy m d s t dx cx) := by
  have hL1 := L.dstLen_le
  have hL2 := L.dst_end
  have hL3 := L.dict_end
  ri_cases r hr
  unfold copyMatchFromDict
  simp only [hax]
  by_cases hsd : m.dict.size < dx - t
  · -- err_short_dict
    rw [sub64_lt _ _ hsd]
    have : m.dict.size + W - (dx - t) ≥ W / 2 := by rw [Whalf, W_eq]; omega
    simp only [this, if_true]
    exact Sim_err m d d s0 _ _ errs.2.2 (Fr.refl _ _) (specCopy_none m d s t dx cx (Or.inl (by omega)))
  · rw [sub64_ge _ _ (by omega)]
    have : ¬ m.dict.size - (dx - t) ≥ W / 2 := by rw [Whalf]; omega
    simp only [this, if_false]
    rw [add64_lt _ _ (by rw [W_eq]; omega)]
    simp only []
    have c1 : ¬ cx ≥ W / 2 := by rw [Whalf]; omega
    have c2 : ¬ dx - t ≥ W / 2 := by rw [Whalf]; omega
    simp only [c1, c2, if_false]
    have hpre : ∀ X a n j, j < t → (blit d t X a n)[j]! = d[j]! := by
      intro X a n j hj
      rw [blit_get]
      have : ¬ (t ≤ j ∧ j < t + n ∧ j < d.size) := by omega
      simp [this]
    have ebx : m.dict.size - (dx - t) + m.dictBase = m.dictBase + (m.dict.size - (dx - t)) := by omega
    rw [ebx]
    by_cases hlt : cx < dx - t
    · have : (cx : Int) < ((dx - t : Nat) : Int) := by omega
      simp only [this, if_true]
      rw [memmoveMatch_eq m d m.dict _ s t cx _ _ (RI_mk m _ _ s t rfl rfl) ht
        (ldN_dict m L d _ _ (by omega))]
      simp only []
      apply match_finish m d _ _ s0 s t dx cx (RI_mk m _ _ _ _ (by omega) rfl) (Fr_blit _ _ _ _ _ _ ht) hs0 hs
        (by omega) ht
      apply H_copyMatch _ _ _ _ _ _ hdx1 (by omega) (blit_size _ _ _ _ _) (by omega) (hpre _ _ _)
      intro j hj1 hj2
      rw [blit_get]
      have a1 : t ≤ j ∧ j < t + cx ∧ j < d.size := by omega
      have a2 : m.dict.size + j - dx < m.dict.size := by omega
      have e : m.dict.size - (dx - t) + (j - t) = m.dict.size + j - dx := by omega
      simp only [a1, a2, and_self, if_true, e]
    · have : ¬ (cx : Int) < ((dx - t : Nat) : Int) := by omega
      simp only [this, if_false]
      unfold memmove
      rw [cpy_dict m L d t _ (dx - t) (by omega) (by omega), bind_ok]
      have edi : m.dstBase + t + (dx - t) = m.dstBase + dx := by omega
      rw [edi]
      have hd1get : ∀ j, (blit d t m.dict (m.dict.size - (dx - t)) (dx - t))[j]! =
          if t ≤ j ∧ j < dx then m.dict[m.dict.size + j - dx]! else d[j]! := by
        intro j
        rw [blit_get]
        by_cases hj : t ≤ j ∧ j < dx
        · have a1 : t ≤ j ∧ j < t + (dx - t) ∧ j < d.size := by omega
          have e : m.dict.size - (dx - t) + (j - t) = m.dict.size + j - dx := by omega
          simp only [a1, hj, and_self, if_true, e]
        · have a1 : ¬ (t ≤ j ∧ j < t + (dx - t) ∧ j < d.size) := by omega
          simp only [a1, hj, if_false]
      have hf1 : Fr m.dstLen d (blit d t m.dict (m.dict.size - (dx - t)) (dx - t)) :=
        Fr_blit _ _ _ _ _ _ (by omega)
      generalize blit d t m.dict (m.dict.size - (dx - t)) (dx - t) = d1 at hd1get hf1
      generalize hn : cx - (dx - t) = n
      have hd1s : d1.size = d.size := hf1.1
      by_cases hov : n + m.dstBase > m.dstBase + dx
      · simp only [hov, if_true]
        have hne : ¬ ((n == 0) = true) := by simp; omega
        simp only [hne]
        have hloop := copyMatchLoop_dst m L d1 dx 0 n (by omega) (by omega)
        rw [Nat.add_zero] at hloop
        rw [hloop, bind_ok]
        simp only []
        have etn : dx + n = t + cx := by omega
        rw [etn]
        apply match_finish m d _ _ s0 s t dx cx (RI_mk m _ _ _ _ rfl rfl)
          (hf1.trans (Fr_copyFwd _ _ _ _ _ (by omega))) hs0 hs (by omega) ht
        apply H_copyMatch _ _ _ _ _ _ hdx1 (by omega) (by rw [copyFwd_size, hd1s]) (by omega)
        · intro j hj
          rw [copyFwd_get_out _ _ _ _ _ (by omega), hd1get]
          have : ¬ (t ≤ j ∧ j < dx) := by omega
          simp only [this, if_false]
        · intro j hj1 hj2
          by_cases hj : j < dx
          · rw [copyFwd_get_out _ _ _ _ _ (by omega), hd1get]
            have a1 : t ≤ j ∧ j < dx := by omega
            have a2 : m.dict.size + j - dx < m.dict.size := by omega
            simp only [a1, a2, and_self, if_true]
          · have a2 : ¬ m.dict.size + j - dx < m.dict.size := by omega
            simp only [a2, if_false]
            have := copyFwd_get_in d1 dx 0 n j (by omega) (by omega) (by omega) (by omega)
            rw [Nat.sub_zero] at this
            exact this
      · simp only [hov, if_false]
        have hmm := memmoveMatch_eq m d1 d1 _ s dx n m.dstBase 0 (RI_mk m _ _ s dx rfl rfl) (by omega)
          (by have := ldN_dst m L d1 0 n (by omega); rw [Nat.add_zero] at this; exact this)
        rw [hmm]
        simp only []
        have etn : dx + n = t + cx := by omega
        have e2 : m.dstBase + dx + n = m.dstBase + (t + cx) := by omega
        rw [e2]
        apply match_finish m d _ _ s0 s t dx cx (RI_mk m _ _ _ _ rfl rfl)
          (hf1.trans (Fr_blit _ _ _ _ _ _ (by omega))) hs0 hs (by omega) ht
        apply H_copyMatch _ _ _ _ _ _ hdx1 (by omega) (by rw [blit_size, hd1s]) (by omega)
        · intro j hj
          have a1 : ¬ (dx ≤ j ∧ j < dx + n ∧ j < d1.size) := by omega
          have : ¬ (t ≤ j ∧ j < dx) := by omega
          rw [blit_get]
          simp only [a1, if_false]
          rw [hd1get]
          simp only [this, if_false]
        · intro j hj1 hj2
          by_cases hj : j < dx
          · have a0 : ¬ (dx ≤ j ∧ j < dx + n ∧ j < d1.size) := by omega
            have a1 : t ≤ j ∧ j < dx := by omega
            have a2 : m.dict.size + j - dx < m.dict.size := by omega
            rw [blit_get]
            simp only [a0, if_false]
            rw [hd1get]
            simp only [a1, a2, and_self, if_true]
          · have a2 : ¬ m.dict.size + j - dx < m.dict.size := by omega
            simp only [a2, if_false]
            rw [blit_get, blit_get]
            have a0 : dx ≤ j ∧ j < dx + n ∧ j < d1.size := by omega
            have a1 : ¬ (dx ≤ j - dx ∧ j - dx < dx + n ∧ j - dx < d1.size) := by omega
            simp only [a0, a1, and_self, if_true, if_false, Nat.zero_add]


theorem copyMatch_sim (m : Mem) (L : Lay m) (d : Array UInt8) (r : R) (s0 s t ml dx : Nat)
    (hr : RI m r s t) (hd : d.size = m.dst.size) (hs0 : s0 < s) (hs : s ≤ m.src.size) (ht0 : t ≤ m.dstLen)
    (hdx1 : 1 ≤ dx) (hdx2 : dx ≤ 65535) :
    Sim m d s0 (copyMatch (M m d) r ml dx) (specCopy m d s t dx (ml + 4)) := by
  have hL1 := L.dstLen_le
  have hL2 := L.dst_end
  have hL0 := L.dst_base
  ri_cases r hr
  unfold Model.DecodeAsm.copyMatch
  simp only []
  by_cases hfit' : ¬ t + (ml + 4) ≤ m.dstLen
  · have hnone := specCopy_none m d s t dx (ml + 4) (Or.inr (by omega))
    by_cases hc : m.dstBase + t + (ml + 4) < W
    · rw [add64_lt _ _ hc]
      have : m.dstBase + t + (ml + 4) > m.dstBase + m.dstLen := by omega
      simp only [Bool.false_eq_true, if_false, this, if_true]
      exact Sim_err m d d s0 _ _ errs.2.1 (Fr.refl _ _) hnone
    · rw [add64_ge _ _ (by omega)]
      simp only [if_true]
      exact Sim_err m d d s0 _ _ errs.2.1 (Fr.refl _ _) hnone
  have hfit : t + (ml + 4) ≤ m.dstLen := by omega
  rw [add64_lt _ _ (by rw [W_eq]; omega)]
  have : ¬ m.dstBase + t + (ml + 4) > m.dstBase + m.dstLen := by omega
  simp only [Bool.false_eq_true, if_false, this]
  by_cases hc : dx ≤ m.dstBase + t
  · rw [sub64_ge _ _ hc]
    simp only [Bool.false_eq_true, if_false]
    by_cases hb : m.dstBase + t - dx ≤ m.dstBase
    · simp only [hb, if_true]
      have hax : sub64 m.dstBase (m.dstBase + t - dx) = (dx - t, false) := by
        rw [sub64_ge _ _ hb]
        have e : m.dstBase - (m.dstBase + t - dx) = dx - t := by omega
        rw [e]
      exact copyMatchFromDict_sim m L d _ s0 s t (ml + 4) dx _ _ (RI_mk m _ _ s t rfl rfl) hd hs0 hs hdx1 hdx2
        (by omega) (by omega) hfit hax
    · simp only [hb, if_false]
      have ebx : m.dstBase + t - dx = m.dstBase + (t - dx) := by omega
      rw [ebx]
      have hdxt : dx < t := by omega
      generalize hcx : ml + 4 = cx at *
      by_cases hno : m.dstBase + t > m.dstBase + (t - dx) + cx
      · simp only [hno, if_true]
        have hHint : ∀ n, cx ≤ n → t + n ≤ m.dstLen →
            H m.dict (blit d t d (t - dx) n) (t + cx) = copyMatch (H m.dict d t) dx cx := by
          intro n hn1 hn2
          apply H_copyMatch _ _ _ _ _ _ hdx1 (by omega) (blit_size _ _ _ _ _) (by omega)
          · intro j hj
            rw [blit_get]
            have : ¬ (t ≤ j ∧ j < t + n ∧ j < d.size) := by omega
            simp only [this, if_false]
          · intro j hj1 hj2
            have a2 : ¬ m.dict.size + j - dx < m.dict.size := by omega
            simp only [a2, if_false]
            rw [blit_get, blit_get]
            have a0 : t ≤ j ∧ j < t + n ∧ j < d.size := by omega
            have a1 : ¬ (t ≤ j - dx ∧ j - dx < t + n ∧ j - dx < d.size) := by omega
            have e : t - dx + (j - t) = j - dx := by omega
            simp only [a0, a1, and_self, if_true, if_false, e]
        by_cases hw : cx > 16 ∨ m.dstBase + m.dstLen - (m.dstBase + t) < 16
        · simp only [hw, if_true]
          rw [memmoveMatch_eq m d d _ s t cx _ (t - dx) (RI_mk m _ _ s t rfl rfl) hfit
            (ldN_dst m L d _ _ (by omega))]
          simp only []
          exact match_finish m d _ _ s0 s t dx cx (RI_mk m _ _ _ _ (by omega) rfl) (Fr_blit _ _ _ _ _ _ hfit)
            hs0 hs (by omega) hfit (hHint cx (by omega) hfit)
        · simp only [hw, if_false]
          rw [cpy_dst m L d t (t - dx) 16 (by omega) (by omega), bind_ok, pure_ok]
          exact match_finish m d _ _ s0 s t dx cx (RI_mk m _ _ _ _ (by omega) rfl)
            (Fr_blit _ _ _ _ _ _ (by omega)) hs0 hs (by omega) hfit (hHint 16 (by omega) (by omega))
      · simp only [hno, if_false]
        rw [copyMatchLoop_dst m L d t (t - dx) cx (by omega) hfit, bind_ok, pure_ok]
        simp only []
        apply match_finish m d _ _ s0 s t dx cx (RI_mk m _ _ _ _ rfl rfl) (Fr_copyFwd _ _ _ _ _ hfit)
          hs0 hs (by omega) hfit
        apply H_copyMatch _ _ _ _ _ _ hdx1 (by omega) (copyFwd_size _ _ _ _) (by omega)
        · intro j hj
          exact copyFwd_get_out _ _ _ _ _ (by omega)
        · intro j hj1 hj2
          have a2 : ¬ m.dict.size + j - dx < m.dict.size := by omega
          simp only [a2, if_false]
          have := copyFwd_get_in d t (t - dx) cx j (by omega) hj1 hj2 (by omega)
          have e : t - (t - dx) = dx := by omega
          rw [e] at this
          exact this
  · rw [sub64_lt _ _ (by omega)]
    simp only [if_true]
    have hax : sub64 m.dstBase (m.dstBase + t + W - dx) = (dx - t, true) := by
      rw [sub64_lt _ _ (by rw [W_eq]; omega)]
      have e : m.dstBase + W - (m.dstBase + t + W - dx) = dx - t := by rw [W_eq]; omega
      rw [e]
    exact copyMatchFromDict_sim m L d _ s0 s t (ml + 4) dx _ _ (RI_mk m _ _ s t rfl rfl) hd hs0 hs hdx1 hdx2
      (by omega) (by omega) hfit hax


theorem matchLenLoop_eq (m : Mem) (d : Array UInt8) (dx : Nat) (fuel : Nat) :
    ∀ (r : R) (s t cx : Nat), RI m r s t → s ≤ m.src.size → m.src.size - s < fuel →
    matchLenLoop (M m d) r cx dx fuel =
      match lenLoop m.src s cx with
      | none => .ok (.done errShortBuf (M m d))
      | some (v, s') => Model.DecodeAsm.copyMatch (M m d) { r with si := m.srcBase + s' } v dx := by
  induction fuel with
  | zero => intro r s t cx hr hs hf; omega
  | succ fuel ih =>
    intro r s t cx hr hs hf
    ri_cases r hr
    rw [matchLenLoop, lenLoop]
    simp only []
    by_cases hc : s < m.src.size
    · have c1 : ¬ m.srcBase + s ≥ m.srcBase + m.src.size := by omega
      simp only [c1, if_false, hc, dite_true]
      rw [ld8_src m d s hc, bind_ok, getElem!_pos m.src s hc]
      by_cases hb : m.src[s].toNat = 255
      · simp only [hb]
        rw [ih _ (s + 1) t _ (RI_mk m _ _ _ _ rfl (by omega)) (by omega) (by omega)]
        rfl
      · have hb' : ¬ (m.src[s].toNat == 255) = true := by simp [hb]
        simp only [hb', hb, if_false]
        rfl
    · have c1 : m.srcBase + s ≥ m.srcBase + m.src.size := by omega
      simp only [c1, if_true, hc, dite_false]
      rfl

theorem M_src (m : Mem) (d : Array UInt8) : (M m d).src = m.src := rfl

theorem matchLenLoopPre_sim (m : Mem) (L : Lay m) (d : Array UInt8) (r : R) (s0 s t nib dx : Nat)
    (hr : RI m r s t) (hd : d.size = m.dst.size) (hs0 : s0 < s) (hs : s ≤ m.src.size) (ht : t ≤ m.dstLen)
    (hn : nib < 16) (hdx1 : 1 ≤ dx) (hdx2 : dx ≤ 65535) :
    Sim m d s0 (matchLenLoopPre (M m d) r nib dx) (fun fuel =>
      match fieldM m.src nib s with
      | none => none
      | some (ml, s') => specCopy m d s' t dx (ml + 4) fuel) := by
  unfold matchLenLoopPre fieldM
  have e : nib % 256 = nib := Nat.mod_eq_of_lt (by omega)
  rw [e]
  by_cases h15 : nib = 15
  · subst h15
    simp only [bne_self_eq_false, Bool.false_eq_true, if_false, if_true, M_src]
    rw [matchLenLoop_eq m d dx _ r s t 15 hr hs (by omega)]
    cases hl : lenLoop m.src s 15 with
    | none =>
      exact Sim_err m d d s0 _ _ errs.2.1 (Fr.refl _ _) (fun _ => rfl)
    | some p =>
      obtain ⟨v, s'⟩ := p
      have hb := lenLoop_bounds _ _ _ _ _ hl
      exact copyMatch_sim m L d _ s0 s' t v dx (hr.setSi _ s' rfl) hd (by omega) (by omega) ht hdx1 hdx2
  · have : (nib != 15) = true := by simp [h15]
    simp only [this, h15, if_true, if_false]
    exact copyMatch_sim m L d _ s0 s t nib dx hr hd hs0 hs ht hdx1 hdx2

theorem le16_le (a : Array UInt8) (i : Nat) : le16 a i ≤ 65535 := by
  unfold le16
  have h1 := a[i]!.toNat_lt
  have h2 := a[i + 1]!.toNat_lt
  omega

/-- the part of a sequence after the offset has been read at `src[s]`, against `specMatch` -/
theorem matchPre_specMatch (m : Mem) (L : Lay m) (d : Array UInt8) (r : R) (s0 s t nib : Nat)
    (hr : RI m r (s + 2) t) (hd : d.size = m.dst.size) (hs0 : s0 < s + 2) (hs : s + 2 ≤ m.src.size)
    (ht : t ≤ m.dstLen) (hn : nib < 16) (h0 : le16 m.src s ≠ 0) :
    Sim m d s0 (matchLenLoopPre (M m d) r nib (le16 m.src s)) (fun fuel =>
      specMatch nib (m.src.toList.drop s) (H m.dict d t) m.dict.size m.dstLen fuel) := by
  have hL1 := L.dstLen_le
  apply (matchLenLoopPre_sim m L d r s0 (s + 2) t nib (le16 m.src s) hr hd hs0 hs ht hn (by omega)
    (le16_le _ _)).congr
  intro fuel
  rw [specMatch_idx _ _ _ _ _ _ _ hs, H_size _ _ _ (by omega)]
  simp only [h0, if_false]
  cases hf : fieldM m.src nib (s + 2) with
  | none => simp
  | some p =>
    obtain ⟨ml, s'⟩ := p
    simp only [specCopy, specTail]
    by_cases c1 : le16 m.src s > m.dict.size + t
    · simp [c1]
    · by_cases c2 : t + (ml + 4) > m.dstLen
      · have c2' : m.dict.size + t + (ml + 4) - m.dict.size > m.dstLen := by omega
        simp [c1, c2, c2']
      · have c2' : ¬ m.dict.size + t + (ml + 4) - m.dict.size > m.dstLen := by omega
        simp only [c1, c2, c2', if_false]

theorem finishLitCopy_sim (m : Mem) (L : Lay m) (d : Array UInt8) (r : R) (s0 s t tok : Nat)
    (hr : RI m r s t) (hd : d.size = m.dst.size) (hs0 : s0 < s) (hs : s ≤ m.src.size) (ht : t ≤ m.dstLen) :
    Sim m d s0 (finishLitCopy (M m d) r tok) (fun fuel =>
      specMatch (tok % 16) (m.src.toList.drop s) (H m.dict d t) m.dict.size m.dstLen fuel) := by
  have hL1 := L.src_end
  ri_cases r hr
  unfold finishLitCopy
  simp only []
  by_cases he : s = m.src.size
  · have c1 : m.srcBase + s ≥ m.srcBase + m.src.size := by omega
    simp only [c1, if_true, pure_ok]
    unfold endL
    simp only []
    rw [drop_nil m.src s (by omega)]
    by_cases hz : tok % 16 = 0
    · have : ¬ (tok % 16 != 0) = true := by simp [hz]
      simp only [this, Nat.add_sub_cancel_left]
      refine ⟨d, rfl, Fr.refl _ _, Or.inr ⟨t, rfl, ht, fun fuel => ?_⟩⟩
      simp [specMatch, hz]
    · have : (tok % 16 != 0) = true := by simp [hz]
      simp only [this, if_true]
      exact Sim_err m d d s0 _ _ errs.1 (Fr.refl _ _) (fun fuel => by simp [specMatch, hz])
  · have c1 : ¬ m.srcBase + s ≥ m.srcBase + m.src.size := by omega
    simp only [c1, if_false]
    rw [add64_lt _ _ (by rw [W_eq]; omega)]
    simp only [Bool.false_eq_true, if_false]
    by_cases h2 : s + 2 > m.src.size
    · have c2 : m.srcBase + s + 2 > m.srcBase + m.src.size := by omega
      simp only [c2, if_true]
      refine Sim_err m d d s0 _ _ errs.2.1 (Fr.refl _ _) (fun fuel => ?_)
      rw [drop_cons m.src s (by omega), drop_nil m.src (s + 1) (by omega)]
      simp [specMatch]
    · have c2 : ¬ m.srcBase + s + 2 > m.srcBase + m.src.size := by omega
      simp only [c2, if_false]
      have e1 : m.srcBase + s + 2 - 2 = m.srcBase + s := by omega
      have e2 : m.srcBase + s + 2 - 1 = m.srcBase + (s + 1) := by omega
      rw [e1, e2, ld8_src m d s (by omega), bind_ok, ld8_src m d (s + 1) (by omega), bind_ok]
      have e3 : m.src[s]!.toNat + 256 * m.src[s + 1]!.toNat = le16 m.src s := rfl
      simp only [e3]
      by_cases h0 : le16 m.src s = 0
      · have : (le16 m.src s == 0) = true := by simp [h0]
        simp only [this, if_true]
        refine Sim_err m d d s0 _ _ errs.1 (Fr.refl _ _) (fun fuel => ?_)
        rw [specMatch_idx _ _ _ _ _ _ _ (by omega)]
        simp [h0]
      · have : ¬ (le16 m.src s == 0) = true := by simp [h0]
        simp only [this]
        exact matchPre_specMatch m L d _ s0 s t (tok % 16) (RI_mk m _ _ _ _ rfl (by omega)) hd (by omega)
          (by omega) ht (Nat.mod_lt _ (by omega)) h0

/-- after `n ≥ ll` literal bytes have been copied (only `ll` of them count) -/
theorem lits_done (m : Mem) (L : Lay m) (d : Array UInt8) (r : R) (s0 s2 t tok ll n : Nat)
    (hr : RI m r (s2 + ll) (t + ll)) (hd : d.size = m.dst.size) (hs0 : s0 < s2)
    (hn : ll ≤ n) (hs : s2 + n ≤ m.src.size) (ht : t + n ≤ m.dstLen) :
    Sim m d s0 (finishLitCopy (M m (blit d t m.src s2 n)) r tok) (fun fuel =>
      if t + ll > m.dstLen ∨ s2 + ll > m.src.size then none else
      specMatch (tok % 16) (m.src.toList.drop (s2 + ll)) (H m.dict d t ++ (m.src.toList.drop s2).take ll)
        m.dict.size m.dstLen fuel) := by
  have hL1 := L.dstLen_le
  apply Sim.frame (Fr_blit _ _ _ _ _ _ ht)
  apply (finishLitCopy_sim m L (blit d t m.src s2 n) r s0 (s2 + ll) (t + ll) tok hr
    (by rw [blit_size, hd]) (by omega) (by omega) (by omega)).congr
  intro fuel
  have c : ¬ (t + ll > m.dstLen ∨ s2 + ll > m.src.size) := by omega
  simp only [c, if_false]
  rw [H_lits m.dict d (blit d t m.src s2 n) m.src t s2 ll (blit_size _ _ _ _ _) (by omega) (by omega)]
  · intro j hj
    rw [blit_get]
    have : ¬ (t ≤ j ∧ j < t + n ∧ j < d.size) := by omega
    simp only [this, if_false]
  · intro j hj1 hj2
    rw [blit_get]
    have : t ≤ j ∧ j < t + n ∧ j < d.size := by omega
    simp only [this, and_self, if_true]

theorem copyLiteral_sim (m : Mem) (L : Lay m) (d : Array UInt8) (r : R) (s0 s2 t tok ll : Nat)
    (hr : RI m r s2 t) (hd : d.size = m.dst.size) (hs0 : s0 < s2) (hs : s2 ≤ m.src.size) (ht : t ≤ m.dstLen) :
    Sim m d s0 (copyLiteral (M m d) r tok ll) (fun fuel =>
      if t + ll > m.dstLen ∨ s2 + ll > m.src.size then none else
      specMatch (tok % 16) (m.src.toList.drop (s2 + ll)) (H m.dict d t ++ (m.src.toList.drop s2).take ll)
        m.dict.size m.dstLen fuel) := by
  have hL1 := L.dstLen_le
  have hL2 := L.dst_end
  have hL3 := L.src_end
  ri_cases r hr
  unfold copyLiteral
  simp only []
  by_cases hA : s2 + ll > m.src.size
  · have hnone : ∀ fuel : Nat, (if t + ll > m.dstLen ∨ s2 + ll > m.src.size then none else
        specMatch (tok % 16) (m.src.toList.drop (s2 + ll)) (H m.dict d t ++ (m.src.toList.drop s2).take ll)
          m.dict.size m.dstLen fuel) = none := by
      intro fuel; simp [hA]
    by_cases hc : m.srcBase + s2 + ll < W
    · rw [add64_lt _ _ hc]
      have : m.srcBase + s2 + ll > m.srcBase + m.src.size := by omega
      simp only [Bool.false_eq_true, if_false, this, if_true]
      exact Sim_err m d d s0 _ _ errs.2.1 (Fr.refl _ _) hnone
    · rw [add64_ge _ _ (by omega)]
      simp only [if_true]
      exact Sim_err m d d s0 _ _ errs.2.1 (Fr.refl _ _) hnone
  rw [add64_lt _ _ (by rw [W_eq]; omega)]
  have c1 : ¬ m.srcBase + s2 + ll > m.srcBase + m.src.size := by omega
  simp only [Bool.false_eq_true, if_false, c1]
  by_cases hB : t + ll > m.dstLen
  · have hnone : ∀ fuel : Nat, (if t + ll > m.dstLen ∨ s2 + ll > m.src.size then none else
        specMatch (tok % 16) (m.src.toList.drop (s2 + ll)) (H m.dict d t ++ (m.src.toList.drop s2).take ll)
          m.dict.size m.dstLen fuel) = none := by
      intro fuel; simp [hB]
    by_cases hc : m.dstBase + t + ll < W
    · rw [add64_lt _ _ hc]
      have : m.dstBase + t + ll > m.dstBase + m.dstLen := by omega
      simp only [Bool.false_eq_true, if_false, this, if_true]
      exact Sim_err m d d s0 _ _ errs.2.1 (Fr.refl _ _) hnone
    · rw [add64_ge _ _ (by omega)]
      simp only [if_true]
      exact Sim_err m d d s0 _ _ errs.2.1 (Fr.refl _ _) hnone
  rw [add64_lt _ _ (by rw [W_eq]; omega)]
  have c2 : ¬ m.dstBase + t + ll > m.dstBase + m.dstLen := by omega
  simp only [Bool.false_eq_true, if_false, c2]
  by_cases hw : ll ≤ 48 ∧ m.dstBase + m.dstLen - (m.dstBase + t) ≥ 48 ∧
      m.srcBase + m.src.size - (m.srcBase + s2) ≥ 48
  · simp only [hw, and_self, if_true]
    rw [cpy_src m d t s2 48 (by omega) (by omega), bind_ok]
    exact lits_done m L d _ s0 s2 t tok ll 48 (RI_mk m _ _ _ _ (by omega) (by omega)) hd hs0 (by omega)
      (by omega) (by omega)
  · simp only [hw, if_false]
    unfold memmove
    rw [cpy_src m d t s2 ll (by omega) (by omega), bind_ok]
    exact lits_done m L d _ s0 s2 t tok ll ll (RI_mk m _ _ _ _ (by omega) (by omega)) hd hs0 (by omega)
      (by omega) (by omega)


theorem litLenLoop_eq (m : Mem) (d : Array UInt8) (tok : Nat) (fuel : Nat) :
    ∀ (r : R) (s t cx : Nat), RI m r s t → s ≤ m.src.size → m.src.size - s < fuel →
    litLenLoop (M m d) r tok cx fuel =
      match lenLoop m.src s cx with
      | none => .ok (.done errShortBuf (M m d))
      | some (v, s') => copyLiteral (M m d) { r with si := m.srcBase + s' } tok v := by
  induction fuel with
  | zero => intro r s t cx hr hs hf; omega
  | succ fuel ih =>
    intro r s t cx hr hs hf
    ri_cases r hr
    rw [litLenLoop, lenLoop]
    simp only []
    by_cases hc : s < m.src.size
    · have c1 : ¬ m.srcBase + s ≥ m.srcBase + m.src.size := by omega
      simp only [c1, if_false, hc, dite_true]
      rw [ld8_src m d s hc, bind_ok, getElem!_pos m.src s hc]
      by_cases hb : m.src[s].toNat = 255
      · simp only [hb]
        rw [ih _ (s + 1) t _ (RI_mk m _ _ _ _ rfl (by omega)) (by omega) (by omega)]
        rfl
      · have hb' : ¬ (m.src[s].toNat == 255) = true := by simp [hb]
        simp only [hb', hb, if_false]
        rfl
    · have c1 : m.srcBase + s ≥ m.srcBase + m.src.size := by omega
      simp only [c1, if_true, hc, dite_false]
      rfl

/-- the literal part of a sequence (token at `src[s]`, literal length `ll` read up to `src[s2]`) -/
theorem lits_spec (m : Mem) (L : Lay m) (d : Array UInt8) (r : R) (s t ll s2 : Nat)
    (hr : RI m r s2 t) (hd : d.size = m.dst.size) (hs : s < m.src.size) (ht : t ≤ m.dstLen)
    (hf : fieldM m.src (m.src[s]!.toNat / 16) (s + 1) = some (ll, s2)) :
    Sim m d s (copyLiteral (M m d) r m.src[s]!.toNat ll) (fun fuel =>
      decodeAux (fuel + 1) (m.src.toList.drop s) (H m.dict d t) m.dict.size m.dstLen) := by
  have hL1 := L.dstLen_le
  have hb := fieldM_bounds m.src _ (s + 1) ll s2 (by omega) hf
  apply (copyLiteral_sim m L d r s s2 t _ ll hr hd (by omega) (by omega) ht).congr
  intro fuel
  rw [decodeAux_lits _ _ _ _ _ _ _ _ hs hf, H_size _ _ _ (by omega)]
  by_cases c1 : t + ll > m.dstLen
  · have : m.dict.size + t + ll - m.dict.size > m.dstLen := by omega
    simp [c1, this]
  · have c1' : ¬ m.dict.size + t + ll - m.dict.size > m.dstLen := by omega
    by_cases c2 : s2 + ll > m.src.size
    · simp [c1', c2]
    · simp only [c1, c2, c1', or_self, if_false]

/-- shortcut stage 2: the 8+8+2-byte copy realises a match of length `n ≤ 18` at offset `dx ≥ 8` -/
theorem stage2_H (dict d1 : Array UInt8) (t1 dx n : Nat) (h8 : 8 ≤ dx) (hle : dx ≤ t1) (hn : n ≤ 18)
    (hsz : t1 + 18 ≤ d1.size) :
    H dict (blit (blit (blit d1 t1 d1 (t1 - dx) 8) (t1 + 8) (blit d1 t1 d1 (t1 - dx) 8) (t1 - dx + 8) 8)
        (t1 + 16) (blit (blit d1 t1 d1 (t1 - dx) 8) (t1 + 8) (blit d1 t1 d1 (t1 - dx) 8) (t1 - dx + 8) 8)
        (t1 - dx + 16) 2) (t1 + n) = copyMatch (H dict d1 t1) dx n := by
  generalize hd2 : blit d1 t1 d1 (t1 - dx) 8 = d2
  generalize hd3 : blit d2 (t1 + 8) d2 (t1 - dx + 8) 8 = d3
  generalize hd4 : blit d3 (t1 + 16) d3 (t1 - dx + 16) 2 = d4
  have s2 : d2.size = d1.size := by rw [← hd2, blit_size]
  have s3 : d3.size = d1.size := by rw [← hd3, blit_size, s2]
  have s4 : d4.size = d1.size := by rw [← hd4, blit_size, s3]
  have g2 : ∀ j, d2[j]! = if t1 ≤ j ∧ j < t1 + 8 then d1[j - dx]! else d1[j]! := by
    intro j
    rw [← hd2, blit_get]
    by_cases c : t1 ≤ j ∧ j < t1 + 8
    · have c' : t1 ≤ j ∧ j < t1 + 8 ∧ j < d1.size := by omega
      have e : t1 - dx + (j - t1) = j - dx := by omega
      simp only [c, c', and_self, if_true, e]
    · have c' : ¬ (t1 ≤ j ∧ j < t1 + 8 ∧ j < d1.size) := by omega
      simp only [c, c', if_false]
  have g3 : ∀ j, d3[j]! = if t1 + 8 ≤ j ∧ j < t1 + 16 then d2[j - dx]! else d2[j]! := by
    intro j
    rw [← hd3, blit_get]
    by_cases c : t1 + 8 ≤ j ∧ j < t1 + 16
    · have c' : t1 + 8 ≤ j ∧ j < t1 + 8 + 8 ∧ j < d2.size := by omega
      have e : t1 - dx + 8 + (j - (t1 + 8)) = j - dx := by omega
      simp only [c, c', and_self, if_true, e]
    · have c' : ¬ (t1 + 8 ≤ j ∧ j < t1 + 8 + 8 ∧ j < d2.size) := by omega
      simp only [c, c', if_false]
  have g4 : ∀ j, d4[j]! = if t1 + 16 ≤ j ∧ j < t1 + 18 then d3[j - dx]! else d3[j]! := by
    intro j
    rw [← hd4, blit_get]
    by_cases c : t1 + 16 ≤ j ∧ j < t1 + 18
    · have c' : t1 + 16 ≤ j ∧ j < t1 + 16 + 2 ∧ j < d3.size := by omega
      have e : t1 - dx + 16 + (j - (t1 + 16)) = j - dx := by omega
      simp only [c, c', and_self, if_true, e]
    · have c' : ¬ (t1 + 16 ≤ j ∧ j < t1 + 16 + 2 ∧ j < d3.size) := by omega
      simp only [c, c', if_false]
  have o4 : ∀ j, ¬ (t1 + 16 ≤ j ∧ j < t1 + 18) → d4[j]! = d3[j]! := by
    intro j c; rw [g4 j]; simp only [c, if_false]
  have o3 : ∀ j, ¬ (t1 + 8 ≤ j ∧ j < t1 + 16) → d3[j]! = d2[j]! := by
    intro j c; rw [g3 j]; simp only [c, if_false]
  have o2 : ∀ j, ¬ (t1 ≤ j ∧ j < t1 + 8) → d2[j]! = d1[j]! := by
    intro j c; rw [g2 j]; simp only [c, if_false]
  have i4 : ∀ j, (t1 + 16 ≤ j ∧ j < t1 + 18) → d4[j]! = d3[j - dx]! := by
    intro j c; rw [g4 j]; simp only [c, and_self, if_true]
  have i3 : ∀ j, (t1 + 8 ≤ j ∧ j < t1 + 16) → d3[j]! = d2[j - dx]! := by
    intro j c; rw [g3 j]; simp only [c, and_self, if_true]
  have i2 : ∀ j, (t1 ≤ j ∧ j < t1 + 8) → d2[j]! = d1[j - dx]! := by
    intro j c; rw [g2 j]; simp only [c, and_self, if_true]
  apply H_copyMatch _ _ _ _ _ _ (by omega) (by omega) s4 (by omega)
  · intro j hj
    rw [o4 j (by omega), o3 j (by omega), o2 j (by omega)]
  · intro j hj1 hj2
    have a0 : ¬ dict.size + j - dx < dict.size := by omega
    simp only [a0, if_false]
    by_cases k1 : j < t1 + 8
    · rw [o4 j (by omega), o3 j (by omega), i2 j (by omega), o4 (j - dx) (by omega), o3 (j - dx) (by omega),
        o2 (j - dx) (by omega)]
    · by_cases k2 : j < t1 + 16
      · rw [o4 j (by omega), i3 j (by omega), o4 (j - dx) (by omega), o3 (j - dx) (by omega)]
      · rw [i4 j (by omega), o4 (j - dx) (by omega)]


/-- literals copied by a wide copy (`n ≥ ll` bytes), then anything that simulates the match part -/
theorem lits_sim (m : Mem) (L : Lay m) (d : Array UInt8) (res : X Step) (s t ll s2 n : Nat)
    (hd : d.size = m.dst.size) (hs : s < m.src.size)
    (hf : fieldM m.src (m.src[s]!.toNat / 16) (s + 1) = some (ll, s2)) (hn : ll ≤ n)
    (hs2 : s2 + n ≤ m.src.size) (ht : t + n ≤ m.dstLen)
    (h : Sim m (blit d t m.src s2 n) s res (fun fuel =>
      specMatch (m.src[s]!.toNat % 16) (m.src.toList.drop (s2 + ll)) (H m.dict (blit d t m.src s2 n) (t + ll))
        m.dict.size m.dstLen fuel)) :
    Sim m d s res (fun fuel =>
      decodeAux (fuel + 1) (m.src.toList.drop s) (H m.dict d t) m.dict.size m.dstLen) := by
  have hL1 := L.dstLen_le
  apply Sim.frame (Fr_blit _ _ _ _ _ _ ht)
  apply h.congr
  intro fuel
  rw [decodeAux_lits _ _ _ _ _ _ _ _ hs hf, H_size _ _ _ (by omega)]
  have c1 : ¬ m.dict.size + t + ll - m.dict.size > m.dstLen := by omega
  have c2 : ¬ s2 + ll > m.src.size := by omega
  simp only [c1, c2, if_false]
  rw [H_lits m.dict d (blit d t m.src s2 n) m.src t s2 ll (blit_size _ _ _ _ _) (by omega) (by omega)]
  · intro j hj
    rw [blit_get]
    have : ¬ (t ≤ j ∧ j < t + n ∧ j < d.size) := by omega
    simp only [this, if_false]
  · intro j hj1 hj2
    rw [blit_get]
    have : t ≤ j ∧ j < t + n ∧ j < d.size := by omega
    simp only [this, and_self, if_true]

theorem iter_sim (m : Mem) (L : Lay m) (d : Array UInt8) (r : R) (s t : Nat)
    (hr : RI m r s t) (hd : d.size = m.dst.size) (hs : s < m.src.size) (ht : t ≤ m.dstLen) :
    Sim m d s (iter (M m d) r) (fun fuel =>
      decodeAux (fuel + 1) (m.src.toList.drop s) (H m.dict d t) m.dict.size m.dstLen) := by
  have hL1 := L.dstLen_le
  have hL2 := L.dst_end
  have hL3 := L.src_end
  have hL4 := L.dst_base
  have hL5 := L.src_base
  have htok := m.src[s]!.toNat_lt
  ri_cases r hr
  unfold iter
  simp only []
  rw [ld8_src m d s hs, bind_ok]
  by_cases h15 : m.src[s]!.toNat / 16 = 15
  · have : (m.src[s]!.toNat / 16 == 15) = true := by simp [h15]
    simp only [this, if_true, M_src]
    rw [litLenLoop_eq m d _ _ _ (s + 1) t _ (RI_mk m _ _ _ _ rfl (by omega)) (by omega) (by omega)]
    have hfm : fieldM m.src (m.src[s]!.toNat / 16) (s + 1) = lenLoop m.src (s + 1) (m.src[s]!.toNat / 16) := by
      unfold fieldM; simp only [h15, if_true]
    cases hl : lenLoop m.src (s + 1) (m.src[s]!.toNat / 16) with
    | none =>
      rw [hl] at hfm
      exact Sim_err m d d s _ _ errs.2.1 (Fr.refl _ _)
        (fun fuel => decodeAux_field_none m.src _ _ _ fuel s hs hfm)
    | some p =>
      obtain ⟨ll, s2⟩ := p
      rw [hl] at hfm
      exact lits_spec m L d _ s t ll s2 (RI_mk m _ _ _ _ rfl rfl) hd hs ht hfm
  · have : ¬ (m.src[s]!.toNat / 16 == 15) = true := by simp [h15]
    simp only [this, Bool.false_eq_true, if_false]
    have hfm : fieldM m.src (m.src[s]!.toNat / 16) (s + 1) = some (m.src[s]!.toNat / 16, s + 1) := by
      unfold fieldM; simp only [h15, if_false]
    have hplain := lits_spec m L d _ s t _ (s + 1) (RI_mk m (m.dstBase + t) (m.srcBase + s + 1) (s + 1) t rfl (by omega))
      hd hs ht hfm
    by_cases c1 : m.dstBase + t ≥ m.dstBase + m.dstLen - 32
    · simp only [c1, if_true]
      exact hplain
    simp only [c1, if_false]
    by_cases c2 : m.srcBase + s + 1 ≥ m.srcBase + m.src.size - 16
    · simp only [c2, if_true]
      exact hplain
    simp only [c2, if_false]
    clear hplain
    generalize hll : m.src[s]!.toNat / 16 = ll at *
    have hll14 : ll ≤ 14 := by omega
    have hfm' : fieldM m.src (m.src[s]!.toNat / 16) (s + 1) = some (ll, s + 1) := by rw [hll]; exact hfm
    -- shortcut stage 1
    have e1 : m.srcBase + s + 1 = m.srcBase + (s + 1) := by omega
    rw [e1, cpy_src m d t (s + 1) 16 (by omega) (by omega), bind_ok]
    apply lits_sim m L d _ s t ll (s + 1) 16 hd hs hfm' (by omega) (by omega) (by omega)
    have hd1 : (blit d t m.src (s + 1) 16).size = m.dst.size := by rw [blit_size, hd]
    generalize blit d t m.src (s + 1) 16 = d1 at *
    have e2 : m.srcBase + (s + 1) + ll = m.srcBase + (s + 1 + ll) := by omega
    have e3 : m.srcBase + (s + 1 + ll) + 1 = m.srcBase + (s + 1 + ll + 1) := by omega
    rw [e2, e3, ld8_src m d1 _ (by omega), bind_ok, ld8_src m d1 _ (by omega), bind_ok]
    have e4 : m.src[s + 1 + ll]!.toNat + 256 * m.src[s + 1 + ll + 1]!.toNat = le16 m.src (s + 1 + ll) := rfl
    simp only [e4]
    have hdx := le16_le m.src (s + 1 + ll)
    generalize hs1 : s + 1 + ll = s1 at *
    generalize hdxe : le16 m.src s1 = dx at *
    have hn16 : m.src[s]!.toNat % 16 < 16 := Nat.mod_lt _ (by omega)
    generalize m.src[s]!.toNat % 16 = nib at *
    have hidx := fun fuel => specMatch_idx m.src (H m.dict d1 (t + ll)) m.dict.size m.dstLen fuel nib s1 (by omega)
    rw [hdxe] at hidx
    by_cases h0 : dx = 0
    · have : (dx == 0) = true := by simp [h0]
      simp only [this, if_true]
      refine Sim_err m d1 d1 s _ _ errs.1 (Fr.refl _ _) (fun fuel => ?_)
      rw [hidx]; simp [h0]
    have : ¬ (dx == 0) = true := by simp [h0]
    simp only [this, Bool.false_eq_true, if_false]
    rw [add64_lt _ _ (by rw [W_eq]; omega)]
    simp only [Bool.false_eq_true, if_false]
    by_cases hcar : ¬ dx ≤ m.dstBase + t + ll
    · rw [sub64_lt _ _ (by omega)]
      simp only [if_true]
      refine ⟨d1, rfl, Fr.refl _ _, Or.inl ⟨errs.1, fun hbig fuel => ?_⟩⟩
      rcases hbig with hz | hb
      · -- no dictionary: the offset exceeds the history, the specification rejects too
        simp only []
        rw [hidx, H_size _ _ _ (by omega)]
        have : dx > m.dict.size + (t + ll) := by omega
        simp [h0, this]
      · -- destination at or above 64 KiB: `DI - DX` cannot borrow
        omega
    rw [sub64_ge _ _ (by omega)]
    have c3 : ¬ m.dstBase + t + ll - dx > m.dstBase + t + ll := by omega
    simp only [Bool.false_eq_true, if_false, c3]
    have key := matchPre_specMatch m L d1 _ s s1 (t + ll) nib
      (RI_mk m (m.dstBase + t + ll) (m.srcBase + s1 + 2) (s1 + 2) (t + ll) (by omega) (by omega)) hd1 (by omega)
      (by omega) (by omega) hn16 (by rw [hdxe]; exact h0)
    rw [hdxe] at key
    by_cases p1 : nib = 15
    · have : (nib == 15) = true := by simp [p1]
      simp only [this, if_true]
      exact key
    have : ¬ (nib == 15) = true := by simp [p1]
    simp only [this, Bool.false_eq_true, if_false]
    by_cases p2 : dx < 8
    · simp only [p2, if_true]
      exact key
    simp only [p2, if_false]
    by_cases p3 : m.dstBase + t + ll - dx < m.dstBase
    · simp only [p3, if_true]
      exact key
    simp only [p3, if_false]
    clear key
    -- shortcut stage 2
    have q1 : m.dstBase + t + ll = m.dstBase + (t + ll) := by omega
    rw [q1]
    generalize t + ll = t1 at *
    have q2 : m.dstBase + t1 - dx = m.dstBase + (t1 - dx) := by omega
    have q3 : m.dstBase + t1 + 8 = m.dstBase + (t1 + 8) := by omega
    have q4 : m.dstBase + (t1 - dx) + 8 = m.dstBase + (t1 - dx + 8) := by omega
    have q5 : m.dstBase + t1 + 16 = m.dstBase + (t1 + 16) := by omega
    have q6 : m.dstBase + (t1 - dx) + 16 = m.dstBase + (t1 - dx + 16) := by omega
    rw [q2, q3, q4, q5, q6]
    rw [cpy_dst m L d1 t1 (t1 - dx) 8 (by omega) (by omega), bind_ok,
      cpy_dst m L _ (t1 + 8) (t1 - dx + 8) 8 (by omega) (by omega), bind_ok,
      cpy_dst m L _ (t1 + 16) (t1 - dx + 16) 2 (by omega) (by omega), bind_ok, pure_ok]
    have hH := stage2_H m.dict d1 t1 dx (nib + 4) (by omega) (by omega) (by omega) (by omega)
    have hF : Fr m.dstLen d1 (blit (blit (blit d1 t1 d1 (t1 - dx) 8) (t1 + 8) (blit d1 t1 d1 (t1 - dx) 8)
        (t1 - dx + 8) 8) (t1 + 16) (blit (blit d1 t1 d1 (t1 - dx) 8) (t1 + 8) (blit d1 t1 d1 (t1 - dx) 8)
        (t1 - dx + 8) 8) (t1 - dx + 16) 2) :=
      ((Fr_blit _ _ _ _ _ _ (by omega)).trans (Fr_blit _ _ _ _ _ _ (by omega))).trans
        (Fr_blit _ _ _ _ _ _ (by omega))
    generalize (blit (blit (blit d1 t1 d1 (t1 - dx) 8) (t1 + 8) (blit d1 t1 d1 (t1 - dx) 8)
        (t1 - dx + 8) 8) (t1 + 16) (blit (blit d1 t1 d1 (t1 - dx) 8) (t1 + 8) (blit d1 t1 d1 (t1 - dx) 8)
        (t1 - dx + 8) 8) (t1 - dx + 16) 2) = d4 at hH hF ⊢
    unfold loopcheck
    have q7 : m.srcBase + s1 + 2 < m.srcBase + m.src.size := by omega
    simp only [q7, if_true]
    refine ⟨d4, s1 + 2, t1 + (nib + 4), rfl, RI_mk m _ _ _ _ (by omega) (by omega), hF, by omega, by omega,
      by omega, fun fuel => ?_⟩
    simp only []
    rw [hidx, H_size _ _ _ (by omega)]
    have hfn : fieldM m.src nib (s1 + 2) = some (nib, s1 + 2) := by
      unfold fieldM; simp only [p1, if_false]
    have r1 : ¬ dx > m.dict.size + t1 := by omega
    have r2 : ¬ m.dict.size + t1 + (nib + 4) - m.dict.size > m.dstLen := by omega
    have r3 : ¬ s1 + 2 = m.src.size := by omega
    simp only [h0, r1, hfn, r2, r3, if_false, hH]


/-! ## Part 3: the loop and the top level -/

/-- final results against a value of the specification -/
def Res (m : Mem) (d : Array UInt8) (res : X (Int × Mem)) (spec : Option (Array UInt8)) : Prop :=
  match res with
  | .error _ => False
  | .ok (ret, mm) => ∃ d', mm = M m d' ∧ Fr m.dstLen d d' ∧
      ((ret < 0 ∧ ((m.dict.size = 0 ∨ 65536 ≤ m.dstBase) → spec = none)) ∨
       (∃ t' : Nat, ret = (t' : Int) ∧ t' ≤ m.dstLen ∧ spec = some (H m.dict d' t')))

theorem run_sim (m : Mem) (L : Lay m) :
    ∀ (fuel : Nat) (d : Array UInt8) (r : R) (s t fuelS : Nat), RI m r s t → d.size = m.dst.size →
      s < m.src.size → t ≤ m.dstLen → m.src.size - s < fuel → m.src.size - s < fuelS →
      Res m d (run (M m d) r fuel)
        (decodeAux fuelS (m.src.toList.drop s) (H m.dict d t) m.dict.size m.dstLen) := by
  intro fuel
  induction fuel with
  | zero => intro d r s t fuelS _ _ _ _ h; omega
  | succ fm ih =>
    intro d r s t fuelS hr hd hs ht hfm hfs
    cases fuelS with
    | zero => omega
    | succ fs =>
      have hi := iter_sim m L d r s t hr hd hs ht
      rw [run]
      cases hres : iter (M m d) r with
      | error e => rw [hres] at hi; exact hi
      | ok st =>
        rw [hres] at hi
        rw [bind_ok]
        cases st with
        | done ret mm =>
          obtain ⟨d', h1, h2, h3⟩ := hi
          refine ⟨d', h1, h2, ?_⟩
          rcases h3 with ⟨a, b⟩ | ⟨t', a, b, c⟩
          · exact Or.inl ⟨a, fun hb => b hb fs⟩
          · exact Or.inr ⟨t', a, b, c fs⟩
        | cont mm r' =>
          obtain ⟨d', s', t', h1, h2, h3, h4, h5, h6, h7⟩ := hi
          subst h1
          have := ih d' r' s' t' fs h2 (by rw [h3.1, hd]) h5 h6 (by omega) (by omega)
          simp only []
          have h7' : decodeAux (fs + 1) (m.src.toList.drop s) (H m.dict d t) m.dict.size m.dstLen = _ := h7 fs
          rw [h7']
          cases hrun : run (M m d') r' fm with
          | error e => rw [hrun] at this; exact this
          | ok p =>
            obtain ⟨ret, mm⟩ := p
            rw [hrun] at this
            obtain ⟨d'', g1, g2, g3⟩ := this
            exact ⟨d'', g1, h3.trans g2, g3⟩

theorem decodeBlock_sim (m : Mem) (L : Lay m) (hsrc : m.src.size ≠ 0) :
    Res m m.dst (decodeBlock m)
      (decodeAux (m.src.size + 1) m.src.toList m.dict m.dict.size m.dstLen) := by
  have hL4 := L.dst_base
  have hL5 := L.src_base
  unfold decodeBlock
  have : ¬ (m.src.size == 0) = true := by simp [hsrc]
  simp only [this, Bool.false_eq_true, if_false]
  have h12 : (sub64 (m.dstBase + m.dstLen) 32).1 = m.dstBase + m.dstLen - 32 := by
    rw [sub64_ge _ _ (by omega)]
  have h13 : (sub64 (m.srcBase + m.src.size) 16).1 = m.srcBase + m.src.size - 16 := by
    rw [sub64_ge _ _ (by omega)]
  have hr : RI m { di := m.dstBase, si := m.srcBase, r8 := m.dstBase + m.dstLen,
                   r9 := m.srcBase + m.src.size, r11 := m.dstBase,
                   r12 := (sub64 (m.dstBase + m.dstLen) 32).1,
                   r13 := (sub64 (m.srcBase + m.src.size) 16).1,
                   r14 := m.dictBase, r15 := m.dict.size } 0 0 :=
    ⟨rfl, rfl, rfl, rfl, rfl, h12, h13, rfl, rfl⟩
  have := run_sim m L (m.src.size + 1) m.dst _ 0 0 (m.src.size + 1) hr rfl (by omega) (by omega) (by omega)
    (by omega)
  rw [H_zero, List.drop_zero] at this
  exact this

/-- memory safety: no fault, result in range, nothing outside `dst[0:len)` modified -/
theorem decodeBlock_safe (m : Mem) (L : Lay m) :
    match decodeBlock m with
    | .ok (ret, m') => (ret < 0 ∨ ret ≤ m.dstLen) ∧ m'.dst.size = m.dst.size ∧
        (∀ i, m.dstLen ≤ i → i < m.dst.size → m'.dst[i]! = m.dst[i]!) ∧
        m'.src = m.src ∧ m'.dict = m.dict ∧ m'.dstLen = m.dstLen
    | .error _ => False := by
  by_cases hsrc : m.src.size = 0
  · have : decodeBlock m = .ok (errCorrupt, m) := by
      unfold decodeBlock
      simp [hsrc]
      rfl
    rw [this]
    exact ⟨Or.inl errs.1, rfl, fun _ _ _ => rfl, rfl, rfl, rfl⟩
  · have h := decodeBlock_sim m L hsrc
    cases hres : decodeBlock m with
    | error e => rw [hres] at h; exact h
    | ok p =>
      obtain ⟨ret, mm⟩ := p
      rw [hres] at h
      obtain ⟨d', h1, h2, h3⟩ := h
      subst h1
      refine ⟨?_, h2.1, fun i hi _ => h2.2 i hi, rfl, rfl, rfl⟩
      rcases h3 with ⟨a, _⟩ | ⟨t', a, b, _⟩
      · exact Or.inl a
      · right; rw [a]; exact Int.ofNat_le.mpr b

/-- functional correctness, when there is no dictionary or the destination lies at or above 64 KiB -/
theorem decodeBlock_spec (m : Mem) (L : Lay m) (hbig : m.dict.size = 0 ∨ 65536 ≤ m.dstBase)
    (hsrc : m.src.size ≠ 0) :
    match decodeBlock m with
    | .ok (ret, m') =>
        if ret < 0 then decode m.src.toList m.dict.toList m.dstLen = none
        else decode m.src.toList m.dict.toList m.dstLen = some (m'.dst.extract 0 ret.toNat)
    | .error _ => False := by
  have h := decodeBlock_sim m L hsrc
  have hL1 := L.dstLen_le
  unfold decode
  simp only [Array.length_toList, Array.toArray_toList]
  cases hres : decodeBlock m with
  | error e => rw [hres] at h; exact h
  | ok p =>
    obtain ⟨ret, mm⟩ := p
    rw [hres] at h
    obtain ⟨d', h1, h2, h3⟩ := h
    subst h1
    simp only []
    rcases h3 with ⟨a, b⟩ | ⟨t', a, b, c⟩
    · simp only [a, if_true]
      rw [b hbig]; rfl
    · have : ¬ ret < 0 := by omega
      simp only [this, if_false]
      rw [c, Option.map_some, H_extract _ _ _ (by rw [h2.1]; omega), a]
      rfl


end Lz4V.Proofs.DecodeAsm
