import Lz4V.Proofs.FrameRBlk
import Lz4V.Model.Run
/-!
# Proofs.FrameR — the Reader sessions (`WriteTo`, `Read`) against `Spec.Frame.decode`

`Reach` is the forward simulation: the bytes between the end of the frame descriptor and the current
source position are whole data blocks which the specification decodes to `content`.  It holds after
every successful `readBlock`, whatever happens later, so it serves both acceptance soundness (C05) and
the truncation property (C06).
-/
set_option linter.unusedSimpArgs false
namespace Lz4V.Proofs.FrameR
open Lz4V Lz4V.Go Lz4V.Gen Lz4V.Model Lz4V.Model.FrameR Lz4V.Model.FrameW

/-- the specification decodes the data blocks in `D[h0, p)` to `content` -/
def Reach (D : Array UInt8) (info : Spec.Frame.Info) (h0 p : Nat) (content : Array UInt8) : Prop :=
  h0 ≤ p ∧ ∃ j, 4 * j ≤ p - h0 ∧ ∀ T F,
    Spec.Frame.blocks info (F + j) ((D.extract h0 p).toList ++ T) #[] = Spec.Frame.blocks info F T content

theorem Reach.start (D : Array UInt8) (info : Spec.Frame.Info) (h0 : Nat) : Reach D info h0 h0 #[] := by
  refine ⟨Nat.le_refl _, 0, by omega, ?_⟩
  intro T F
  have : (D.extract h0 h0).toList = [] := by
    apply List.eq_nil_of_length_eq_zero
    simp only [Array.length_toList, Array.size_extract]; omega
  rw [this]; rfl

theorem Reach.step {D : Array UInt8} {info : Spec.Frame.Info} {h0 p p' : Nat} {c c' : Array UInt8}
    (h : Reach D info h0 p c) (hp : p + 4 ≤ p')
    (hs : ∀ T F, Spec.Frame.blocks info (F + 1) ((D.extract p p').toList ++ T) c = Spec.Frame.blocks info F T c') :
    Reach D info h0 p' c' := by
  obtain ⟨h1, j, hj, hb⟩ := h
  refine ⟨by omega, j + 1, by omega, ?_⟩
  intro T F
  rw [extract_split D h0 p p' h1 (by omega), Array.toList_append, List.append_assoc]
  have : F + (j + 1) = (F + 1) + j := by omega
  rw [this, hb, hs]

/-- the specification's content only grows -/
theorem blocks_prefix (info : Spec.Frame.Info) (F : Nat) (bs : List UInt8) (c c' : Array UInt8) (r : List UInt8)
    (h : Spec.Frame.blocks info F bs c = .ok (c', r)) : c = c'.extract 0 c.size := by
  induction F generalizing bs c with
  | zero => simp [Spec.Frame.blocks] at h
  | succ F ih =>
    rw [Spec.Frame.blocks] at h
    split at h
    · simp at h
    · rename_i w r1 hw
      by_cases hw0 : w = 0
      · simp only [hw0, if_true, Except.ok.injEq, Prod.mk.injEq] at h
        rw [← h.1]; simp
      · simp only [hw0, if_false] at h
        split at h
        · simp at h
        · split at h
          · simp at h
          · rename_i payload r2 hsp
            split at h
            · simp at h
            · rename_i r3 hck
              have key : ∀ out : Array UInt8, Spec.Frame.blocks info F r3 (c ++ out) = .ok (c', r) →
                  c = c'.extract 0 c.size := by
                intro out ho
                have := ih _ _ ho
                have h2 : c = (c ++ out).extract 0 c.size := by simp
                have e2 : min (0 + c.size) (c.size + out.size) = c.size := by omega
                conv => lhs; rw [h2, this]
                simp only [Array.size_append, Array.extract_extract, e2, Nat.add_zero]
              split at h
              · exact key _ h
              · split at h
                · simp at h
                · exact key _ h

theorem Inv.of_fields {D : Array UInt8} {info : Spec.Frame.Info} {r r' : R} {c : Array UInt8}
    (h : Inv D info r c) (h1 : r'.src = r.src) (h2 : r'.magic = r.magic) (h3 : r'.flags = r.flags)
    (h4 : r'.cks = r.cks) (h5 : r'.dict = r.dict) : Inv D info r' c := by
  obtain ⟨a1, a2, a3, a4, a5, a6, a7⟩ := h
  exact ⟨by rw [h1]; exact a1, by rw [h1]; exact a2, by rw [h2]; exact a3, by rw [h3]; exact a4,
    by rw [h4]; exact a5, by rw [h5]; exact a6, by rw [h5]; exact a7⟩

theorem Inv.with_src {D : Array UInt8} {info : Spec.Frame.Info} {r : R} {c : Array UInt8}
    (h : Inv D info r c) (s' : Source) (hg : Good s') (hd : s'.data = D) : Inv D info { r with src := s' } c := by
  obtain ⟨a1, a2, a3, a4, a5, a6, a7⟩ := h
  exact ⟨hg, hd, a3, a4, a5, a6, a7⟩

/-! ## the sink -/

theorem sink_write (s : Sink) (hf : s.failAt = none) (p : Array UInt8) :
    s.write p = ({ s with writes := s.writes.push p, calls := s.calls + 1 }, none) := by
  unfold Sink.write; rw [hf]

theorem sink_bytes_push (s : Sink) (p : Array UInt8) (c : Nat) :
    ({ s with writes := s.writes.push p, calls := c } : Sink).bytes = s.bytes ++ p := by
  unfold Sink.bytes; simp

/-! ## `closeR` -/

theorem closeR_spec (D : Array UInt8) (info : Spec.Frame.Info) (r : R) (content : Array UInt8)
    (hinv : Inv D info r content) :
    (∃ r' e, closeR r = (r', some e) ∧ e ≠ .eof) ∨
    (info.contentChecksum = false ∧ closeR r = (r, none)) ∨
    (∃ s', info.contentChecksum = true ∧ Good s' ∧ s'.data = D ∧ s'.pos = r.src.pos + 4 ∧ r.src.pos + 4 ≤ D.size ∧
      (content.size < 2 ^ 64 → u32 (D.extract r.src.pos (r.src.pos + 4)) = Spec.Frame.xxh content) ∧
      closeR r = ({ r with src := s' }, none)) := by
  obtain ⟨hg, hd, hmag, hfm, hcks, hdI, hdD⟩ := hinv
  subst hd
  unfold closeR
  simp only [isLegacy_of_magic r hmag, Bool.false_eq_true, if_false]
  by_cases hcc0 : ¬ flagContentChecksum r.flags = true
  · simp only [hcc0, not_false_eq_true, if_true]
    exact Or.inr (Or.inl ⟨by rw [← hfm.cck]; simpa using hcc0, rfl⟩)
  have hcc : flagContentChecksum r.flags = true := Classical.not_not.mp hcc0
  simp only [hcc, not_true_eq_false, if_false]
  have hcc' : info.contentChecksum = true := by rw [← hfm.cck]; exact hcc
  by_cases h4' : r.src.data.size < r.src.pos + 4
  · obtain ⟨s1, g1, d1, p1, e1⟩ := readUint32_short r.src hg h4'
    rw [e1]
    simp only [unexpected_shortErr]
    exact Or.inl ⟨_, _, rfl, by simp⟩
  have h4 : r.src.pos + 4 ≤ r.src.data.size := by omega
  obtain ⟨s1, g1, d1, p1, e1⟩ := readUint32_ok r.src hg h4
  rw [e1]
  simp only []
  by_cases hne : (XXH.sum32 r.cks).toNat ≠ u32 (r.src.data.extract r.src.pos (r.src.pos + 4))
  · rw [if_pos hne]
    exact Or.inl ⟨_, _, rfl, by simp⟩
  rw [if_neg hne]
  refine Or.inr (Or.inr ⟨s1, hcc', g1, d1, p1, h4, ?_, rfl⟩)
  intro hsz
  have hi := hcks hcc' hsz
  have := Proofs.XXH.sum32_of_inv _ _ (by simpa using hsz) hi
  rw [this, xxh_eq] at hne
  exact (Classical.not_not.mp hne).symm

/-! ## the `WriteTo` loop -/

theorem loop_succ (cap : Nat) (r : R) (sink : Sink) (n fuel : Nat) : writeTo.loop cap r sink n (fuel + 1) =
    (let saved := r.data
    let (r, got, e) := readBlock r cap
    let r := { r with data := saved }
    match e with
    | some .eof => let (r, ce) := closeR r; (r, sink, n, ce)
    | some e => (r, sink, n, some e)
    | none =>
      let (sink, we) := sink.write got
      match we with
      | some we => (r, sink, n, some we)
      | none => writeTo.loop cap r sink (n + got.size) fuel) := rfl

/-- what a clean end of the block sequence established: an end mark at `pe`, then the content checksum -/
def EndOk (D : Array UInt8) (info : Spec.Frame.Info) (pe pos : Nat) (content : Array UInt8) : Prop :=
  pe + 4 ≤ D.size ∧ u32 (D.extract pe (pe + 4)) = 0 ∧
  ((info.contentChecksum = false ∧ pos = pe + 4) ∨
   (info.contentChecksum = true ∧ pos = pe + 8 ∧ pe + 8 ≤ D.size ∧
     (content.size < 2 ^ 64 → u32 (D.extract (pe + 4) (pe + 8)) = Spec.Frame.xxh content)))

theorem loop_spec (D : Array UInt8) (info : Spec.Frame.Info) (h0 : Nat) (fuel : Nat) :
    ∀ (r : R) (sink : Sink) (n : Nat) (content : Array UInt8), Inv D info r content →
      Reach D info h0 r.src.pos content → sink.bytes = content → sink.failAt = none →
      D.size - r.src.pos < fuel →
      ∀ r' sink' n' e, writeTo.loop info.blockMax r sink n fuel = (r', sink', n', e) →
        ∃ content' pe, Reach D info h0 pe content' ∧ pe ≤ D.size ∧ sink'.bytes = content' ∧ e ≠ some .eof ∧
          (e = none → EndOk D info pe r'.src.pos content') := by
  induction fuel with
  | zero => intro r sink n content _ _ _ _ hf; omega
  | succ fuel ih =>
    intro r sink n content hinv hreach hsink hsf hf r' sink' n' e h
    have hple0 : r.src.pos ≤ D.size := by
      have := hinv.good.pos
      rw [hinv.data] at this
      exact this
    rw [loop_succ] at h
    rcases readBlock_spec D info r content info.blockMax hinv with
      ⟨r1, e1, h1, hne⟩ | ⟨s1, g1, d1, h4, hz, p1, h1⟩ | ⟨r1, dst, hinv1, hp, hple, hstep, -, -, -, -, hdel⟩
    · -- error
      rw [h1] at h
      simp only [] at h
      have : e = some e1 ∧ sink' = sink := by
        cases e1 <;> simp_all
      obtain ⟨rfl, rfl⟩ := this
      exact ⟨content, r.src.pos, hreach, hple0, hsink, by simpa using hne, by simp⟩
    · -- end mark
      rw [h1] at h
      simp only [] at h
      have hinv2 : Inv D info { r with src := s1, data := r.data } content :=
        (hinv.with_src s1 g1 d1).of_fields rfl rfl rfl rfl rfl
      rcases closeR_spec D info _ content hinv2 with ⟨r2, e2, h2, hne2⟩ | ⟨hcc, h2⟩ | ⟨s2, hcc, g2, d2, p2, h8, hck, h2⟩
      · rw [h2] at h
        simp only [Prod.mk.injEq] at h
        obtain ⟨-, rfl, -, rfl⟩ := h
        exact ⟨content, r.src.pos, hreach, hple0, hsink, by simpa using hne2, by simp⟩
      · rw [h2] at h
        simp only [Prod.mk.injEq] at h
        obtain ⟨rfl, rfl, -, rfl⟩ := h
        refine ⟨content, r.src.pos, hreach, hple0, hsink, by simp, fun _ => ⟨h4, hz, Or.inl ⟨hcc, p1⟩⟩⟩
      · rw [h2] at h
        simp only [Prod.mk.injEq] at h
        obtain ⟨rfl, rfl, -, rfl⟩ := h
        simp only [] at p2 h8 hck
        refine ⟨content, r.src.pos, hreach, hple0, hsink, by simp, fun _ => ⟨h4, hz, Or.inr ⟨hcc, by simp only []; omega, by omega, ?_⟩⟩⟩
        intro hsz
        have := hck hsz
        rw [p1] at this
        exact this
    · -- a block
      have h1 : readBlock r info.blockMax = (r1, dst, none) := by
        rcases hdel with ⟨-, h1, -⟩ | ⟨hlt, -, -⟩
        · exact h1
        · omega
      rw [h1] at h
      simp only [sink_write sink hsf] at h
      have hinv2 : Inv D info { r1 with data := r.data } (content ++ dst) := hinv1.of_fields rfl rfl rfl rfl rfl
      have hreach2 : Reach D info h0 r1.src.pos (content ++ dst) := hreach.step hp hstep
      exact ih _ { sink with writes := sink.writes.push dst, calls := sink.calls + 1 } _ (content ++ dst)
        hinv2 hreach2 (by rw [sink_bytes_push, hsink]) hsf
        (by simp only []; omega) r' sink' n' e h

/-! ## `WriteTo` from a new Reader -/

theorem writeTo_new (r : R) (sink : Sink) (h : r.st = stNew) : writeTo r sink =
    (let (r, e) := init r
    let (r, bad) := next r e
    if bad then (r, sink, 0, e) else
      let cap := poolSize (blockSizeIndex r.flags)
      let (r, sink, n, e) := writeTo.loop cap r sink 0 (r.src.data.size + 4)
      ((next r e).1, sink, n, e)) := by
  unfold writeTo
  have h1 : ¬ (stNew = stClosed ∨ stNew = stError) := by decide
  simp only [h1, h, if_false, if_true]

theorem init_eq (r : R) : init r =
    (let (r, e) := parseHeaders r (r.src.data.size + 2)
    match e with
    | some e => (r, some e)
    | none =>
      let r := if ¬ flagBlockIndependence r.flags then { r with num := 1 } else r
      ({ r with idx := 0, data := #[], cum := 0 }, none)) := rfl

/-- the Reader `NewReader(bytes)` with concurrency `num` -/
def r0 (bytes : Array UInt8) (num : Nat) : R := { src := { data := bytes }, num := num }

theorem r0_eq (bytes : Array UInt8) (num : Nat) :
    ({ FrameR.new { data := bytes } with num := num } : R) = r0 bytes num := rfl

theorem readAll_eq (bytes : Array UInt8) (num : Nat) : Run.readAll bytes num =
    ((writeTo (r0 bytes num) {}).2.1.bytes, (writeTo (r0 bytes num) {}).2.2.2,
      (writeTo (r0 bytes num) {}).1.src.pos) := by
  unfold Run.readAll
  simp only [r0_eq]

theorem init_spec (D : Array UInt8) (r : R) (hg : Good r.src) (hd : r.src.data = D) (hm : r.magic = 0)
    (r2 : R) (e : Option Err) (h : init r = (r2, e)) :
    (e = none → ∃ r1, HdrOk D r.src.pos r r1 ∧ r2.src = r1.src ∧ r2.magic = r1.magic ∧ r2.flags = r1.flags ∧
      r2.cks = r1.cks ∧ r2.dict = r1.dict ∧ r2.st = r1.st ∧ r2.idx = 0 ∧ r2.data = #[]) ∧
    (e = some .eof → ∀ F, D.size - r.src.pos < F →
      Spec.Frame.skipToFrame F (D.extract r.src.pos D.size).toList = .error .truncated) := by
  rw [init_eq] at h
  rcases hph : parseHeaders r (r.src.data.size + 2) with ⟨r1, e1⟩
  rw [hph] at h
  have hspec := parseHeaders_spec D (r.src.data.size + 2) r hg hd hm (by rw [hd]; omega) r1 e1 hph
  cases e1 with
  | some e1 =>
    simp only [Prod.mk.injEq] at h
    obtain ⟨-, rfl⟩ := h
    exact ⟨by simp, hspec.2⟩
  | none =>
    simp only [Prod.mk.injEq] at h
    obtain ⟨rfl, rfl⟩ := h
    refine ⟨fun _ => ⟨r1, hspec.1 rfl, ?_, ?_, ?_, ?_, ?_, ?_, rfl, rfl⟩, by simp⟩
    all_goals (simp only []; split <;> rfl)

theorem init_eof (r : R) (hg : Good r.src) (hm : r.magic = 0) (r2 : R) (h : init r = (r2, some .eof)) :
    r.src.pos = r.src.data.size ∨ (r.src.pos + 4 ≤ r.src.data.size ∧
      Spec.Frame.skipLo ≤ u32 (r.src.data.extract r.src.pos (r.src.pos + 4)) ∧
      u32 (r.src.data.extract r.src.pos (r.src.pos + 4)) ≤ Spec.Frame.skipHi) := by
  rw [init_eq] at h
  rcases hph : parseHeaders r (r.src.data.size + 2) with ⟨r1, e1⟩
  rw [hph] at h
  cases e1 with
  | some e1 =>
    simp only [Prod.mk.injEq, Option.some.injEq] at h
    rw [h.2] at hph
    exact parseHeaders_eof r hg hm _ r1 hph
  | none => simp at h

/-- the three ways a `WriteTo` session over a whole-read source can go -/
theorem readAll_cases (bytes : Array UInt8) (num : Nat) :
    (∃ e, (Run.readAll bytes num).1 = #[] ∧ (Run.readAll bytes num).2.1 = some e ∧
      (e = .eof → ∀ F, bytes.size < F → Spec.Frame.skipToFrame F bytes.toList = .error .truncated) ∧
      (e = .eof → bytes.size = 0 ∨ (4 ≤ bytes.size ∧ Spec.Frame.skipLo ≤ u32 (bytes.extract 0 4) ∧
        u32 (bytes.extract 0 4) ≤ Spec.Frame.skipHi))) ∨
    (∃ p, 4 ≤ p ∧ p ≤ bytes.size ∧ ∀ T F, p < F →
      Spec.Frame.skipToFrame F ((bytes.extract 0 p).toList ++ T) = .error .badMagic) ∨
    (∃ pm h0 info content pe, 4 ≤ pm ∧ pm + 3 ≤ h0 ∧
      (∀ T F, pm < F → Spec.Frame.skipToFrame F ((bytes.extract 0 pm).toList ++ T) = .ok T) ∧
      (∀ T, Spec.Frame.header ((bytes.extract pm h0).toList ++ T) false = .ok (info, T)) ∧
      Reach bytes info h0 pe content ∧ pe ≤ bytes.size ∧ (Run.readAll bytes num).1 = content ∧
      (Run.readAll bytes num).2.1 ≠ some .eof ∧
      ((Run.readAll bytes num).2.1 = none → EndOk bytes info pe (Run.readAll bytes num).2.2 content)) := by
  rw [readAll_eq, writeTo_new (r0 bytes num) {} rfl]
  have hg0 : Good (r0 bytes num).src := ⟨rfl, rfl, rfl, Nat.zero_le _⟩
  rcases hinit : init (r0 bytes num) with ⟨r2, e2⟩
  have hspec := init_spec bytes (r0 bytes num) hg0 rfl rfl r2 e2 hinit
  simp only []
  cases e2 with
  | some e =>
    simp only [FrameR.next]
    refine Or.inl ⟨e, rfl, rfl, ?_, ?_⟩
    · intro he F hF
      have := hspec.2 (by rw [he]) F (by simp only [r0]; omega)
      simp only [r0] at this
      have h2 : bytes.extract 0 bytes.size = bytes := by simp
      rw [h2] at this
      exact this
    · intro he
      subst he
      rcases init_eof (r0 bytes num) hg0 rfl r2 hinit with h | h
      · left; exact h.symm
      · right; exact h
  | none =>
    obtain ⟨r1, ⟨s', fl, csz, m, g', d', hr1, hcase⟩, f1, f2, f3, f4, f5, f6, f7, f8⟩ := hspec.1 rfl
    simp only [r0] at hr1 hcase
    rcases hcase with ⟨hm, pm, info, hpm1, hpm2, hfm, hskip, hhdr⟩ | ⟨hm, hfl, hq1, hq2, hq3, hskip⟩
    · -- current format
      right; right
      simp only [FrameR.next, Bool.false_eq_true, if_false]
      have hinv : Inv bytes info { r2 with st := readerStates r2.st } #[] := by
        refine ⟨?_, ?_, ?_, ?_, ?_, ?_, ?_⟩
        · show Good r2.src
          rw [f1, hr1]; exact g'
        · show r2.src.data = bytes
          rw [f1, hr1]; exact d'
        · show r2.magic = frameMagic
          rw [f2, hr1]; exact hm
        · show FlagsMatch r2.flags info
          rw [f3, hr1]; exact hfm
        · intro _ _
          show Proofs.XXH.Inv r2.cks _
          rw [f4, hr1]
          exact Proofs.XXH.inv_reset XXH.zero
        · intro _
          show r2.dict = #[]
          rw [f5, hr1]
        · intro _
          refine ⟨#[], ?_, Or.inl rfl⟩
          show #[] = #[] ++ r2.dict
          rw [f5, hr1]; rfl
      have hpos : r2.src.pos = s'.pos := by rw [f1, hr1]
      have hdat : r2.src.data = bytes := hinv.data
      have hbm : poolSize (blockSizeIndex r2.flags) = info.blockMax := hinv.fm.bmax
      rw [hbm, hdat]
      rcases hloop : writeTo.loop info.blockMax { r2 with st := readerStates r2.st } {} 0 (bytes.size + 4) with
        ⟨r4, sink4, n4, e4⟩
      obtain ⟨content, pe, hreach, hpele, hsink, hne, hend⟩ := loop_spec bytes info s'.pos (bytes.size + 4) _ {} 0 #[] hinv
        (by simp only []; rw [hpos]; exact Reach.start _ _ _) rfl rfl (by omega) r4 sink4 n4 e4 hloop
      refine ⟨pm, s'.pos, info, content, pe, hpm1, hpm2, fun T F hF => hskip T F (by omega), hhdr, hreach, hpele, hsink, hne, ?_⟩
      intro he
      simp only [] at he
      have := hend he
      cases e4 with
      | none => exact this
      | some _ => simp at he
    · right; left
      exact ⟨s'.pos, by omega, hq2, fun T F hF => hskip T F (by omega)⟩

/-! ## assembling `Spec.Frame.decode` on the consumed prefix -/

theorem toList_extract_length (a : Array UInt8) (i j : Nat) (h : j ≤ a.size) :
    (a.extract i j).toList.length = j - i := by
  simp only [Array.length_toList, Array.size_extract]; omega

theorem decode_of_parts (bytes : Array UInt8) (pm h0 pe c : Nat) (info : Spec.Frame.Info) (content : Array UInt8)
    (hpm : 4 ≤ pm) (h1 : pm + 3 ≤ h0)
    (hskip : ∀ T F, pm < F → Spec.Frame.skipToFrame F ((bytes.extract 0 pm).toList ++ T) = .ok T)
    (hhdr : ∀ T, Spec.Frame.header ((bytes.extract pm h0).toList ++ T) false = .ok (info, T))
    (hreach : Reach bytes info h0 pe content) (hend : EndOk bytes info pe c content)
    (hsz : content.size < 2 ^ 64) :
    c ≤ bytes.size ∧ Spec.Frame.decode (bytes.extract 0 c).toList false = .ok ⟨info, content, c⟩ := by
  obtain ⟨hh0, j, hj, hblocks⟩ := hreach
  obtain ⟨he4, hez, hcase⟩ := hend
  have hc : pe + 4 ≤ c ∧ c ≤ bytes.size := by
    rcases hcase with ⟨-, h⟩ | ⟨-, h, h', -⟩ <;> omega
  refine ⟨hc.2, ?_⟩
  have hL : (bytes.extract 0 c).toList = (bytes.extract 0 pm).toList ++ ((bytes.extract pm h0).toList ++
      ((bytes.extract h0 pe).toList ++ ((bytes.extract pe (pe + 4)).toList ++ (bytes.extract (pe + 4) c).toList))) := by
    rw [extract_split bytes 0 pm c (by omega) (by omega), extract_split bytes pm h0 c (by omega) (by omega),
      extract_split bytes h0 pe c (by omega) (by omega), extract_split bytes pe (pe + 4) c (by omega) (by omega)]
    simp only [Array.toList_append]
  have hlen : (bytes.extract 0 c).toList.length = c := by
    rw [toList_extract_length _ _ _ hc.2]; omega
  unfold Spec.Frame.decode
  rw [hlen, hL, hskip _ _ (by omega)]
  simp only [hhdr]
  have hlen2 : ((bytes.extract h0 pe).toList ++ ((bytes.extract pe (pe + 4)).toList ++
      (bytes.extract (pe + 4) c).toList)).length = c - h0 := by
    simp only [List.length_append]
    rw [toList_extract_length _ _ _ (by omega), toList_extract_length _ _ _ (by omega),
      toList_extract_length _ _ _ hc.2]
    omega
  rw [hlen2]
  have hF : c - h0 + 1 = (c - h0 - j) + 1 + j := by omega
  rw [hF, hblocks, blocks_end info _ _ _ content (size_extract_of_le bytes pe 4 he4) hez]
  simp only []
  rcases hcase with ⟨hcc, hpos⟩ | ⟨hcc, hpos, h8, hck⟩
  · simp only [hcc, Bool.false_eq_true, if_false]
    rw [toList_extract_length _ _ _ hc.2]
    have : c - (c - (pe + 4)) = c := by omega
    rw [this]
  · simp only [hcc, if_true]
    have h4 : (bytes.extract (pe + 4) c).size = 4 := by
      simp only [Array.size_extract]; omega
    have := u32_toList (bytes.extract (pe + 4) c) h4 []
    rw [List.append_nil] at this
    rw [this]
    simp only []
    rw [hpos, hck hsz]
    simp

end Lz4V.Proofs.FrameR
