import Lz4V.Proofs.CReaderFrame
/-!
# Proofs.CReaderWriter — `frameOf` is, byte for byte, what the Writer model emits for the same options
and the content given as one chunk
-/
namespace Lz4V.Proofs.CReader
open Lz4V Lz4V.Go Lz4V.Gen Lz4V.Model Lz4V.Model.CReader Lz4V.Model.FrameW
open Lz4V.Proofs.FrameW (initFlags cfgInit reachable sink_write)

theorem push2 (a : Array (Array UInt8)) (x y : Array UInt8) : (a.push x).push y = a ++ #[x, y] := by
  apply Array.ext'; simp

theorem writeBlock_writes (cfg : Cfg) (cks : XXH.State) (src : Array UInt8) :
    ∃ (ws : List (Array UInt8)) (cks' : XXH.State), ∀ sink : Sink, sink.failAt = none →
      writeBlock cfg false cks sink src =
        ({ sink with writes := sink.writes ++ ws.toArray, calls := sink.calls + ws.length }, cks', none) := by
  unfold writeBlock
  simp only [Bool.false_eq_true, if_false, false_or]
  cases hc : compressBlock src (min src.size (poolSize (blockSizeIndex cfg.flags))) cfg.level <;>
    cases hbc : flagBlockChecksum cfg.flags <;>
    simp only [Bool.false_eq_true, not_false_eq_true, not_true_eq_false, if_false, if_true]
  · exact ⟨[le32 (src.size % 2147483648 + 2147483648), src],
      (if flagContentChecksum cfg.flags = true then XXH.write cks src.toList else cks),
      fun sink hfa => by simp only [sink_write, hfa, push2]; rfl⟩
  · exact ⟨[le32 (src.size % 2147483648 + 2147483648), src, le32 (XXH.checksumZero src.toList).toNat],
      (if flagContentChecksum cfg.flags = true then XXH.write cks src.toList else cks),
      fun sink hfa => by simp only [sink_write, hfa, push2]; rfl⟩
  · rename_i d
    exact ⟨[le32 (d.size % 2147483648), d],
      (if flagContentChecksum cfg.flags = true then XXH.write cks src.toList else cks),
      fun sink hfa => by simp only [sink_write, hfa, push2]; rfl⟩
  · rename_i d
    exact ⟨[le32 (d.size % 2147483648), d, le32 (XXH.checksumZero d.toList).toNat],
      (if flagContentChecksum cfg.flags = true then XXH.write cks src.toList else cks),
      fun sink hfa => by simp only [sink_write, hfa, push2]; rfl⟩

theorem writeBlock_bytes (cfg : Cfg) (cks : XXH.State) (src : Array UInt8) (sink : Sink)
    (hfa : sink.failAt = none) :
    ∃ sink', writeBlock cfg false cks sink src = (sink', (blockOut cfg cks src).2, none) ∧
      sink'.failAt = none ∧ sink'.bytes = sink.bytes ++ (blockOut cfg cks src).1 := by
  obtain ⟨ws, cks', h⟩ := writeBlock_writes cfg cks src
  unfold blockOut
  rw [h {} rfl, h sink hfa]
  refine ⟨_, rfl, hfa, ?_⟩
  simp only [Sink.bytes]
  rw [← Array.foldl_toList, ← Array.foldl_toList, ← Array.foldl_toList]
  simp only [Array.toList_append, List.foldl_append, List.nil_append]
  rw [foldl_cat]

/-! ## the Writer, exactly -/

/-- a sequential, non-legacy Writer inside a frame -/
structure WCore (cfg1 : Cfg) (w : W) : Prop where
  cfg : w.cfg = cfg1
  num : cfg1.num = 1
  ml : w.magicLegacy = false
  fa : w.sink.failAt = none
  bsz : w.bufSize = poolSize (blockSizeIndex cfg1.flags)

theorem writeOne_exact {cfg1 : Cfg} (w : W) (src : Array UInt8) (h : WCore cfg1 w) :
    ∃ w', writeOne w src = (w', none) ∧ WCore cfg1 w' ∧ w'.pending = w.pending ∧ w'.st = w.st ∧
      w'.deferred = w.deferred ∧ w'.cks = (blockOut cfg1 w.cks src).2 ∧
      w'.sink.bytes = w.sink.bytes ++ (blockOut cfg1 w.cks src).1 := by
  obtain ⟨sink', hwb, hfa', hb⟩ := writeBlock_bytes cfg1 w.cks src w.sink h.fa
  have hn : w.cfg.num = 1 := by rw [h.cfg]; exact h.num
  unfold writeOne
  rw [if_pos hn, h.cfg, h.ml, hwb]
  exact ⟨_, rfl, ⟨rfl, h.num, rfl, hfa', h.bsz⟩, rfl, rfl, rfl, rfl, hb⟩

/-- what `Close` will still append: the pending bytes as a last block, the end mark, the content checksum -/
def closeBytes (cfg1 : Cfg) (w : W) : Array UInt8 :=
  if w.pending.size > 0 then
    (blockOut cfg1 w.cks w.pending).1 ++ tailArr cfg1 (blockOut cfg1 w.cks w.pending).2
  else tailArr cfg1 w.cks

theorem writeLoop_exact {cfg1 : Cfg} (data : Array UInt8) (hB : 0 < poolSize (blockSizeIndex cfg1.flags))
    (fuel : Nat) : ∀ (w : W) (off n : Nat), WCore cfg1 w → w.pending = #[] → data.size - off < fuel →
    ∃ w' n', writeLoop w data off n fuel = (w', n', none) ∧ WCore cfg1 w' ∧ w'.st = w.st ∧
      w'.deferred = w.deferred ∧
      w'.sink.bytes ++ closeBytes cfg1 w' =
        w.sink.bytes ++ restFrom cfg1 data (poolSize (blockSizeIndex cfg1.flags)) off w.cks := by
  induction fuel with
  | zero => intro w off n _ _ hf; omega
  | succ fuel ih =>
    intro w off n hc hp hf
    have hps : w.pending.size = 0 := by rw [hp]; rfl
    rw [writeLoop]
    by_cases hoff : off ≥ data.size
    · rw [if_pos hoff]
      refine ⟨w, n, rfl, hc, rfl, rfl, ?_⟩
      rw [restFrom_ge _ _ _ _ _ hoff]
      unfold closeBytes
      rw [if_neg (by omega)]
    · rw [if_neg hoff]
      simp only
      by_cases hA : w.cfg.num = 1 ∧ w.pending.size = 0 ∧ data.size - off ≥ w.bufSize
      · rw [if_pos hA]
        obtain ⟨w1, hw1, hc1, hp1, hst1, hd1, hck1, hb1⟩ :=
          writeOne_exact w (data.extract off (off + w.bufSize)) hc
        rw [hw1]
        simp only
        obtain ⟨w', n', hr, hc', hst', hd', hbytes⟩ :=
          ih w1 (off + w.bufSize) (n + w.bufSize) hc1 (by rw [hp1, hp]) (by rw [hc.bsz]; omega)
        refine ⟨w', n', hr, hc', by rw [hst', hst1], by rw [hd', hd1], ?_⟩
        rw [hbytes, hb1, hck1, hc.bsz,
          restFrom_lt cfg1 data (poolSize (blockSizeIndex cfg1.flags)) off w.cks hB (by omega), Array.append_assoc]
      · rw [if_neg hA]
        have hlt : data.size - off < poolSize (blockSizeIndex cfg1.flags) := by
          have hn : w.cfg.num = 1 := by rw [hc.cfg]; exact hc.num
          have := hc.bsz
          by_cases hx : data.size - off ≥ w.bufSize
          · exact absurd ⟨hn, hps, hx⟩ hA
          · omega
        have hm : min (w.bufSize - w.pending.size) (data.size - off) = data.size - off := by
          rw [hps, hc.bsz]; omega
        rw [hm, hp, Array.empty_append]
        have hpe : data.extract off (off + (data.size - off)) =
            data.extract off (off + poolSize (blockSizeIndex cfg1.flags)) := by
          rw [extract_clip _ _ (off + (data.size - off)) (by omega),
            extract_clip _ _ (off + poolSize (blockSizeIndex cfg1.flags)) (by omega)]
        have hsz : (data.extract off (off + (data.size - off))).size = data.size - off := by
          rw [Array.size_extract]; omega
        rw [if_pos (by rw [hsz, hc.bsz]; exact hlt)]
        refine ⟨_, _, rfl, ⟨hc.cfg, hc.num, hc.ml, hc.fa, hc.bsz⟩, rfl, rfl, ?_⟩
        simp only
        unfold closeBytes
        simp only
        rw [if_pos (by rw [hsz]; omega), hpe,
          restFrom_lt cfg1 data (poolSize (blockSizeIndex cfg1.flags)) off w.cks hB (by omega),
          restFrom_ge _ _ _ _ _ (by omega)]

theorem init_exact (w : W) (hp : Proofs.FrameW.Pre w) (hnum : w.cfg.num = 1) :
    ∃ w1, init w = (w1, none) ∧ WCore (cfgInit w.cfg) w1 ∧ w1.pending = #[] ∧ w1.st = w.st ∧
      w1.deferred = none ∧ w1.cks = XXH.reset w.cks ∧ w1.sink.bytes = hdrArr w.cfg := by
  obtain ⟨hst, hnl, hfa, hby, hre⟩ := hp
  rcases w with ⟨⟨fl, cs, lv, nm, lg⟩, st, err, flags, ml, pend, bsz, cks, dfr, sink⟩
  simp only at hst hnl hfa hby hre hnum
  subst hnl
  unfold init
  simp only [Bool.false_eq_true, if_false, sink_write _ _ hfa]
  refine ⟨_, rfl, ⟨rfl, hnum, rfl, hfa, rfl⟩, rfl, rfl, rfl, rfl, ?_⟩
  simp only [Sink.bytes] at hby ⊢
  rw [Array.foldl_push, hby, Array.empty_append]
  rfl

theorem close_exact {cfg1 : Cfg} (w : W) (hc : WCore cfg1 w) (hst : w.st = stWrite) (hd : w.deferred = none) :
    ∃ w', close w = (w', none) ∧ w'.sink.bytes = w.sink.bytes ++ closeBytes cfg1 w := by
  have hne : ¬ (w.st = stClosed) := by rw [hst]; decide
  unfold close
  rw [if_neg hne]
  unfold flush closeBytes
  simp only [hst, if_true]
  by_cases hpos : w.pending.size > 0
  · obtain ⟨w1, hw1, hc1, _, _, hd1, hck1, hb1⟩ := writeOne_exact w w.pending hc
    simp only [if_pos hpos, hw1]
    unfold closeW
    simp only [hd1, hd, hc1.ml, Bool.false_eq_true, if_false, sink_write _ _ hc1.fa, next]
    refine ⟨_, rfl, ?_⟩
    simp only [Sink.bytes]
    rw [Array.foldl_push]
    have hb1' := hb1
    simp only [Sink.bytes] at hb1'
    rw [hb1', hck1, hc1.cfg, Array.append_assoc]
    rfl
  · simp only [if_neg hpos]
    unfold closeW
    simp only [hd, hc.ml, Bool.false_eq_true, if_false, sink_write _ _ hc.fa, next]
    refine ⟨_, rfl, ?_⟩
    simp only [Sink.bytes]
    rw [Array.foldl_push, hc.cfg]
    rfl

/-- one `Write(data)` on a fresh sequential Writer, then `Close`: the sink holds `frameOf` -/
theorem write_close_exact (w : W) (hp : Proofs.FrameW.Pre w) (hnum : w.cfg.num = 1) (hcks : w.cks = XXH.zero)
    (data : Array UInt8) :
    ∃ w1 n w2, write w data = (w1, n, none) ∧ close w1 = (w2, none) ∧ w2.sink.bytes = frameOf w.cfg data := by
  obtain ⟨w1, hi, hc1, hpe1, hst1, hd1, hck1, hb1⟩ := init_exact w hp hnum
  have hrng := Proofs.FrameW.reach_idx_range _ hp.reach
  have hB : 0 < poolSize (blockSizeIndex (cfgInit w.cfg).flags) := by
    show 0 < poolSize (blockSizeIndex (initFlags w.cfg.flags))
    rw [Proofs.FrameW.init_idx _ hp.reach]
    exact (Proofs.FrameW.poolSize_bounds _ hrng.1 hrng.2).1
  have hc2 : WCore (cfgInit w.cfg) { w1 with st := writerStates w1.st } :=
    ⟨hc1.cfg, hc1.num, hc1.ml, hc1.fa, hc1.bsz⟩
  obtain ⟨w', n', hr, hc', hst', hd', hbytes⟩ :=
    writeLoop_exact data hB (data.size + 2) { w1 with st := writerStates w1.st } 0 0 hc2 hpe1 (by omega)
  have hstw : w'.st = stWrite := by
    rw [hst']; show writerStates w1.st = stWrite; rw [hst1, hp.st]; decide
  obtain ⟨w2, hcl, hb2⟩ := close_exact w' hc' hstw (by rw [hd']; exact hd1)
  refine ⟨w', n', w2, ?_, hcl, ?_⟩
  · unfold write
    simp only [hp.st, hi, next, hr, Proofs.FrameW.check_none]
    simp [stNew, stWrite, stClosed, stError]
  · rw [hb2, hbytes]
    show w1.sink.bytes ++ restFrom _ _ _ _ w1.cks = _
    rw [hb1, hck1, hcks]
    rfl


/-! ## the Writer session for the same options -/

theorem writer_apply (opts : List Opt) (data : Array UInt8)
    (happly : (Model.CReader.apply (new (srcOf data)) opts).2 = none) :
    Model.FrameW.apply (FrameW.new none) opts =
      ({ FrameW.reset (FrameW.new none) none with cfg := (startOf data opts).cfg }, none) := by
  have hgo := apply_go_writer opts (FrameW.new none).cfg happly
  have h2 : (Model.CReader.apply.go (FrameW.new none).cfg opts).2 = none := happly
  rw [Proofs.FrameW.apply_new, hgo.1, h2, Proofs.FrameW.check_none]
  rfl

theorem start_num (opts : List Opt) (data : Array UInt8)
    (happly : (Model.CReader.apply (new (srcOf data)) opts).2 = none) :
    (startOf data opts).cfg.num = 1 ∧ (startOf data opts).cfg.legacy = false := by
  have hgo := apply_go_writer opts (FrameW.new none).cfg happly
  exact ⟨hgo.2.1, hgo.2.2⟩

/-- **`frameOf` is the Writer's frame**: for options the compressing reader accepts, the Writer model
(`NewWriter`, `Apply(opts)`, one `Write(data)`, `Close`) reports no error and hands the sink exactly
`frameOf`; its configuration is the reader's -/
theorem writer_bytes (opts : List Opt) (data : Array UInt8)
    (happly : (Model.CReader.apply (new (srcOf data)) opts).2 = none) :
    Run.writtenBytes opts [data] = frameOf (startOf data opts).cfg data ∧
      (Run.writeSession opts [data]).2 = none ∧
      Proofs.FrameW.cfgOf opts = (startOf data opts).cfg := by
  have hap := writer_apply opts data happly
  obtain ⟨hnum, hleg⟩ := start_num opts data happly
  have hpre : Proofs.FrameW.Pre
      ({ FrameW.reset (FrameW.new none) none with cfg := (startOf data opts).cfg } : W) :=
    { st := rfl, nl := hleg, fa := rfl, bytes := rfl, reach := start_reach data opts }
  obtain ⟨w1, n, w2, hw, hcl, hb⟩ := write_close_exact _ hpre hnum rfl data
  have hs : Run.writeSession opts [data] = (w2, none) := by
    simp only [Run.writeSession, hap, Run.writeSession.go, hw, hcl]
  refine ⟨?_, by rw [hs], ?_⟩
  · unfold Run.writtenBytes
    rw [hs]
    exact hb
  · unfold Proofs.FrameW.cfgOf
    rw [hap]

end Lz4V.Proofs.CReader
