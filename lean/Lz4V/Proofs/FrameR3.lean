import Lz4V.Proofs.FrameR2
import Lz4V.Proofs.FrameRRead
import Lz4V.Props.C19
/-!
# Proofs.FrameR3 — completeness of the Reader: whatever `Spec.Frame.decode … false` accepts, the
Reader decodes without error (then soundness, `readAll_cases` / `readWith_eof`, identifies the result).

The forward simulation of `Proofs.FrameR` describes every *successful* step of the Reader in terms of
the specification.  Here the converse is added: the facts the specification established about the bytes
(`blocks_facts`, `header_facts`, …) force the Reader along its success path (`blockRead_ok`,
`uncompress_ok`, `hdrRest_ok`, `closeR_ok`), so no step can fail.
-/
set_option linter.unusedSimpArgs false
namespace Lz4V.Proofs.FrameR
open Lz4V Lz4V.Go Lz4V.Gen Lz4V.Model Lz4V.Model.FrameR Lz4V.Model.FrameW

/-! ## the rest of the input as a list -/

theorem suffix_length (D : Array UInt8) (p : Nat) : (D.extract p D.size).toList.length = D.size - p := by
  simp only [Array.length_toList, Array.size_extract]; omega

theorem suffix_split (D : Array UInt8) (p n : Nat) (h : p + n ≤ D.size) :
    (D.extract p D.size).toList = (D.extract p (p + n)).toList ++ (D.extract (p + n) D.size).toList := by
  rw [← Array.toList_append, ← extract_split D p (p + n) D.size (by omega) h]

theorem u32_suffix (D : Array UInt8) (p w : Nat) (r : List UInt8)
    (h : Spec.Frame.u32 (D.extract p D.size).toList = some (w, r)) :
    p + 4 ≤ D.size ∧ w = u32 (D.extract p (p + 4)) ∧ r = (D.extract (p + 4) D.size).toList := by
  have hl := u32_length _ _ _ h
  rw [suffix_length] at hl
  have h4 : p + 4 ≤ D.size := by omega
  rw [suffix_split D p 4 h4, u32_toList _ (size_extract_of_le D p 4 h4)] at h
  simp only [Option.some.injEq, Prod.mk.injEq] at h
  exact ⟨h4, h.1.symm, h.2.symm⟩

theorem splitN_length (n : Nat) (l : List UInt8) (acc a : Array UInt8) (r : List UInt8)
    (h : Spec.Frame.splitN n l acc = some (a, r)) : n ≤ l.length := by
  induction n generalizing l acc with
  | zero => omega
  | succ n ih =>
    match l with
    | [] => simp [Spec.Frame.splitN] at h
    | b :: l =>
      simp only [Spec.Frame.splitN] at h
      have := ih l _ h
      simp only [List.length_cons]; omega

theorem splitN_suffix (D : Array UInt8) (q n : Nat) (a : Array UInt8) (r : List UInt8) (hq0 : q ≤ D.size)
    (h : Spec.Frame.splitN n (D.extract q D.size).toList #[] = some (a, r)) :
    q + n ≤ D.size ∧ a = D.extract q (q + n) ∧ r = (D.extract (q + n) D.size).toList := by
  have hl := splitN_length _ _ _ _ _ h
  rw [suffix_length] at hl
  by_cases hn : n = 0
  · subst hn
    simp only [Spec.Frame.splitN, Option.some.injEq, Prod.mk.injEq] at h
    refine ⟨by omega, ?_, h.2.symm⟩
    rw [← h.1]; simp; omega
  have hq : q + n ≤ D.size := by omega
  have hsz := size_extract_of_le D q n hq
  have := splitN_toList (D.extract q (q + n)) (D.extract (q + n) D.size).toList #[]
  rw [hsz, ← suffix_split D q n hq, h] at this
  simp only [Option.some.injEq, Prod.mk.injEq, Array.empty_append] at this
  exact ⟨hq, this.1, this.2⟩

theorem dropN_length (n : Nat) (l r : List UInt8) (h : Spec.Frame.dropN n l = some r) : n ≤ l.length := by
  induction n generalizing l with
  | zero => omega
  | succ n ih =>
    match l with
    | [] => simp [Spec.Frame.dropN] at h
    | b :: l =>
      simp only [Spec.Frame.dropN] at h
      have := ih l h
      simp only [List.length_cons]; omega

theorem dropN_suffix (D : Array UInt8) (q n : Nat) (r : List UInt8) (hq0 : q ≤ D.size)
    (h : Spec.Frame.dropN n (D.extract q D.size).toList = some r) :
    q + n ≤ D.size ∧ r = (D.extract (q + n) D.size).toList := by
  have hl := dropN_length _ _ _ h
  rw [suffix_length] at hl
  by_cases hn : n = 0
  · subst hn
    simp only [Spec.Frame.dropN, Option.some.injEq] at h
    exact ⟨by omega, h.symm⟩
  have hq : q + n ≤ D.size := by omega
  have hlen : (D.extract q (q + n)).toList.length = n := by
    rw [Array.length_toList]; exact size_extract_of_le D q n hq
  have := dropN_append (D.extract q (q + n)).toList (D.extract (q + n) D.size).toList
  rw [hlen, ← suffix_split D q n hq, h] at this
  simp only [Option.some.injEq] at this
  exact ⟨hq, this⟩

/-! ## what a successful iteration of `Spec.Frame.blocks` says about the bytes -/

theorem blocks_facts (D : Array UInt8) (info : Spec.Frame.Info) (sf p : Nat) (c0 content : Array UInt8)
    (rest : List UInt8)
    (h : Spec.Frame.blocks info (sf + 1) (D.extract p D.size).toList c0 = .ok (content, rest)) :
    p + 4 ≤ D.size ∧
    ((u32 (D.extract p (p + 4)) = 0 ∧ content = c0 ∧ rest = (D.extract (p + 4) D.size).toList) ∨
     (u32 (D.extract p (p + 4)) ≠ 0 ∧
      u32 (D.extract p (p + 4)) % 2147483648 ≤ info.blockMax ∧
      p + 4 + u32 (D.extract p (p + 4)) % 2147483648 + (if info.blockChecksum = true then 4 else 0) ≤ D.size ∧
      (info.blockChecksum = true →
        u32 (D.extract (p + 4 + u32 (D.extract p (p + 4)) % 2147483648)
          (p + 4 + u32 (D.extract p (p + 4)) % 2147483648 + 4)) =
        Spec.Frame.xxh (D.extract (p + 4) (p + 4 + u32 (D.extract p (p + 4)) % 2147483648))) ∧
      (u32 (D.extract p (p + 4)) < 2147483648 →
        (Spec.Block.decode (D.extract (p + 4) (p + 4 + u32 (D.extract p (p + 4)) % 2147483648)).toList
          (if info.blockIndep = true then [] else (Spec.Frame.lastN c0 65536).toList) info.blockMax).isSome))) := by
  rw [Spec.Frame.blocks] at h
  split at h
  · simp at h
  · rename_i w r1 hw
    obtain ⟨h4, hwv, hr1⟩ := u32_suffix D p w r1 hw
    refine ⟨h4, ?_⟩
    rw [← hwv]
    by_cases hw0 : w = 0
    · simp only [hw0, if_true, Except.ok.injEq, Prod.mk.injEq] at h
      exact Or.inl ⟨hw0, h.1.symm, by rw [← h.2, hr1]⟩
    · right
      simp only [hw0, if_false] at h
      split at h
      · simp at h
      · rename_i hle
        split at h
        · simp at h
        · rename_i payload r2 hsp
          rw [hr1] at hsp
          obtain ⟨hq, hpay, hr2⟩ := splitN_suffix D (p + 4) _ payload r2 h4 hsp
          rw [← hpay]
          refine ⟨hw0, by omega, ?_⟩
          by_cases hb : info.blockChecksum = true
          · simp only [hb, if_true] at h ⊢
            split at h
            · simp at h
            · rename_i r3 hck
              split at hck
              · simp at hck
              · rename_i c r' hu
                rw [hr2] at hu
                obtain ⟨h4', hcv, -⟩ := u32_suffix D _ c r' hu
                split at hck
                · rename_i hceq
                  refine ⟨h4', fun _ => by rw [← hcv]; exact hceq, ?_⟩
                  intro hlt
                  have hraw : ¬ w ≥ 2147483648 := by omega
                  simp only [hraw, decide_false, Bool.false_eq_true, if_false] at h
                  split at h
                  · simp at h
                  · rename_i out hdec
                    rw [hdec]; rfl
                · simp at hck
          · simp only [hb, if_false, Bool.false_eq_true] at h ⊢
            refine ⟨by omega, fun h => h.elim, ?_⟩
            intro hlt
            have hraw : ¬ w ≥ 2147483648 := by omega
            simp only [hraw, decide_false, Bool.false_eq_true, if_false] at h
            split at h
            · simp at h
            · rename_i out hdec
              rw [hdec]; rfl

/-! ## the Reader's success path through one block -/

theorem blockRead_end (r : R) (hl : isLegacy r = false) (hg : Good r.src) (f : Nat)
    (h4 : r.src.pos + 4 ≤ r.src.data.size) (hz : u32 (r.src.data.extract r.src.pos (r.src.pos + 4)) = 0) :
    ∃ s', Good s' ∧ s'.data = r.src.data ∧ s'.pos = r.src.pos + 4 ∧
      blockRead r (f + 1) = ({ r with src := s' }, some .eof) := by
  rw [blockRead_succ]
  have hl1 : ∀ s, isLegacy { r with src := s } = false := fun s => hl
  obtain ⟨s1, g1, d1, p1, e1⟩ := readUint32_ok r.src hg h4
  rw [e1]
  simp only [hz, hl1, Bool.false_eq_true, false_and, if_false, not_false_eq_true, true_and, if_true]
  exact ⟨s1, g1, d1, p1, rfl⟩

theorem blockRead_ok (r : R) (hl : isLegacy r = false) (hg : Good r.src) (f : Nat) (x : Nat)
    (h4 : r.src.pos + 4 ≤ r.src.data.size) (hx : x = u32 (r.src.data.extract r.src.pos (r.src.pos + 4)))
    (hx0 : x ≠ 0) (hcap : x % 2147483648 ≤ poolSize (blockSizeIndex r.flags))
    (hle : r.src.pos + 4 + x % 2147483648 + (if flagBlockChecksum r.flags = true then 4 else 0) ≤ r.src.data.size) :
    ∃ s' c, Good s' ∧ s'.data = r.src.data ∧
      (flagBlockChecksum r.flags = true → c = u32 (r.src.data.extract (r.src.pos + 4 + x % 2147483648)
        (r.src.pos + 4 + x % 2147483648 + 4))) ∧
      blockRead r (f + 1) = ({ r with src := s', bSize := x, bData := r.src.data.extract (r.src.pos + 4) (r.src.pos + 4 + x % 2147483648), bChecksum := c }, none) := by
  rw [blockRead_succ]
  have hl1 : ∀ s, isLegacy { r with src := s } = false := fun s => hl
  obtain ⟨s1, g1, d1, p1, e1⟩ := readUint32_ok r.src hg h4
  rw [e1]
  simp only []
  rw [← hx]
  have hl2 : ∀ s y, isLegacy { r with src := s, bSize := y } = false := fun s y => hl
  have hcap' : ¬ x % 2147483648 > poolSize (blockSizeIndex r.flags) := by omega
  simp only [hl1, hl2, Bool.false_eq_true, false_and, if_false, not_false_eq_true, true_and, hx0, hcap']
  have hp : s1.pos + x % 2147483648 ≤ s1.data.size := by
    rw [d1, p1]; split at hle <;> omega
  obtain ⟨s2, g2, d2, p2, e2⟩ := readFull_ok s1 g1 _ hp
  rw [e2]
  simp only []
  by_cases hbc : flagBlockChecksum r.flags = true
  · simp only [hbc, if_true] at hle ⊢
    have hc : s2.pos + 4 ≤ s2.data.size := by rw [d2, d1, p2, p1]; omega
    obtain ⟨s3, g3, d3, p3, e3⟩ := readUint32_ok s2 g2 hc
    rw [e3]
    simp only []
    refine ⟨s3, _, g3, by rw [d3, d2, d1], fun _ => rfl, ?_⟩
    rw [d2, d1, p2, p1]
  · simp only [hbc, if_false, Bool.false_eq_true]
    refine ⟨s2, r.bChecksum, g2, by rw [d2, d1], fun h => h.elim, ?_⟩
    rw [d1, p1]

theorem uncompress_ok (r : R) (cap : Nat) (hcap : cap < 2 ^ 63) (hP : r.bSize < 2147483648 → r.bData.size ≠ 0)
    (hle : r.bData.size ≤ cap)
    (hck : flagBlockChecksum r.flags = true → (XXH.checksumZero r.bData.toList).toNat = r.bChecksum)
    (hdec : r.bSize < 2147483648 →
      (Spec.Block.decode r.bData.toList (if isLegacy r = true then #[] else r.dict).toList cap).isSome) :
    ∃ dst, uncompress r cap = (withCks r dst, some dst, none) := by
  rcases uncompress_spec r cap hcap hP hle with ⟨e, hu, hne⟩ | ⟨dst, -, -, hu⟩
  · exfalso
    unfold uncompress at hu
    have hck' : ¬ (flagBlockChecksum r.flags = true ∧ (XXH.checksumZero r.bData.toList).toNat ≠ r.bChecksum) :=
      fun h => h.2 (hck h.1)
    rw [if_neg hck'] at hu
    by_cases hraw : r.bSize ≥ 2147483648
    · simp only [hraw, if_true] at hu
      simp at hu
    · simp only [hraw, if_false] at hu
      rw [uncompressBlock_eq _ _ _ (hP (by omega)) hcap] at hu
      have := hdec (by omega)
      cases hd : Spec.Block.decode r.bData.toList (if isLegacy r = true then #[] else r.dict).toList cap with
      | none => rw [hd] at this; simp at this
      | some dst => rw [hd] at hu; simp at hu
  · exact ⟨dst, hu⟩

/-- under the specification's verdict on the block at the cursor, `readBlock` does not fail -/
theorem readBlock_noerr (D : Array UInt8) (info : Spec.Frame.Info) (r : R) (c0 : Array UInt8) (want : Nat)
    (hinv : Inv D info r c0) (h4 : r.src.pos + 4 ≤ D.size)
    (hx0 : u32 (D.extract r.src.pos (r.src.pos + 4)) ≠ 0)
    (hcap : u32 (D.extract r.src.pos (r.src.pos + 4)) % 2147483648 ≤ info.blockMax)
    (hle : r.src.pos + 4 + u32 (D.extract r.src.pos (r.src.pos + 4)) % 2147483648 +
      (if info.blockChecksum = true then 4 else 0) ≤ D.size)
    (hck : info.blockChecksum = true →
        u32 (D.extract (r.src.pos + 4 + u32 (D.extract r.src.pos (r.src.pos + 4)) % 2147483648)
          (r.src.pos + 4 + u32 (D.extract r.src.pos (r.src.pos + 4)) % 2147483648 + 4)) =
        Spec.Frame.xxh (D.extract (r.src.pos + 4) (r.src.pos + 4 + u32 (D.extract r.src.pos (r.src.pos + 4)) % 2147483648)))
    (hdec : u32 (D.extract r.src.pos (r.src.pos + 4)) < 2147483648 →
        (Spec.Block.decode (D.extract (r.src.pos + 4) (r.src.pos + 4 + u32 (D.extract r.src.pos (r.src.pos + 4)) % 2147483648)).toList
          (if info.blockIndep = true then [] else (Spec.Frame.lastN c0 65536).toList) info.blockMax).isSome) :
    (readBlock r want).2.2 = none := by
  obtain ⟨hg, hd, hmag, hfm, hcks, hdI, hdD⟩ := hinv
  subst hd
  generalize hxv : u32 (r.src.data.extract r.src.pos (r.src.pos + 4)) = x at *
  have hbm : poolSize (blockSizeIndex r.flags) = info.blockMax := hfm.bmax
  have hble := hfm.bmax_le
  have hleg := isLegacy_of_magic r hmag
  rw [readBlock_eq]
  obtain ⟨s1, c, g1, d1, hc, h1⟩ := blockRead_ok r hleg hg (r.src.data.size + 1) x h4 hxv.symm hx0
    (by rw [hbm]; exact hcap) (by rw [hfm.bck]; exact hle)
  rw [h1]
  simp only [hbm]
  have hPsz : (r.src.data.extract (r.src.pos + 4) (r.src.pos + 4 + x % 2147483648)).size = x % 2147483648 :=
    size_extract_of_le _ _ _ (by split at hle <;> omega)
  obtain ⟨dst, hu⟩ := uncompress_ok { r with src := s1, bSize := x, bData := r.src.data.extract (r.src.pos + 4) (r.src.pos + 4 + x % 2147483648), bChecksum := c }
    info.blockMax (by omega) (by simp only []; rw [hPsz]; omega) (by simp only []; rw [hPsz]; exact hcap)
    (by
      simp only []
      intro hb
      rw [hc hb, xxh_eq]
      exact (hck (by rw [← hfm.bck]; exact hb)).symm)
    (by
      intro hlt
      have hleg1 : isLegacy { r with src := s1, bSize := x, bData := r.src.data.extract (r.src.pos + 4) (r.src.pos + 4 + x % 2147483648), bChecksum := c } = false :=
        isLegacy_of_magic _ hmag
      simp only [hleg1, Bool.false_eq_true, if_false]
      have hd := hdec hlt
      by_cases hin : info.blockIndep = true
      · simp only [hin, if_true] at hd
        rw [hdI hin]
        exact hd
      · simp only [hin, if_false, Bool.false_eq_true] at hd
        obtain ⟨pre, hpre, hp⟩ := hdD (by simpa using hin)
        rw [decode_lastN, hpre, decode_suffix _ _ _ _ hp] at hd
        exact hd)
  rw [hu]
  simp only []
  split <;> rfl

/-- one iteration, complete: the Reader's `readBlock` follows the specification's `blocks` -/
theorem readBlock_complete (D : Array UInt8) (info : Spec.Frame.Info) (r : R) (c0 : Array UInt8) (want sf : Nat)
    (content : Array UInt8) (rest : List UInt8) (hinv : Inv D info r c0)
    (hs : Spec.Frame.blocks info sf (D.extract r.src.pos D.size).toList c0 = .ok (content, rest)) :
    (∃ s', Good s' ∧ s'.data = D ∧ r.src.pos + 4 ≤ D.size ∧ u32 (D.extract r.src.pos (r.src.pos + 4)) = 0 ∧
      s'.pos = r.src.pos + 4 ∧ readBlock r want = ({ r with src := s' }, #[], some .eof) ∧
      content = c0 ∧ rest = (D.extract (r.src.pos + 4) D.size).toList) ∨
    (∃ r' dst sf', Inv D info r' (c0 ++ dst) ∧ r.src.pos + 4 ≤ r'.src.pos ∧ r'.src.pos ≤ D.size ∧
      (∀ T F, Spec.Frame.blocks info (F + 1) ((D.extract r.src.pos r'.src.pos).toList ++ T) c0 =
        Spec.Frame.blocks info F T (c0 ++ dst)) ∧
      Spec.Frame.blocks info sf' (D.extract r'.src.pos D.size).toList (c0 ++ dst) = .ok (content, rest) ∧
      r'.idx = r.idx ∧ r'.st = r.st ∧ r'.num = r.num ∧ r'.err = r.err ∧
      ((info.blockMax ≤ want ∧ readBlock r want = (r', dst, none) ∧
          r'.data = (if dst.size = 0 then #[] else r.data)) ∨
       (want < info.blockMax ∧ readBlock r want = (r', #[], none) ∧ r'.data = dst))) := by
  cases sf with
  | zero => simp [Spec.Frame.blocks] at hs
  | succ sf =>
    obtain ⟨h4, hcase⟩ := blocks_facts D info sf r.src.pos c0 content rest hs
    rcases hcase with ⟨hz, hc, hr⟩ | ⟨hx0, hcap, hle, hck, hdec⟩
    · left
      have hd := hinv.data
      subst hd
      obtain ⟨s1, g1, d1, p1, e1⟩ := blockRead_end r (isLegacy_of_magic r hinv.magic) hinv.good (r.src.data.size + 1) h4 hz
      refine ⟨s1, g1, d1, h4, hz, p1, ?_, hc, hr⟩
      rw [readBlock_eq, e1]
    · right
      have hne := readBlock_noerr D info r c0 want hinv h4 hx0 hcap hle hck hdec
      rcases readBlock_spec D info r c0 want hinv with
        ⟨r1, e1, h1, -⟩ | ⟨s1, -, -, -, -, -, h1⟩ | ⟨r1, dst, hinv1, hp, hple, hstep, a1, a2, a3, a4, hdel⟩
      · rw [h1] at hne; simp at hne
      · rw [h1] at hne; simp at hne
      · refine ⟨r1, dst, sf, hinv1, hp, hple, hstep, ?_, a1, a2, a3, a4, hdel⟩
        rw [← hstep]
        rw [← Array.toList_append, ← extract_split D r.src.pos r1.src.pos D.size (by omega) hple]
        exact hs

/-! ## `closeR` accepts the content checksum the specification checked -/

theorem closeR_ok (D : Array UInt8) (info : Spec.Frame.Info) (r : R) (content : Array UInt8)
    (hinv : Inv D info r content) (hsz : content.size < 2 ^ 64)
    (hck : info.contentChecksum = true → ∃ cw r', Spec.Frame.u32 (D.extract r.src.pos D.size).toList = some (cw, r') ∧
      cw = Spec.Frame.xxh content) :
    ∃ r', closeR r = (r', none) := by
  obtain ⟨hg, hd, hmag, hfm, hcks, hdI, hdD⟩ := hinv
  subst hd
  unfold closeR
  simp only [isLegacy_of_magic r hmag, Bool.false_eq_true, if_false]
  by_cases hcc0 : ¬ flagContentChecksum r.flags = true
  · simp only [hcc0, not_false_eq_true, if_true]
    exact ⟨r, rfl⟩
  have hcc : flagContentChecksum r.flags = true := Classical.not_not.mp hcc0
  simp only [hcc, not_true_eq_false, if_false]
  have hcc' : info.contentChecksum = true := by rw [← hfm.cck]; exact hcc
  obtain ⟨cw, r', hu, hcw⟩ := hck hcc'
  obtain ⟨h4, hcv, -⟩ := u32_suffix _ _ _ _ hu
  obtain ⟨s1, g1, d1, p1, e1⟩ := readUint32_ok r.src hg h4
  rw [e1]
  simp only []
  have hi := hcks hcc' hsz
  have := Proofs.XXH.sum32_of_inv _ _ (by simpa using hsz) hi
  rw [this, xxh_eq, ← hcv, hcw]
  simp only [ne_eq, not_true_eq_false, if_false]
  exact ⟨_, rfl⟩

/-! ## the specification's verdict on the whole block sequence, seen from a reachable position -/

theorem Reach.spec {D : Array UInt8} {info : Spec.Frame.Info} {h0 p : Nat} {c' : Array UInt8}
    (h : Reach D info h0 p c') (hp : p ≤ D.size) (content : Array UInt8) (rest : List UInt8)
    (hg : Spec.Frame.blocks info (D.size - h0 + 1) (D.extract h0 D.size).toList #[] = .ok (content, rest)) :
    ∃ sf, Spec.Frame.blocks info sf (D.extract p D.size).toList c' = .ok (content, rest) := by
  obtain ⟨h1, j, hj, hb⟩ := h
  refine ⟨D.size - h0 + 1 - j, ?_⟩
  rw [← hb]
  have hF : D.size - h0 + 1 - j + j = D.size - h0 + 1 := by omega
  rw [hF, ← Array.toList_append, ← extract_split D h0 p D.size h1 hp]
  exact hg

theorem Inv.pos_le {D : Array UInt8} {info : Spec.Frame.Info} {r : R} {c : Array UInt8}
    (h : Inv D info r c) : r.src.pos ≤ D.size := by
  have := h.good.pos
  rw [h.data] at this
  exact this

/-! ## `WriteTo`: no error on a frame the specification accepts -/

theorem loop_noerr (D : Array UInt8) (info : Spec.Frame.Info) (h0 : Nat) (content : Array UInt8) (rest : List UInt8)
    (hglob : Spec.Frame.blocks info (D.size - h0 + 1) (D.extract h0 D.size).toList #[] = .ok (content, rest))
    (hsz : content.size < 2 ^ 64)
    (hck : info.contentChecksum = true → ∃ cw r', Spec.Frame.u32 rest = some (cw, r') ∧ cw = Spec.Frame.xxh content)
    (mf : Nat) :
    ∀ (r : R) (sink : Sink) (n : Nat) (c0 : Array UInt8), Inv D info r c0 → Reach D info h0 r.src.pos c0 →
      sink.failAt = none → (writeTo.loop info.blockMax r sink n mf).2.2.2 = none := by
  induction mf with
  | zero => intro r sink n c0 _ _ _; rfl
  | succ mf ih =>
    intro r sink n c0 hinv hreach hsf
    rw [loop_succ]
    obtain ⟨sf, hs⟩ := hreach.spec hinv.pos_le content rest hglob
    rcases readBlock_complete D info r c0 info.blockMax sf content rest hinv hs with
      ⟨s1, g1, d1, h4, hz, p1, h1, hc, hr⟩ | ⟨r1, dst, sf', hinv1, hp, hple, hstep, hs', -, -, -, -, hdel⟩
    · rw [h1]
      simp only []
      have hinv2 : Inv D info { r with src := s1, data := r.data } content := by
        rw [hc]; exact (hinv.with_src s1 g1 d1).of_fields rfl rfl rfl rfl rfl
      obtain ⟨r2, h2⟩ := closeR_ok D info _ content hinv2 hsz (by
        intro hcc
        simp only []
        rw [p1, ← hr]
        exact hck hcc)
      rw [h2]
    · have h1 : readBlock r info.blockMax = (r1, dst, none) := by
        rcases hdel with ⟨-, h1, -⟩ | ⟨hlt, -, -⟩
        · exact h1
        · omega
      rw [h1]
      simp only [sink_write sink hsf]
      have hinv2 : Inv D info { r1 with data := r.data } (c0 ++ dst) := hinv1.of_fields rfl rfl rfl rfl rfl
      exact ih _ _ _ (c0 ++ dst) hinv2 (hreach.step hp hstep) hsf

/-! ## the frame descriptor -/

theorem u32_inv (l : List UInt8) (w : Nat) (r : List UInt8) (h : Spec.Frame.u32 l = some (w, r)) :
    ∃ a b c d, l = a :: b :: c :: d :: r := by
  match l, h with
  | a :: b :: c :: d :: r', h =>
    simp only [Spec.Frame.u32, Option.some.injEq, Prod.mk.injEq] at h
    exact ⟨a, b, c, d, by rw [h.2]⟩

/-- shape of a byte string whose descriptor the (lenient) specification accepts -/
theorem header_facts (L : List UInt8) (info : Spec.Frame.Info) (T2 : List UInt8)
    (h : Spec.Frame.header L false = .ok (info, T2)) :
    ∃ x y, (y.toNat / 16 % 8 = 4 ∨ y.toNat / 16 % 8 = 5 ∨ y.toNat / 16 % 8 = 6 ∨ y.toNat / 16 % 8 = 7) ∧
      ((¬ x.toNat / 8 % 2 = 1 ∧ ∃ z, L = x :: y :: z :: T2 ∧
          z.toNat = (Spec.XXH32.xxh32 [x, y]).toNat / 256 % 256) ∨
       (x.toNat / 8 % 2 = 1 ∧ ∃ z s0 t1 t2 t3 t4 t5 t6 t7, L = x :: y :: z :: s0 :: t1 :: t2 :: t3 :: t4 :: t5 :: t6 :: t7 :: T2 ∧
          t7.toNat = (Spec.XXH32.xxh32 [x, y, z, s0, t1, t2, t3, t4, t5, t6]).toNat / 256 % 256)) := by
  match L, h with
  | [], h => simp [Spec.Frame.header] at h
  | [_], h => simp [Spec.Frame.header] at h
  | x :: y :: r, h =>
    refine ⟨x, y, ?_⟩
    simp only [Spec.Frame.header] at h
    by_cases hs : x.toNat / 8 % 2 = 1
    · simp only [hs, if_true] at h
      cases hu : Spec.Frame.u64 r with
      | none => rw [hu] at h; simp at h
      | some v =>
        obtain ⟨v, r'⟩ := v
        rw [hu] at h
        simp only [Option.map_some] at h
        unfold Spec.Frame.u64 at hu
        cases hu1 : Spec.Frame.u32 r with
        | none => rw [hu1] at hu; simp at hu
        | some w1 =>
          obtain ⟨lo, ra⟩ := w1
          rw [hu1] at hu
          simp only [] at hu
          cases hu2 : Spec.Frame.u32 ra with
          | none => rw [hu2] at hu; simp at hu
          | some w2 =>
            obtain ⟨hi, rb⟩ := w2
            rw [hu2] at hu
            simp only [Option.some.injEq, Prod.mk.injEq] at hu
            obtain ⟨z, s0, t1, t2, e1⟩ := u32_inv _ _ _ hu1
            obtain ⟨t3, t4, t5, t6, e2⟩ := u32_inv _ _ _ hu2
            subst e1 e2
            obtain ⟨-, rfl⟩ := hu
            match rb, h with
            | [], h => simp at h
            | t7 :: rest, h =>
              simp only [List.take_succ_cons, List.take_zero] at h
              by_cases hc : t7.toNat = (Spec.XXH32.xxh32 [x, y, z, s0, t1, t2, t3, t4, t5, t6]).toNat / 256 % 256
              case neg => simp [hc] at h
              simp only [hc, ne_eq, not_true_eq_false, if_false] at h
              cases hb : Spec.Frame.blockMaxOf (y.toNat / 16 % 8) with
              | none => rw [hb] at h; simp at h
              | some bm =>
                rw [hb] at h
                simp only [Bool.false_eq_true, false_and, if_false, Except.ok.injEq, Prod.mk.injEq] at h
                refine ⟨?_, Or.inr ⟨hs, z, s0, t1, t2, t3, t4, t5, t6, t7, by rw [h.2], hc⟩⟩
                by_cases hv : (y.toNat / 16 % 8 = 4 ∨ y.toNat / 16 % 8 = 5 ∨ y.toNat / 16 % 8 = 6 ∨ y.toNat / 16 % 8 = 7)
                · exact hv
                · rw [Props.C19.blockMaxOf_none _ hv] at hb; simp at hb
    · simp only [hs, if_false] at h
      match r, h with
      | [], h => simp at h
      | z :: rest, h =>
        simp only [] at h
        by_cases hc : z.toNat = (Spec.XXH32.xxh32 [x, y]).toNat / 256 % 256
        case neg => simp [hc] at h
        simp only [hc, ne_eq, not_true_eq_false, if_false] at h
        cases hb : Spec.Frame.blockMaxOf (y.toNat / 16 % 8) with
        | none => rw [hb] at h; simp at h
        | some bm =>
          rw [hb] at h
          simp only [Bool.false_eq_true, false_and, if_false, Except.ok.injEq, Prod.mk.injEq] at h
          refine ⟨?_, Or.inl ⟨hs, z, by rw [h.2], hc⟩⟩
          by_cases hv : (y.toNat / 16 % 8 = 4 ∨ y.toNat / 16 % 8 = 5 ∨ y.toNat / 16 % 8 = 6 ∨ y.toNat / 16 % 8 = 7)
          · exact hv
          · rw [Props.C19.blockMaxOf_none _ hv] at hb; simp at hb

theorem extract_of_suffix (D : Array UInt8) (p : Nat) (l T : List UInt8) (hp : p ≤ D.size)
    (h : (D.extract p D.size).toList = l ++ T) :
    p + l.length ≤ D.size ∧ D.extract p (p + l.length) = l.toArray ∧ T = (D.extract (p + l.length) D.size).toList := by
  have hlen := congrArg List.length h
  rw [suffix_length, List.length_append] at hlen
  have hq : p + l.length ≤ D.size := by omega
  rw [suffix_split D p l.length hq] at h
  have := List.append_inj h (by rw [Array.length_toList]; exact size_extract_of_le D p _ hq)
  refine ⟨hq, ?_, this.2.symm⟩
  apply Array.ext'
  rw [this.1]

theorem hdrRest_noerr (r : R) (hg : Good r.src) (info : Spec.Frame.Info) (T2 : List UInt8)
    (h : Spec.Frame.header (r.src.data.extract r.src.pos r.src.data.size).toList false = .ok (info, T2)) :
    (hdrRest r).2 = none := by
  obtain ⟨x, y, hv, hcase⟩ := header_facts _ info T2 h
  unfold hdrRest
  rcases hcase with ⟨hs, z, hL, hc⟩ | ⟨hs, z, s0, t1, t2, t3, t4, t5, t6, t7, hL, hc⟩
  · obtain ⟨h3, hb, -⟩ := extract_of_suffix _ _ [x, y, z] T2 hg.pos hL
    obtain ⟨s1, g1, d1, p1, e1⟩ := readFull_ok r.src hg 3 h3
    rw [e1]
    simp only []
    have hb' : r.src.data.extract r.src.pos (r.src.pos + 3) = #[x, y, z] := hb
    rw [hb']
    have hx : (#[x, y, z] : Array UInt8)[0]! = x := rfl
    have hy : (#[x, y, z] : Array UInt8)[1]! = y := rfl
    rw [hx, hy]
    have hfs : ¬ flagSize (Nat.toUInt16 (x.toNat + 256 * y.toNat)) = true := by
      rw [fl_size]; simpa using hs
    simp only [hfs, if_false, Bool.false_eq_true]
    have hck : (#[x, y, z] : Array UInt8)[(#[x, y, z] : Array UInt8).size - 1]! = z := rfl
    have hbody : ((#[x, y, z] : Array UInt8).extract 0 ((#[x, y, z] : Array UInt8).size - 1)).toList
        = [x, y] := rfl
    rw [hck, hbody, Props.C13.oneshot]
    have hc' : ¬ z.toNat ≠ (Spec.XXH32.xxh32 [x, y]).toNat / 256 % 256 := by simpa using hc
    rw [if_neg hc', fl_idx]
    have hi : ¬ ¬ (y.toNat / 16 % 8 = 4 ∨ y.toNat / 16 % 8 = 5 ∨ y.toNat / 16 % 8 = 6 ∨ y.toNat / 16 % 8 = 7) :=
      fun h => h hv
    rw [if_neg hi]
  · obtain ⟨h11, hb, -⟩ := extract_of_suffix _ _ [x, y, z, s0, t1, t2, t3, t4, t5, t6, t7] T2 hg.pos hL
    have h11' : r.src.pos + 11 ≤ r.src.data.size := h11
    obtain ⟨s1, g1, d1, p1, e1⟩ := readFull_ok r.src hg 3 (by omega)
    rw [e1]
    simp only []
    have hb3 : r.src.data.extract r.src.pos (r.src.pos + 3) = #[x, y, z] := by
      have : r.src.data.extract r.src.pos (r.src.pos + 3) =
          (r.src.data.extract r.src.pos (r.src.pos + 11)).extract 0 3 := by
        rw [Array.extract_extract]; congr 1; omega
      rw [this]
      have hb' : r.src.data.extract r.src.pos (r.src.pos + 11) = #[x, y, z, s0, t1, t2, t3, t4, t5, t6, t7] := hb
      rw [hb']; rfl
    rw [hb3]
    have hx : (#[x, y, z] : Array UInt8)[0]! = x := rfl
    have hy : (#[x, y, z] : Array UInt8)[1]! = y := rfl
    rw [hx, hy]
    have hfs : flagSize (Nat.toUInt16 (x.toNat + 256 * y.toNat)) = true := by
      rw [fl_size]; simpa using hs
    simp only [hfs, if_true]
    obtain ⟨s2, g2, d2, p2, e2⟩ := readFull_ok s1 g1 8 (by rw [d1, p1]; omega)
    rw [e2]
    simp only []
    have hb8 : s1.data.extract s1.pos (s1.pos + 8) = #[s0, t1, t2, t3, t4, t5, t6, t7] := by
      rw [d1, p1]
      have : r.src.data.extract (r.src.pos + 3) (r.src.pos + 3 + 8) =
          (r.src.data.extract r.src.pos (r.src.pos + 11)).extract 3 11 := by
        rw [Array.extract_extract]; congr 1; omega
      rw [this]
      have hb' : r.src.data.extract r.src.pos (r.src.pos + 11) = #[x, y, z, s0, t1, t2, t3, t4, t5, t6, t7] := hb
      rw [hb']; rfl
    rw [hb8]
    have hbuf : (#[x, y, z] ++ #[s0, t1, t2, t3, t4, t5, t6, t7] : Array UInt8)
        = #[x, y, z, s0, t1, t2, t3, t4, t5, t6, t7] := rfl
    rw [hbuf]
    have hck : (#[x, y, z, s0, t1, t2, t3, t4, t5, t6, t7] : Array UInt8)[
        (#[x, y, z, s0, t1, t2, t3, t4, t5, t6, t7] : Array UInt8).size - 1]! = t7 := rfl
    have hbody : ((#[x, y, z, s0, t1, t2, t3, t4, t5, t6, t7] : Array UInt8).extract 0
        ((#[x, y, z, s0, t1, t2, t3, t4, t5, t6, t7] : Array UInt8).size - 1)).toList
        = [x, y, z, s0, t1, t2, t3, t4, t5, t6] := rfl
    rw [hck, hbody, Props.C13.oneshot]
    have hc' : ¬ t7.toNat ≠ (Spec.XXH32.xxh32 [x, y, z, s0, t1, t2, t3, t4, t5, t6]).toNat / 256 % 256 := by
      simpa using hc
    rw [if_neg hc', fl_idx]
    have hi : ¬ ¬ (y.toNat / 16 % 8 = 4 ∨ y.toNat / 16 % 8 = 5 ∨ y.toNat / 16 % 8 = 6 ∨ y.toNat / 16 % 8 = 7) :=
      fun h => h hv
    rw [if_neg hi]

theorem parseHeaders_noerr (D : Array UInt8) (info : Spec.Frame.Info) (T1 T2 : List UInt8)
    (hh : Spec.Frame.header T1 false = .ok (info, T2)) (sf : Nat) :
    ∀ (r : R) (mf : Nat), Good r.src → r.src.data = D → r.magic = 0 → D.size - r.src.pos < mf →
      Spec.Frame.skipToFrame sf (D.extract r.src.pos D.size).toList = .ok T1 →
      (parseHeaders r mf).2 = none := by
  induction sf with
  | zero => intro r mf _ _ _ _ hs; simp [Spec.Frame.skipToFrame] at hs
  | succ sf ih =>
    intro r mf hg hd hm hf hs
    cases mf with
    | zero => omega
    | succ mf =>
    rw [parseHeaders_succ]
    simp only [hm, gt_iff_lt, Nat.lt_irrefl, if_false]
    subst hd
    rw [Spec.Frame.skipToFrame] at hs
    split at hs
    · simp at hs
    · rename_i m r1 hw
      obtain ⟨h4, hmv, hr1⟩ := u32_suffix _ _ m r1 hw
      obtain ⟨s1, g1, d1, p1, e1⟩ := readUint32_ok r.src hg h4
      rw [e1]
      simp only []
      rw [← hmv]
      by_cases hm1 : m = Spec.Frame.magic
      · simp only [hm1, if_true, Except.ok.injEq] at hs
        have hm1' : m = frameMagic := hm1
        have hm2' : ¬ frameMagic = frameMagicLegacy := by decide
        simp only [hm1', true_or, if_true, hm2', if_false]
        apply hdrRest_noerr _ g1 info T2
        simp only []
        rw [d1, p1, ← hr1, hs]
        exact hh
      · simp only [hm1, if_false] at hs
        by_cases hsk : Spec.Frame.skipLo ≤ m ∧ m ≤ Spec.Frame.skipHi
        · simp only [hsk, and_self, if_true] at hs
          have hm1' : ¬ m = frameMagic := hm1
          have hm2 : ¬ m = frameMagicLegacy := by
            intro h; rw [h] at hsk; revert hsk; decide
          have hsk' := (skipMagic_iff m).mpr hsk
          simp only [hm1', hm2, or_self, if_false, hsk', if_true]
          split at hs
          · simp at hs
          · rename_i n r2 hw2
            rw [hr1] at hw2
            obtain ⟨h8, hnv, hr2⟩ := u32_suffix _ _ n r2 hw2
            split at hs
            · simp at hs
            · rename_i r3 hdn
              rw [hr2] at hdn
              obtain ⟨hq, hr3⟩ := dropN_suffix _ _ n r3 h8 hdn
              unfold skipRest
              simp only []
              obtain ⟨s2, g2, d2, p2, e2⟩ := readUint32_ok s1 g1 (by rw [d1, p1]; omega)
              rw [e2]
              simp only []
              have hn : u32 (s1.data.extract s1.pos (s1.pos + 4)) = n := by rw [d1, p1, hnv]
              rw [hn]
              obtain ⟨s3, g3, d3, p3, e3⟩ := discardN_ok s2 g2 n (n + 1) (by omega) (by rw [d2, d1, p2, p1]; omega)
              rw [e3]
              simp only []
              have hD3 : s3.data = r.src.data := by rw [d3, d2, d1]
              have hpos3 : s3.pos = r.src.pos + 4 + 4 + n := by omega
              apply ih { r with src := s3, magic := 0 } mf g3 hD3 rfl
              · simp only []; omega
              · simp only []
                rw [hpos3, ← hr3]
                exact hs
        · simp [hsk] at hs

/-! ## from `Spec.Frame.decode … = .ok` to a started Reader -/

/-- `decode_inv` with the content checksum comparison kept -/
theorem decode_inv' (L : List UInt8) (info : Spec.Frame.Info) (content : Array UInt8) (n : Nat)
    (h : Spec.Frame.decode L false = .ok ⟨info, content, n⟩) :
    ∃ T1 T2 rest, Spec.Frame.skipToFrame (L.length + 1) L = .ok T1 ∧
      Spec.Frame.header T1 false = .ok (info, T2) ∧
      Spec.Frame.blocks info (T2.length + 1) T2 #[] = .ok (content, rest) ∧
      (info.contentChecksum = true → ∃ c r', Spec.Frame.u32 rest = some (c, r') ∧ c = Spec.Frame.xxh content) ∧
      ((info.contentChecksum = false ∧ n = L.length - rest.length) ∨
       (info.contentChecksum = true ∧ ∃ c r', Spec.Frame.u32 rest = some (c, r') ∧ n = L.length - r'.length)) := by
  unfold Spec.Frame.decode at h
  split at h
  · simp at h
  · rename_i T1 h1
    split at h
    · simp at h
    · rename_i info' T2 h2
      split at h
      · simp at h
      · rename_i content' rest h3
        by_cases hcc : info'.contentChecksum = true
        · simp only [hcc, if_true] at h
          split at h
          · simp at h
          · rename_i c r' h4
            split at h
            · rename_i hceq
              simp only [Except.ok.injEq, Spec.Frame.Result.mk.injEq] at h
              obtain ⟨rfl, rfl, rfl⟩ := h
              exact ⟨T1, T2, rest, h1, h2, h3, fun _ => ⟨c, r', h4, hceq⟩, Or.inr ⟨hcc, c, r', h4, rfl⟩⟩
            · simp at h
        · simp only [hcc, if_false, Bool.false_eq_true, Except.ok.injEq, Spec.Frame.Result.mk.injEq] at h
          obtain ⟨rfl, rfl, rfl⟩ := h
          exact ⟨T1, T2, rest, h1, h2, h3, fun h => absurd h hcc, Or.inl ⟨by simpa using hcc, rfl⟩⟩

theorem extract_all (F : Array UInt8) : F.extract 0 F.size = F := by simp

/-- a frame the specification accepts: `Reader.init` succeeds and leaves the Reader at the first block,
with the specification's verdict on the block sequence available from there -/
theorem init_complete (F : Array UInt8) (info : Spec.Frame.Info) (content : Array UInt8) (c num : Nat)
    (hF : Spec.Frame.decode F.toList false = .ok ⟨info, content, c⟩) :
    ∃ r2 h0 rest, init (r0 F num) = (r2, none) ∧ r2.st = stNew ∧ r2.idx = 0 ∧ r2.src.pos = h0 ∧
      Inv F info { r2 with st := readerStates r2.st } #[] ∧
      Spec.Frame.blocks info (F.size - h0 + 1) (F.extract h0 F.size).toList #[] = .ok (content, rest) ∧
      (info.contentChecksum = true → ∃ cw r', Spec.Frame.u32 rest = some (cw, r') ∧ cw = Spec.Frame.xxh content) := by
  obtain ⟨T1, T2, rest, hd1, hd2, hd3, hd4, -⟩ := decode_inv' F.toList info content c hF
  rw [Array.length_toList] at hd1
  have hg0 : Good (r0 F num).src := ⟨rfl, rfl, rfl, Nat.zero_le _⟩
  have hph : (parseHeaders (r0 F num) ((r0 F num).src.data.size + 2)).2 = none :=
    parseHeaders_noerr F info T1 T2 hd2 (F.size + 1) (r0 F num) _ hg0 rfl rfl (by simp only [r0]; omega)
      (by simp only [r0]; rw [extract_all]; exact hd1)
  rcases hinit : init (r0 F num) with ⟨r2, e2⟩
  have he2 : e2 = none := by
    rw [init_eq] at hinit
    rcases hp : parseHeaders (r0 F num) ((r0 F num).src.data.size + 2) with ⟨r1, e1⟩
    rw [hp] at hinit hph
    simp only [] at hph
    subst hph
    simp only [Prod.mk.injEq] at hinit
    exact hinit.2.symm
  subst he2
  have hspec := init_spec F (r0 F num) hg0 rfl rfl r2 none hinit
  obtain ⟨r1, ⟨s', fl, csz, m, g', d', hr1, hcase⟩, f1, f2, f3, f4, f5, f6, f7, f8⟩ := hspec.1 rfl
  simp only [r0] at hr1 hcase
  rcases hcase with ⟨hm, pm, info', hpm1, hpm2, hfm, hskip, hhdr⟩ | ⟨hm, hfl, hq1, hq2, hq3, hskip⟩
  · have hs'le : s'.pos ≤ F.size := by have := g'.pos; rw [d'] at this; exact this
    have e1 := hskip (F.extract pm F.size).toList (F.size + 1) (by omega)
    rw [← toList_split' F pm (by omega), hd1] at e1
    have hT1 : T1 = (F.extract pm F.size).toList := by simpa using e1
    have e2 := hhdr (F.extract s'.pos F.size).toList
    rw [← Array.toList_append, ← extract_split F pm s'.pos F.size (by omega) hs'le, ← hT1, hd2] at e2
    simp only [Except.ok.injEq, Prod.mk.injEq] at e2
    obtain ⟨hinfo, hT2⟩ := e2
    subst hinfo
    have hT2len : T2.length = F.size - s'.pos := by rw [hT2, suffix_length]
    have hpos : r2.src.pos = s'.pos := by rw [f1, hr1]
    refine ⟨r2, s'.pos, rest, rfl, by rw [f6, hr1], f7, hpos, ?_, ?_, hd4⟩
    · refine ⟨?_, ?_, ?_, ?_, ?_, ?_, ?_⟩
      · show Good r2.src
        rw [f1, hr1]; exact g'
      · show r2.src.data = F
        rw [f1, hr1]; exact d'
      · show r2.magic = frameMagic
        rw [f2, hr1]; exact hm
      · show FlagsMatch r2.flags info
        rw [f3, hr1]; exact hfm
      · intro _ _
        show Proofs.XXH.Inv r2.cks _
        rw [f4, hr1]
        exact Proofs.XXH.inv_reset XXH.zero
      · intro _
        show r2.dict = #[]
        rw [f5, hr1]
      · intro _
        refine ⟨#[], ?_, Or.inl rfl⟩
        show #[] = #[] ++ r2.dict
        rw [f5, hr1]; rfl
    · rw [← hT2len, ← hT2]; exact hd3
  · exfalso
    have := hskip (F.extract s'.pos F.size).toList (F.size + 1) (by omega)
    rw [← toList_split' F s'.pos hq2, hd1] at this
    simp at this

/-- WriteTo on a frame the specification accepts ends without error -/
theorem readAll_noerr (F : Array UInt8) (info : Spec.Frame.Info) (content : Array UInt8) (c num : Nat)
    (hF : Spec.Frame.decode F.toList false = .ok ⟨info, content, c⟩) (hsz : content.size < 2 ^ 64) :
    (Run.readAll F num).2.1 = none := by
  obtain ⟨r2, h0, rest, hinit, hst, hidx, hpos, hinv, hglob, hck⟩ := init_complete F info content c num hF
  rw [readAll_eq, writeTo_new (r0 F num) {} rfl, hinit]
  simp only [FrameR.next, Bool.false_eq_true, if_false]
  have hbm : poolSize (blockSizeIndex r2.flags) = info.blockMax := hinv.fm.bmax
  rw [hbm]
  have := loop_noerr F info h0 content rest hglob hsz hck (r2.src.data.size + 4) { r2 with st := readerStates r2.st } {} 0 #[]
    hinv (by simp only []; rw [hpos]; exact Reach.start _ _ _) rfl
  rcases hl : writeTo.loop info.blockMax { r2 with st := readerStates r2.st } {} 0 (r2.src.data.size + 4) with ⟨r4, sink4, n4, e4⟩
  rw [hl] at this
  exact this

/-- identification of a clean Reader end (`Reach` + `EndOk`, from the soundness lemmas) with the
specification's decoding of the whole input -/
theorem end_unique (F : Array UInt8) (info : Spec.Frame.Info) (content : Array UInt8) (c : Nat)
    (hF : Spec.Frame.decode F.toList false = .ok ⟨info, content, c⟩)
    (pm h0 pe pos : Nat) (info' : Spec.Frame.Info) (content' : Array UInt8) (hpm : 4 ≤ pm) (hh0 : pm + 3 ≤ h0)
    (hskip : ∀ T G, pm < G → Spec.Frame.skipToFrame G ((F.extract 0 pm).toList ++ T) = .ok T)
    (hhdr : ∀ T, Spec.Frame.header ((F.extract pm h0).toList ++ T) false = .ok (info', T))
    (hreach : Reach F info' h0 pe content') (hend : EndOk F info' pe pos content') :
    content' = content ∧ pos = c := by
  obtain ⟨T1, T2, rest, hd1, hd2, hd3, -, hd5⟩ := decode_inv' F.toList info content c hF
  rw [Array.length_toList] at hd1 hd5
  obtain ⟨he4, hez, hcase⟩ := hend
  have hpele : pe ≤ F.size := by omega
  have hh0pe := hreach.1
  have e1 := hskip (F.extract pm F.size).toList (F.size + 1) (by omega)
  rw [← toList_split' F pm (by omega), hd1] at e1
  have hT1 : T1 = (F.extract pm F.size).toList := by simpa using e1
  have e2 := hhdr (F.extract h0 F.size).toList
  rw [← Array.toList_append, ← extract_split F pm h0 F.size (by omega) (by omega), ← hT1, hd2] at e2
  simp only [Except.ok.injEq, Prod.mk.injEq] at e2
  obtain ⟨hinfo, hT2⟩ := e2
  subst hinfo
  have hT2len : T2.length = F.size - h0 := by rw [hT2, suffix_length]
  rw [hT2len, hT2] at hd3
  obtain ⟨sf, e3⟩ := hreach.spec hpele content rest hd3
  cases sf with
  | zero => simp [Spec.Frame.blocks] at e3
  | succ sf =>
    obtain ⟨-, hc⟩ := blocks_facts F info sf pe content' content rest e3
    rcases hc with ⟨-, hcc, hrest⟩ | ⟨hx0, -⟩
    · refine ⟨hcc.symm, ?_⟩
      have hrl : rest.length = F.size - (pe + 4) := by rw [hrest, suffix_length]
      rcases hcase with ⟨hck, hpos⟩ | ⟨hck, hpos, h8, -⟩
      · rcases hd5 with ⟨-, hn⟩ | ⟨hck', -⟩
        · omega
        · rw [hck] at hck'; simp at hck'
      · rcases hd5 with ⟨hck', -⟩ | ⟨-, cw, r', hu, hn⟩
        · rw [hck] at hck'; simp at hck'
        · have := u32_length rest cw r' hu
          omega
    · exact absurd hez hx0

/-- COMPLETENESS through WriteTo -/
theorem readAll_complete (F : Array UInt8) (info : Spec.Frame.Info) (content : Array UInt8) (c num : Nat)
    (hF : Spec.Frame.decode F.toList false = .ok ⟨info, content, c⟩) (hsz : content.size < 2 ^ 64) :
    Run.readAll F num = (content, none, c) := by
  have hne := readAll_noerr F info content c num hF hsz
  obtain ⟨T1, T2, rest, hd1, -, -, -, -⟩ := decode_inv' F.toList info content c hF
  rw [Array.length_toList] at hd1
  rcases readAll_cases F num with ⟨e, -, he, -, -⟩ | ⟨p, hp4, hp, hbad⟩ |
    ⟨pm, h0, info', content', pe, hpm, hh0, hskip, hhdr, hreach, hpele, hout, -, hend⟩
  · rw [hne] at he; simp at he
  · exfalso
    have := hbad (F.extract p F.size).toList (F.size + 1) (by omega)
    rw [← toList_split' F p hp, hd1] at this
    simp at this
  · obtain ⟨h1, h2⟩ := end_unique F info content c hF pm h0 pe _ info' content' hpm hh0 hskip hhdr hreach (hend hne)
    rcases hr : Run.readAll F num with ⟨o, e, q⟩
    rw [hr] at hne hout h2
    simp only [] at hne hout h2
    rw [hne, hout, h2, h1]

/-! ## `Read`: no error other than `io.EOF`, and what was delivered is a prefix of the content -/

theorem readLoop_noerr (D : Array UInt8) (info : Spec.Frame.Info) (h0 : Nat) (content : Array UInt8) (rest : List UInt8)
    (hglob : Spec.Frame.blocks info (D.size - h0 + 1) (D.extract h0 D.size).toList #[] = .ok (content, rest))
    (hsz : content.size < 2 ^ 64)
    (hck : info.contentChecksum = true → ∃ cw r', Spec.Frame.u32 rest = some (cw, r') ∧ cw = Spec.Frame.xxh content)
    (want mf : Nat) :
    ∀ (r : R) (out c0 : Array UInt8), Inv D info r c0 → Reach D info h0 r.src.pos c0 →
      (readLoop r want out mf).2.2 = none ∨ (readLoop r want out mf).2.2 = some .eof := by
  induction mf with
  | zero => intro r out c0 _ _; left; rfl
  | succ mf ih =>
    intro r out c0 hinv hreach
    rw [readLoop_succ]
    by_cases hsz' : out.size ≥ want
    · simp only [hsz', if_true]; left; trivial
    simp only [hsz', if_false]
    have hsz0 : ¬ (#[] : Array UInt8).size > 0 := by simp
    by_cases hi0 : r.idx = 0
    · rw [if_pos hi0]
      obtain ⟨sf, hs⟩ := hreach.spec hinv.pos_le content rest hglob
      rcases readBlock_complete D info r c0 (want - out.size) sf content rest hinv hs with
        ⟨s1, g1, d1, h4, hz, p1, h1, hc, hr⟩ | ⟨r1, dst, sf', hinv1, hp, hple, hstep, hs', a1, a2, a3, a4, hdel⟩
      · rw [h1]
        simp only []
        have hinv2 : Inv D info { r with src := s1 } content := by
          rw [hc]; exact hinv.with_src s1 g1 d1
        obtain ⟨r2, h2⟩ := closeR_ok D info _ content hinv2 hsz (by
          intro hcc
          simp only []
          rw [p1, ← hr]
          exact hck hcc)
        rw [h2]
        simp only [if_true]
        right; trivial
      · have hreach1 : Reach D info h0 r1.src.pos (c0 ++ dst) := hreach.step hp hstep
        rcases hdel with ⟨-, h1, hdata⟩ | ⟨-, h1, hdata⟩
        · rw [h1]
          simp only [Bool.false_eq_true, if_false]
          by_cases hd : dst.size > 0
          · simp only [hd, if_true]
            exact ih r1 _ (c0 ++ dst) hinv1 hreach1
          · simp only [hd, if_false]
            exact ih _ _ (c0 ++ dst) (hinv1.of_fields rfl rfl rfl rfl rfl) hreach1
        · rw [h1]
          simp only [Bool.false_eq_true, if_false, hsz0]
          exact ih _ _ (c0 ++ dst) (hinv1.of_fields rfl rfl rfl rfl rfl) hreach1
    · rw [if_neg hi0]
      simp only [Bool.false_eq_true, if_false, hsz0]
      exact ih _ _ c0 (hinv.of_fields rfl rfl rfl rfl rfl) hreach

theorem go_noerr (D : Array UInt8) (info : Spec.Frame.Info) (h0 : Nat) (content : Array UInt8) (rest : List UInt8)
    (hglob : Spec.Frame.blocks info (D.size - h0 + 1) (D.extract h0 D.size).toList #[] = .ok (content, rest))
    (hsz : content.size < 2 ^ 64)
    (hck : info.contentChecksum = true → ∃ cw r', Spec.Frame.u32 rest = some (cw, r') ∧ cw = Spec.Frame.xxh content)
    (sizes : List Nat) :
    ∀ (r : R) (del : Array UInt8), SInv D info h0 r del →
      (Run.readWith.go r del sizes).2.1 = none ∨ (Run.readWith.go r del sizes).2.1 = some .eof := by
  induction sizes with
  | nil => intro r del _; left; rfl
  | cons n ns ih =>
    intro r del hs
    obtain ⟨c0, hinv, hreach, hc, hidx, hst⟩ := hs
    rw [go_cons, read_stRead r n hst]
    rcases hl : readLoop r n #[] (r.src.data.size + n + 4) with ⟨r', out', e⟩
    have hne := readLoop_noerr D info h0 content rest hglob hsz hck n (r.src.data.size + n + 4) r #[] c0 hinv hreach
    rw [hl] at hne
    simp only [] at hne ⊢
    have hspec := readLoop_spec D info h0 n del _ r #[] c0 hinv hreach (by rw [hc]; simp) hidx r' out' e hl
    rcases hne with rfl | rfl
    · simp only [check_none]
      obtain ⟨c', a1, a2, a3, a4, a5⟩ := hspec.1 rfl
      exact ih r' (del ++ out') ⟨c', a1, a2, a3, a4, by rw [a5, hst]⟩
    · right; trivial

/-- a `Read` session that has not reported anything yet: the bytes delivered are the beginning of what
the Reader decoded -/
theorem go_none (D : Array UInt8) (info : Spec.Frame.Info) (h0 : Nat) (sizes : List Nat) :
    ∀ (r : R) (del : Array UInt8), SInv D info h0 r del → ∀ out c,
      Run.readWith.go r del sizes = (out, none, c) → ∃ r', SInv D info h0 r' out := by
  induction sizes with
  | nil =>
    intro r del hs out c h
    rw [go_nil] at h
    simp only [Prod.mk.injEq] at h
    rw [← h.1]
    exact ⟨r, hs⟩
  | cons n ns ih =>
    intro r del hs out c h
    obtain ⟨c0, hinv, hreach, hc, hidx, hst⟩ := hs
    rw [go_cons, read_stRead r n hst] at h
    rcases hl : readLoop r n #[] (r.src.data.size + n + 4) with ⟨r', out', e⟩
    rw [hl] at h
    simp only [] at h
    have hspec := readLoop_spec D info h0 n del _ r #[] c0 hinv hreach (by rw [hc]; simp) hidx r' out' e hl
    cases e with
    | none =>
      simp only [check_none] at h
      obtain ⟨c', a1, a2, a3, a4, a5⟩ := hspec.1 rfl
      exact ih r' (del ++ out') ⟨c', a1, a2, a3, a4, by rw [a5, hst]⟩ out c h
    | some e => simp at h

theorem prefix_of_append (out pd content : Array UInt8) (h : out ++ pd = content.extract 0 (out ++ pd).size) :
    out = content.extract 0 out.size := by
  have h2 : out = (out ++ pd).extract 0 out.size := by simp
  have e2 : min (0 + out.size) (out.size + pd.size) = out.size := by omega
  conv => lhs; rw [h2, h]
  simp only [Array.size_append, Array.extract_extract, e2, Nat.add_zero]

/-- the first `Read` of a session on an accepted frame starts the Reader -/
theorem readWith_start (F : Array UInt8) (info : Spec.Frame.Info) (content : Array UInt8) (c num : Nat)
    (hF : Spec.Frame.decode F.toList false = .ok ⟨info, content, c⟩) (n : Nat) (ns : List Nat) :
    ∃ r h0 rest, Run.readWith F (n :: ns) num = Run.readWith.go r #[] (n :: ns) ∧ SInv F info h0 r #[] ∧
      Spec.Frame.blocks info (F.size - h0 + 1) (F.extract h0 F.size).toList #[] = .ok (content, rest) ∧
      (info.contentChecksum = true → ∃ cw r', Spec.Frame.u32 rest = some (cw, r') ∧ cw = Spec.Frame.xxh content) := by
  obtain ⟨r2, h0, rest, hinit, hst, hidx, hpos, hinv, hglob, hck⟩ := init_complete F info content c num hF
  refine ⟨{ r2 with st := readerStates r2.st }, h0, rest, ?_, ?_, hglob, hck⟩
  · rw [readWith_eq, go_cons, go_cons, read_stNew_ok _ _ rfl r2 hinit hst]
  · refine ⟨#[], hinv, by simp only []; rw [hpos]; exact Reach.start _ _ _, ?_, Or.inl hidx, ?_⟩
    · rw [pending_zero { r2 with st := readerStates r2.st } hidx]; rfl
    · show readerStates r2.st = stRead
      rw [hst]; decide

/-- COMPLETENESS through Read -/
theorem readWith_complete (F : Array UInt8) (info : Spec.Frame.Info) (content : Array UInt8) (c num : Nat)
    (sizes : List Nat) (out : Array UInt8) (e : Option Err) (c' : Nat)
    (hF : Spec.Frame.decode F.toList false = .ok ⟨info, content, c⟩) (hsz : content.size < 2 ^ 64)
    (hrun : Run.readWith F sizes num = (out, e, c')) :
    (e = some .eof → out = content ∧ c' = c) ∧ (e = none → out = content.extract 0 out.size) ∧
    (e = some .eof ∨ e = none) := by
  refine ⟨?_, ?_, ?_⟩
  · intro he
    subst he
    obtain ⟨T1, T2, rest, hd1, -, -, -, -⟩ := decode_inv' F.toList info content c hF
    rw [Array.length_toList] at hd1
    rcases readWith_eof F sizes num out c' hrun with htr | ⟨p, hp4, hp, hbad⟩ |
      ⟨pm, h0, info', pe, hpm, hh0, hskip, hhdr, hreach, hend⟩
    · rw [htr _ (by omega)] at hd1; simp at hd1
    · exfalso
      have := hbad (F.extract p F.size).toList (F.size + 1) (by omega)
      rw [← toList_split' F p hp, hd1] at this
      simp at this
    · exact end_unique F info content c hF pm h0 pe c' info' out hpm hh0 hskip hhdr hreach hend
  · intro he
    subst he
    cases sizes with
    | nil =>
      rw [readWith_eq, go_nil] at hrun
      simp only [Prod.mk.injEq] at hrun
      rw [← hrun.1]; simp
    | cons n ns =>
      obtain ⟨r, h0, rest, hgo, hs, hglob, -⟩ := readWith_start F info content c num hF n ns
      rw [hgo] at hrun
      obtain ⟨r', c1, hinv1, hreach1, hc1, -, -⟩ := go_none F info h0 (n :: ns) r #[] hs out c' hrun
      obtain ⟨sf, hs1⟩ := hreach1.spec hinv1.pos_le content rest hglob
      have := blocks_prefix info _ _ c1 content rest hs1
      rw [hc1] at this
      exact prefix_of_append _ _ _ this
  · cases sizes with
    | nil =>
      rw [readWith_eq, go_nil] at hrun
      simp only [Prod.mk.injEq] at hrun
      right; exact hrun.2.1.symm
    | cons n ns =>
      obtain ⟨r, h0, rest, hgo, hs, hglob, hck⟩ := readWith_start F info content c num hF n ns
      rw [hgo] at hrun
      have := go_noerr F info h0 content rest hglob hsz hck (n :: ns) r #[] hs
      rw [hrun] at this
      simp only [] at this
      rcases this with h | h
      · right; exact h
      · left; exact h

/-! ## the strict header grammar only adds checks -/

theorem header_strict_lenient (L : List UInt8) (x : Spec.Frame.Info × List UInt8)
    (h : Spec.Frame.header L true = .ok x) : Spec.Frame.header L false = .ok x := by
  match L, h with
  | [], h => simp [Spec.Frame.header] at h
  | [_], h => simp [Spec.Frame.header] at h
  | flg :: bd :: r, h =>
    simp only [Spec.Frame.header] at h ⊢
    generalize (if flg.toNat / 8 % 2 = 1 then Option.map (fun x : Nat × List UInt8 => (some x.fst, x.snd)) (Spec.Frame.u64 r) else some (none, r)) = o at h ⊢
    cases o with
    | none => simp at h
    | some v =>
      obtain ⟨csz, r'⟩ := v
      cases r' with
      | nil => simp at h
      | cons hc rest =>
        simp only [] at h ⊢
        generalize (Spec.XXH32.xxh32 (flg :: bd :: if flg.toNat / 8 % 2 = 1 then List.take 8 r else [])).toNat / 256 % 256 = E at h ⊢
        by_cases hck : hc.toNat = E
        case neg => simp [hck] at h
        simp only [hck, ne_eq, not_true_eq_false, if_false] at h ⊢
        cases hb : Spec.Frame.blockMaxOf (bd.toNat / 16 % 8) with
        | none => rw [hb] at h; simp at h
        | some bm =>
          rw [hb] at h
          simp only [true_and, Bool.false_eq_true, false_and, if_false] at h ⊢
          by_cases h1 : ¬ flg.toNat / 64 = 1
          · rw [if_pos h1] at h; simp at h
          rw [if_neg h1] at h
          by_cases h2 : (flg.toNat / 2 % 2 = 1 ∨ bd.toNat / 128 = 1 ∨ ¬ bd.toNat % 16 = 0)
          · rw [if_pos h2] at h; simp at h
          rw [if_neg h2] at h
          by_cases h3 : flg.toNat % 2 = 1
          · rw [if_pos h3] at h; simp at h
          rw [if_neg h3] at h
          exact h

theorem decode_strict_lenient (b : List UInt8) (r : Spec.Frame.Result)
    (h : Spec.Frame.decode b true = .ok r) : Spec.Frame.decode b false = .ok r := by
  unfold Spec.Frame.decode at h ⊢
  split at h
  · simp at h
  · rename_i T1 h1
    split at h
    · simp at h
    · rename_i info T2 h2
      rw [header_strict_lenient _ _ h2]
      exact h

end Lz4V.Proofs.FrameR

