import Lz4V.Proofs.CReader
/-!
# Proofs.CReaderInv — the overflow writer neither loses nor reorders bytes: what the calls of a
session deliver is exactly what the frame encoder produces (C18 (3), (5))
-/
namespace Lz4V.Proofs.CReader
open Lz4V Lz4V.Go Lz4V.Gen Lz4V.Model Lz4V.Model.CReader Lz4V.Model.FrameW
open Lz4V.Proofs.FrameW (initFlags cfgInit reachable)

/-! ## the overflow writer keeps the byte order -/

/-- the caller's buffer is never over-full, and the overflow is used only once the buffer is full -/
def OVI (want : Nat) (out ov : Array UInt8) : Prop := out.size ≤ want ∧ (0 < ov.size → out.size = want)

theorem ovWrite_cat (want : Nat) (out ov p : Array UInt8) (h : OVI want out ov) :
    OVI want (ovWrite want out ov p).1 (ovWrite want out ov p).2 ∧
      (ovWrite want out ov p).1 ++ (ovWrite want out ov p).2 = out ++ ov ++ p := by
  obtain ⟨h1, h2⟩ := h
  unfold ovWrite
  simp only
  by_cases hov : 0 < ov.size
  · have hw := h2 hov
    have hk : min (want - out.size) p.size = 0 := by omega
    rw [hk]
    have he : p.extract 0 0 = #[] := by simp
    rw [he, Array.append_empty]
    by_cases hp : 0 < p.size
    · rw [if_pos hp]
      have : p.extract 0 p.size = p := by simp
      rw [this]
      refine ⟨⟨h1, fun _ => hw⟩, by rw [Array.append_assoc]⟩
    · rw [if_neg hp]
      have : p = #[] := Array.eq_empty_of_size_eq_zero (by omega)
      rw [this, Array.append_empty]
      exact ⟨⟨h1, h2⟩, rfl⟩
  · have hov' : ov = #[] := Array.eq_empty_of_size_eq_zero (by omega)
    subst hov'
    generalize hk : min (want - out.size) p.size = k
    have hks : (p.extract 0 k).size = k := by rw [Array.size_extract]; omega
    by_cases hp : k < p.size
    · rw [if_pos hp]
      refine ⟨⟨?_, fun _ => ?_⟩, ?_⟩
      · rw [Array.size_append, hks]; omega
      · rw [Array.size_append, hks]; omega
      · rw [Array.empty_append, Array.append_empty, Array.append_assoc, Array.extract_append_extract]
        have : p.extract (min 0 k) (max k p.size) = p := by
          rw [Nat.zero_min, Nat.max_eq_right (by omega)]; simp
        rw [this]
    · rw [if_neg hp]
      have : p.extract 0 k = p := by
        have : k = p.size := by omega
        rw [this]; simp
      rw [this]
      refine ⟨⟨?_, fun h0 => ?_⟩, by simp⟩
      · rw [Array.size_append]; omega
      · simp at h0

theorem foldl_cat (ws : List (Array UInt8)) : ∀ a : Array UInt8,
    ws.foldl (· ++ ·) a = a ++ ws.foldl (· ++ ·) #[] := by
  induction ws with
  | nil => intro a; simp
  | cons w ws ih =>
    intro a
    simp only [List.foldl_cons, Array.empty_append]
    rw [ih (a ++ w), ih w, Array.append_assoc]

theorem foldOv_cat (want : Nat) (ws : List (Array UInt8)) : ∀ (x : Array UInt8 × Array UInt8), OVI want x.1 x.2 →
    OVI want (ws.foldl (ovStep want) x).1 (ws.foldl (ovStep want) x).2 ∧
      (ws.foldl (ovStep want) x).1 ++ (ws.foldl (ovStep want) x).2 = x.1 ++ x.2 ++ ws.foldl (· ++ ·) #[] := by
  induction ws with
  | nil => intro x h; exact ⟨h, by simp⟩
  | cons w ws ih =>
    intro x h
    have h1 := ovWrite_cat want x.1 x.2 w h
    have h2 := ih (ovStep want x w) h1.1
    simp only [List.foldl_cons, Array.empty_append]
    refine ⟨h2.1, ?_⟩
    rw [h2.2, foldl_cat ws w, ← Array.append_assoc]
    show (ovWrite want x.1 x.2 w).1 ++ (ovWrite want x.1 x.2 w).2 ++ _ = _
    rw [h1.2]

/-- the bytes of one data block and the content checksum state after it -/
def blockOut (cfg1 : Cfg) (cks : XXH.State) (src : Array UInt8) : Array UInt8 × XXH.State :=
  ((writeBlock cfg1 false cks {} src).1.bytes, (writeBlock cfg1 false cks {} src).2.1)

theorem emitBlock_cat (c : CR) (want : Nat) (out data : Array UInt8) (h : OVI want out c.ov) :
    OVI want (emitBlock c want out data).2 (emitBlock c want out data).1.ov ∧
      (emitBlock c want out data).2 ++ (emitBlock c want out data).1.ov =
        out ++ c.ov ++ (blockOut c.cfg c.cks data).1 ∧
      (emitBlock c want out data).1 =
        { c with cks := (blockOut c.cfg c.cks data).2, ov := (emitBlock c want out data).1.ov } := by
  rw [emitBlock_eq, ← Array.foldl_toList]
  have := foldOv_cat want (writeBlock c.cfg false c.cks {} data).1.writes.toList (out, c.ov) h
  refine ⟨this.1, ?_, rfl⟩
  rw [this.2, Array.foldl_toList]
  rfl

/-! ## `io.ReadFull` on a whole-read, never-failing source -/

structure GoodSrc (s : Source) : Prop where
  chunk : s.chunk = 0
  fa : s.failAt = none
  ewd : s.eofWithData = false

theorem readFull_loop_succ (want : Nat) (s : Source) (acc : Array UInt8) (fuel : Nat) :
    readFull.loop want s acc (fuel + 1) =
      if acc.size ≥ want then (s, acc, none) else
      let r := s.read (want - acc.size)
      match r.2.2 with
      | none =>
        if r.2.1.size = 0 then (r.1, acc ++ r.2.1, some .unexpectedEOF) else readFull.loop want r.1 (acc ++ r.2.1) fuel
      | some err =>
        if (acc ++ r.2.1).size ≥ want then (r.1, acc ++ r.2.1, none)
        else if err = .eof ∧ (acc ++ r.2.1).size > 0 then (r.1, acc ++ r.2.1, some .unexpectedEOF)
        else (r.1, acc ++ r.2.1, some err) := rfl

theorem read_good (s : Source) (want : Nat) (hg : GoodSrc s) (hw : 0 < want) :
    s.read want =
      if s.data.size - s.pos = 0 then ({ s with calls := s.calls + 1 }, #[], some .eof)
      else ({ s with calls := s.calls + 1, pos := s.pos + min want (s.data.size - s.pos) },
        s.data.extract s.pos (s.pos + min want (s.data.size - s.pos)), none) := by
  obtain ⟨hc, hf, he⟩ := hg
  unfold Source.read
  rw [hf]
  simp only [Source.read.go, hc, he, if_true]
  rw [if_neg (by omega)]
  split
  · rfl
  · simp

theorem extract_clip (a : Array UInt8) (i j : Nat) (h : a.size ≤ j) : a.extract i j = a.extract i a.size := by
  apply Array.ext
  · simp only [Array.size_extract]; omega
  · intro k h1 h2
    simp only [Array.getElem_extract]

/-- enough data for a whole block -/
theorem readFull_full (s : Source) (B : Nat) (hg : GoodSrc s) (hB : 0 < B) (h : B ≤ s.data.size - s.pos) :
    ∃ s', readFull s B = (s', s.data.extract s.pos (s.pos + B), none) ∧ GoodSrc s' ∧ s'.data = s.data ∧
      s'.pos = s.pos + B := by
  obtain ⟨n, rfl⟩ : ∃ n, B = n + 1 := ⟨B - 1, by omega⟩
  unfold readFull
  rw [readFull_loop_succ, if_neg (by simp)]
  simp only [Array.size_empty, Nat.sub_zero, Array.empty_append]
  rw [read_good s (n + 1) hg hB, if_neg (by omega)]
  have hm : min (n + 1) (s.data.size - s.pos) = n + 1 := by omega
  simp only [hm]
  rw [if_neg (by rw [Array.size_extract]; omega), readFull_loop_succ, if_pos (by rw [Array.size_extract]; omega)]
  exact ⟨_, rfl, ⟨hg.chunk, hg.fa, hg.ewd⟩, rfl, rfl⟩

/-- nothing left: `io.EOF` and no bytes -/
theorem readFull_eof (s : Source) (B : Nat) (hg : GoodSrc s) (hB : 0 < B) (h : s.data.size - s.pos = 0) :
    ∃ s', readFull s B = (s', #[], some .eof) ∧ GoodSrc s' ∧ s'.data = s.data := by
  obtain ⟨n, rfl⟩ : ∃ n, B = n + 1 := ⟨B - 1, by omega⟩
  unfold readFull
  rw [readFull_loop_succ, if_neg (by simp)]
  simp only [Array.size_empty, Nat.sub_zero, Array.empty_append]
  rw [read_good s (n + 1) hg hB, if_pos h]
  simp only
  rw [if_neg (by simp), if_neg (by simp)]
  exact ⟨_, rfl, ⟨hg.chunk, hg.fa, hg.ewd⟩, rfl⟩

/-- a last, short block: the bytes and `io.ErrUnexpectedEOF` -/
theorem readFull_part (s : Source) (B : Nat) (hg : GoodSrc s) (h0 : 0 < s.data.size - s.pos)
    (h : s.data.size - s.pos < B) :
    ∃ s', readFull s B = (s', s.data.extract s.pos (s.pos + B), some .unexpectedEOF) ∧ GoodSrc s' ∧
      s'.data = s.data := by
  obtain ⟨n, rfl⟩ : ∃ n, B = n + 1 := ⟨B - 1, by omega⟩
  unfold readFull
  rw [readFull_loop_succ, if_neg (by simp)]
  simp only [Array.size_empty, Nat.sub_zero, Array.empty_append]
  rw [read_good s (n + 1) hg (by omega), if_neg (by omega)]
  have hm : min (n + 1) (s.data.size - s.pos) = s.data.size - s.pos := by omega
  simp only [hm]
  have hsz : (s.data.extract s.pos (s.pos + (s.data.size - s.pos))).size = s.data.size - s.pos := by
    rw [Array.size_extract]; omega
  rw [if_neg (by omega), readFull_loop_succ, if_neg (by omega)]
  have hg' : GoodSrc { s with calls := s.calls + 1, pos := s.pos + (s.data.size - s.pos) } :=
    ⟨hg.chunk, hg.fa, hg.ewd⟩
  rw [read_good _ _ hg' (by omega), if_pos (by simp only; omega)]
  simp only [Array.append_empty]
  rw [if_neg (by omega), if_pos ⟨trivial, by omega⟩]
  refine ⟨{ s with calls := s.calls + 1 + 1, pos := s.pos + (s.data.size - s.pos) }, ?_, ⟨hg.chunk, hg.fa, hg.ewd⟩, rfl⟩
  rw [extract_clip _ _ (s.pos + (n + 1)) (by omega), extract_clip _ _ (s.pos + (s.data.size - s.pos)) (by omega)]

/-! ## the bytes the encoder still has to produce -/

/-- data blocks from offset `off` on (one per `B`-sized slice, the last one possibly short, none for an
empty rest), then the end mark and the content checksum -/
def encRest (cfg1 : Cfg) (data : Array UInt8) (B : Nat) : Nat → Nat → XXH.State → Array UInt8
  | 0, _, cks => tailArr cfg1 cks
  | fuel+1, off, cks =>
    if off < data.size then
      (blockOut cfg1 cks (data.extract off (off + B))).1 ++
        encRest cfg1 data B fuel (off + B) (blockOut cfg1 cks (data.extract off (off + B))).2
    else tailArr cfg1 cks

theorem encRest_fuel (cfg1 : Cfg) (data : Array UInt8) (B : Nat) (hB : 0 < B) (f1 : Nat) :
    ∀ (f2 off : Nat) (cks : XXH.State), data.size - off ≤ f1 → data.size - off ≤ f2 →
      encRest cfg1 data B f1 off cks = encRest cfg1 data B f2 off cks := by
  induction f1 with
  | zero =>
    intro f2 off cks h1 _
    cases f2 with
    | zero => rfl
    | succ f2 => rw [encRest, encRest, if_neg (by omega)]
  | succ f1 ih =>
    intro f2 off cks h1 h2
    cases f2 with
    | zero => rw [encRest, encRest, if_neg (by omega)]
    | succ f2 =>
      rw [encRest, encRest]
      by_cases h : off < data.size
      · rw [if_pos h, if_pos h, ih f2 (off + B) _ (by omega) (by omega)]
      · rw [if_neg h, if_neg h]

def restFrom (cfg1 : Cfg) (data : Array UInt8) (B off : Nat) (cks : XXH.State) : Array UInt8 :=
  encRest cfg1 data B (data.size - off) off cks

theorem restFrom_lt (cfg1 : Cfg) (data : Array UInt8) (B off : Nat) (cks : XXH.State) (hB : 0 < B)
    (h : off < data.size) :
    restFrom cfg1 data B off cks = (blockOut cfg1 cks (data.extract off (off + B))).1 ++
      restFrom cfg1 data B (off + B) (blockOut cfg1 cks (data.extract off (off + B))).2 := by
  unfold restFrom
  obtain ⟨m, hm⟩ : ∃ m, data.size - off = m + 1 := ⟨data.size - off - 1, by omega⟩
  rw [hm, encRest, if_pos h, encRest_fuel cfg1 data B hB m (data.size - (off + B)) _ _ (by omega) (by omega)]

theorem restFrom_ge (cfg1 : Cfg) (data : Array UInt8) (B off : Nat) (cks : XXH.State)
    (h : data.size ≤ off) : restFrom cfg1 data B off cks = tailArr cfg1 cks := by
  unfold restFrom
  have : data.size - off = 0 := by omega
  rw [this, encRest]

def restReading (c : CR) : Array UInt8 :=
  restFrom c.cfg c.src.data (poolSize (blockSizeIndex c.cfg.flags)) c.src.pos c.cks

/-- everything the encoder of `c` will still write into the overflow writer -/
def rest (c : CR) : Array UInt8 :=
  match c.st with
  | .initial => hdrArr c.cfg ++ restFrom (cfgInit c.cfg) c.src.data
      (poolSize (blockSizeIndex (cfgInit c.cfg).flags)) c.src.pos (XXH.reset c.cks)
  | .reading => restReading c
  | _ => #[]

theorem rest_reading (c : CR) (h : c.st = .reading) : rest c = restReading c := by
  unfold rest; rw [h]
theorem rest_flushing (c : CR) (h : c.st = .flushing) : rest c = #[] := by
  unfold rest; rw [h]
theorem rest_initial (c : CR) (h : c.st = .initial) : rest c = hdrArr c.cfg ++ restFrom (cfgInit c.cfg) c.src.data
      (poolSize (blockSizeIndex (cfgInit c.cfg).flags)) c.src.pos (XXH.reset c.cks) := by
  unfold rest; rw [h]

/-- a reader in the middle of a session over a whole-read, never-failing source -/
structure WF (c : CR) : Prop where
  src : GoodSrc c.src
  nd : c.st ≠ .done
  bpos : c.st = .reading → 0 < poolSize (blockSizeIndex c.cfg.flags)
  ini : c.st = .initial → blockSizeIndex (initFlags c.cfg.flags) = blockSizeIndex c.cfg.flags ∧
    0 < poolSize (blockSizeIndex c.cfg.flags)

theorem emitBlock_fields (c : CR) (want : Nat) (out data : Array UInt8) :
    (emitBlock c want out data).1.st = c.st ∧ (emitBlock c want out data).1.cfg = c.cfg ∧
    (emitBlock c want out data).1.src = c.src ∧
    (emitBlock c want out data).1.cks = (blockOut c.cfg c.cks data).2 := ⟨rfl, rfl, rfl, rfl⟩

theorem loop_ok (want idx : Nat) (hB : 0 < poolSize idx) (fuel : Nat) : ∀ (c : CR) (out : Array UInt8),
    GoodSrc c.src → c.st = .reading → blockSizeIndex c.cfg.flags = idx → OVI want out c.ov →
    c.src.data.size - c.src.pos < fuel * poolSize idx →
    ∃ c' b, loopF want idx c out fuel = (c', b, none) ∧ WF c' ∧
      b ++ c'.ov ++ rest c' = out ++ c.ov ++ restReading c := by
  induction fuel with
  | zero => intro c out _ _ _ _ hf; omega
  | succ fuel ih =>
    intro c out hg hst hidx hov hf
    rw [Nat.succ_mul] at hf
    rw [loop_succ]
    simp only
    have hrr : restReading c = restFrom c.cfg c.src.data (poolSize idx) c.src.pos c.cks := by
      unfold restReading; rw [hidx]
    by_cases hfull : poolSize idx ≤ c.src.data.size - c.src.pos
    · -- a whole block
      obtain ⟨s', hrf, hg', hd', hp'⟩ := readFull_full c.src (poolSize idx) hg hB hfull
      rw [hrf]
      simp only
      have hcat := emitBlock_cat { c with src := s' } want out (c.src.data.extract c.src.pos (c.src.pos + poolSize idx)) hov
      obtain ⟨f1, f2, f3, f4⟩ := emitBlock_fields { c with src := s' } want out
        (c.src.data.extract c.src.pos (c.src.pos + poolSize idx))
      generalize emitBlock { c with src := s' } want out (c.src.data.extract c.src.pos (c.src.pos + poolSize idx)) = eb
        at hcat f1 f2 f3 f4 ⊢
      simp only at hcat f1 f2 f3 f4
      have hrest : restReading eb.1 = restFrom c.cfg c.src.data (poolSize idx) (c.src.pos + poolSize idx)
          (blockOut c.cfg c.cks (c.src.data.extract c.src.pos (c.src.pos + poolSize idx))).2 := by
        unfold restReading; rw [f2, f3, f4, hd', hp', hidx]
      have hkey : eb.2 ++ eb.1.ov ++ restReading eb.1 = out ++ c.ov ++ restReading c := by
        rw [hcat.2.1, hrest, hrr, restFrom_lt c.cfg c.src.data (poolSize idx) c.src.pos c.cks hB (by omega),
          Array.append_assoc]
      split
      · refine ⟨eb.1, eb.2, rfl, ?_, ?_⟩
        · exact ⟨by rw [f3]; exact hg', by rw [f1, hst]; decide, fun _ => by rw [f2, hidx]; exact hB,
            fun h => by rw [f1, hst] at h; cases h⟩
        · rw [rest_reading _ (by rw [f1, hst])]; exact hkey
      · obtain ⟨c', b, hl, hwf, hc⟩ := ih eb.1 eb.2 (by rw [f3]; exact hg') (by rw [f1, hst]) (by rw [f2, hidx])
          hcat.1 (by rw [f3, hd', hp']; omega)
        exact ⟨c', b, hl, hwf, by rw [hc, hkey]⟩
    · by_cases hz : c.src.data.size - c.src.pos = 0
      · -- nothing left
        obtain ⟨s', hrf, hg', hd'⟩ := readFull_eof c.src (poolSize idx) hg hB hz
        rw [hrf]
        simp only [true_or, if_true, Array.size_empty, Nat.lt_irrefl, if_false]
        have hcat := ovWrite_cat want out c.ov (tailArr c.cfg c.cks) hov
        refine ⟨_, _, rfl, ⟨hg', by simp, fun h => by simp at h, fun h => by simp at h⟩, ?_⟩
        rw [rest_flushing _ rfl, Array.append_empty, hrr, restFrom_ge _ _ _ _ _ (by omega)]
        exact hcat.2
      · -- a last short block
        obtain ⟨s', hrf, hg', hd'⟩ := readFull_part c.src (poolSize idx) hg (by omega) (by omega)
        rw [hrf]
        have hgs : (c.src.data.extract c.src.pos (c.src.pos + poolSize idx)).size > 0 := by
          rw [Array.size_extract]; omega
        simp only [or_true, if_true, hgs]
        have hcat := emitBlock_cat { c with src := s' } want out (c.src.data.extract c.src.pos (c.src.pos + poolSize idx)) hov
        obtain ⟨f1, f2, f3, f4⟩ := emitBlock_fields { c with src := s' } want out
          (c.src.data.extract c.src.pos (c.src.pos + poolSize idx))
        generalize emitBlock { c with src := s' } want out (c.src.data.extract c.src.pos (c.src.pos + poolSize idx)) = eb
          at hcat f1 f2 f3 f4 ⊢
        simp only at hcat f1 f2 f3 f4
        have hcat2 := ovWrite_cat want eb.2 eb.1.ov (tailArr eb.1.cfg eb.1.cks) hcat.1
        refine ⟨_, _, rfl, ⟨by simp only; rw [f3]; exact hg', by simp, fun h => by simp at h, fun h => by simp at h⟩, ?_⟩
        rw [rest_flushing _ rfl, Array.append_empty, hcat2.2, hcat.2.1, f2, f4, hrr,
          restFrom_lt c.cfg c.src.data (poolSize idx) c.src.pos c.cks hB (by omega),
          restFrom_ge _ _ _ _ _ (by omega), Array.append_assoc]

theorem fuel_ok (n B : Nat) (hB : 0 < B) : n < (n / max B 1 + 3) * B := by
  have h1 : max B 1 = B := by omega
  rw [h1, Nat.add_mul]
  have h2 := Nat.div_add_mod n B
  have h3 := Nat.mod_lt n hB
  rw [Nat.mul_comm] at h2
  omega

/-! ## one call: the bytes returned, the new overflow and what the encoder still owes are what the
old overflow and the old debt were -/

theorem readB_wf (c : CR) (hwf : WF c) (want : Nat) (h : ¬ c.ov.size ≥ want) :
    ((readB c want).2.2 = none ∧ WF (readB c want).1 ∧
      (readB c want).2.1 ++ (readB c want).1.ov ++ rest (readB c want).1 = c.ov ++ rest c) ∨
    ((readB c want).2.2 = some .eof ∧ c.ov = #[] ∧ rest c = #[]) := by
  have hlt : c.ov.size ≤ want := by omega
  obtain ⟨hsrc, hnd, hbpos, hini⟩ := hwf
  obtain ⟨st, cfg, src, cks, ov, opz⟩ := c
  simp only at hlt hsrc hnd hbpos hini
  have hovi : OVI want ov #[] := ⟨hlt, fun h0 => by simp at h0⟩
  cases st with
  | initial =>
    obtain ⟨hi1, hi2⟩ := hini rfl
    have hcat := ovWrite_cat want ov #[] (hdrArr cfg) hovi
    obtain ⟨c', b, hl, hwf', hc⟩ := loop_ok want (blockSizeIndex cfg.flags) hi2
      (src.data.size / (max (poolSize (blockSizeIndex (initFlags cfg.flags))) 1) + 3)
      { st := .reading, cfg := cfgInit cfg, src := src, cks := XXH.reset cks,
        ov := (ovWrite want ov #[] (hdrArr cfg)).2, ovPosNonZero := false }
      (ovWrite want ov #[] (hdrArr cfg)).1 hsrc rfl hi1 hcat.1
      (by rw [hi1]; exact Nat.lt_of_le_of_lt (Nat.sub_le _ _) (fuel_ok _ _ hi2))
    have hrb : readB { st := .initial, cfg := cfg, src := src, cks := cks, ov := ov, ovPosNonZero := opz } want =
        (c', b, none) := hl
    rw [hrb]
    refine Or.inl ⟨rfl, hwf', ?_⟩
    simp only
    rw [hc, hcat.2, Array.append_empty, Array.append_assoc]
    rfl
  | done => exact absurd rfl hnd
  | flushing =>
    simp only [readB]
    split
    · exact Or.inl ⟨rfl, ⟨hsrc, by simp, fun h => by simp at h, fun h => by simp at h⟩, by
        simp [rest]⟩
    · rename_i hp
      refine Or.inr ⟨rfl, Array.eq_empty_of_size_eq_zero (by omega), rfl⟩
  | reading =>
    have hB := hbpos rfl
    obtain ⟨c', b, hl, hwf', hc⟩ := loop_ok want (blockSizeIndex cfg.flags) hB
      (src.data.size / (max (poolSize (blockSizeIndex cfg.flags)) 1) + 3)
      { st := .reading, cfg := cfg, src := src, cks := cks, ov := #[], ovPosNonZero := false }
      ov hsrc rfl rfl hovi
      (Nat.lt_of_le_of_lt (Nat.sub_le _ _) (fuel_ok _ _ hB))
    have hrb : readB { st := .reading, cfg := cfg, src := src, cks := cks, ov := ov, ovPosNonZero := opz } want =
        (c', b, none) := hl
    rw [hrb]
    refine Or.inl ⟨rfl, hwf', ?_⟩
    simp only
    rw [hc, Array.append_empty]
    rfl

theorem read_wf (c : CR) (hwf : WF c) (want : Nat) :
    ((read c want).2.2 = none ∧ WF (read c want).1 ∧
      (read c want).2.1 ++ (read c want).1.ov ++ rest (read c want).1 = c.ov ++ rest c) ∨
    ((read c want).2.2 = some .eof ∧ c.ov = #[] ∧ rest c = #[]) := by
  rw [read_eq]
  split
  · rename_i h
    refine Or.inl ⟨rfl, ⟨hwf.src, hwf.nd, hwf.bpos, hwf.ini⟩, ?_⟩
    simp only
    rw [Array.extract_append_extract, Nat.zero_min, Nat.max_eq_right h]
    have : c.ov.extract 0 c.ov.size = c.ov := by simp
    rw [this]
    rfl
  · rename_i h
    exact readB_wf c hwf want h

/-! ## a whole session -/

theorem session_wf (sizes : List Nat) : ∀ (c : CR), WF c →
    ((∀ x ∈ (session c sizes).1, x.2.2 = none) ∧ WF (session c sizes).2 ∧
      output (session c sizes).1 ++ (session c sizes).2.ov ++ rest (session c sizes).2 = c.ov ++ rest c) ∨
    ((session c sizes).1.getLast?.map (·.2.2) = some (some .eof) ∧
      output (session c sizes).1 = c.ov ++ rest c) := by
  induction sizes with
  | nil =>
    intro c hwf
    refine Or.inl ⟨fun x hx => by simp [session] at hx, hwf, ?_⟩
    simp [session, output]
  | cons n ns ih =>
    intro c hwf
    rcases read_wf c hwf n with ⟨he, hwf1, hc⟩ | ⟨he, hov, hr⟩
    · rw [session_cons_none c n ns he]
      simp only
      rcases ih (read c n).1 hwf1 with ⟨hall, hwf2, hc2⟩ | ⟨hlast, hc2⟩
      · refine Or.inl ⟨fun x hx => ?_, hwf2, ?_⟩
        · rcases List.mem_cons.1 hx with h | h
          · rw [h]
          · exact hall x h
        · rw [output_cons, ← hc]
          simp only [Array.append_assoc] at hc2 ⊢
          rw [hc2]
      · refine Or.inr ⟨?_, ?_⟩
        · cases hs : (session (read c n).1 ns).1 with
          | nil => rw [hs] at hlast; simp at hlast
          | cons r rs => rw [List.getLast?_cons_cons, ← hs]; exact hlast
        · rw [output_cons, hc2, ← hc, Array.append_assoc]
    · rw [session_cons_some c n ns .eof he]
      refine Or.inr ⟨by simp, ?_⟩
      rw [output_cons, output_nil, (read_err c n (ne_none_of_eq_some he)).1, hov, hr]

/-- the headline: a session that ends with `io.EOF` has delivered exactly the old overflow and everything the
encoder still had to produce -/
theorem session_eof (sizes : List Nat) (c : CR) (hwf : WF c)
    (heof : (session c sizes).1.getLast?.map (·.2.2) = some (some .eof)) :
    output (session c sizes).1 = c.ov ++ rest c := by
  rcases session_wf sizes c hwf with ⟨hall, _, _⟩ | ⟨_, h⟩
  · cases hl : (session c sizes).1.getLast? with
    | none => rw [hl] at heof; simp at heof
    | some x =>
      rw [hl] at heof
      have := hall x (List.mem_of_getLast? hl)
      simp only [Option.map_some, Option.some.injEq] at heof
      rw [this] at heof
      cases heof
  · exact h
end Lz4V.Proofs.CReader
