import Lz4V.Proofs.Hostile
/-!
# Proofs.HostileShift — a skippable frame is transparent

`shS pre c s` is the source `s` seen behind an already consumed prefix `pre`; `shR` lifts it to Reader states.
Every function of the Reader model commutes with the shift (sources without injected failure), and its result
does not depend on the amount of fuel once the fuel exceeds the number of unread bytes (whole-read sources).
-/
set_option linter.unusedSimpArgs false
namespace Lz4V.Proofs.Hostile
open Lz4V Lz4V.Go Lz4V.Gen Lz4V.Model Lz4V.Model.FrameR Lz4V.Model.FrameW
open Lz4V.Proofs.FrameR

/-- the source `s` seen behind a prefix `pre` that has already been consumed (`c` more calls were made) -/
def shS (pre : Array UInt8) (c : Nat) (s : Source) : Source :=
  { s with data := pre ++ s.data, pos := pre.size + s.pos, calls := c + s.calls }

def shR (pre : Array UInt8) (c : Nat) (r : R) : R := { r with src := shS pre c r.src }

theorem extract_shift (pre d : Array UInt8) (p n : Nat) :
    (pre ++ d).extract (pre.size + p) (pre.size + p + n) = d.extract p (p + n) := by
  rw [Array.extract_append]
  have h1 : pre.extract (pre.size + p) (pre.size + p + n) = #[] := by
    apply Array.ext
    · simp; omega
    · intro i h1 h2; simp at h1; omega
  rw [h1]
  have h2 : pre.size + p - pre.size = p := by omega
  have h3 : pre.size + p + n - pre.size = p + n := by omega
  rw [h2, h3]; simp

theorem read_go_sh (pre : Array UInt8) (c : Nat) (s : Source) (want : Nat) :
    Source.read.go want (shS pre c s) =
      (shS pre c (Source.read.go want s).1, (Source.read.go want s).2.1, (Source.read.go want s).2.2) := by
  obtain ⟨d, p, ch, ca, fa, ewd⟩ := s
  unfold Source.read.go
  simp only [shS, Array.size_append]
  have h1 : pre.size + d.size - (pre.size + p) = d.size - p := by omega
  rw [h1]
  by_cases hw : want = 0
  · simp only [hw, if_true]
  simp only [hw, if_false]
  by_cases hr : d.size - p = 0
  · simp only [hr, if_true]
  simp only [hr, if_false]
  have key : ∀ n, (if ewd = true ∧ pre.size + p + n = pre.size + d.size then
      (({ data := pre ++ d, pos := pre.size + p + n, chunk := ch, calls := c + ca, failAt := fa, eofWithData := ewd } : Source),
        (pre ++ d).extract (pre.size + p) (pre.size + p + n), some Err.eof)
    else
      ({ data := pre ++ d, pos := pre.size + p + n, chunk := ch, calls := c + ca, failAt := fa, eofWithData := ewd },
        (pre ++ d).extract (pre.size + p) (pre.size + p + n), none)) =
     (shS pre c (if ewd = true ∧ p + n = d.size then
        (({ data := d, pos := p + n, chunk := ch, calls := ca, failAt := fa, eofWithData := ewd } : Source), d.extract p (p + n), some Err.eof)
        else ({ data := d, pos := p + n, chunk := ch, calls := ca, failAt := fa, eofWithData := ewd }, d.extract p (p + n), none)).1,
      (if ewd = true ∧ p + n = d.size then
        (({ data := d, pos := p + n, chunk := ch, calls := ca, failAt := fa, eofWithData := ewd } : Source), d.extract p (p + n), some Err.eof)
        else ({ data := d, pos := p + n, chunk := ch, calls := ca, failAt := fa, eofWithData := ewd }, d.extract p (p + n), none)).2.1,
      (if ewd = true ∧ p + n = d.size then
        (({ data := d, pos := p + n, chunk := ch, calls := ca, failAt := fa, eofWithData := ewd } : Source), d.extract p (p + n), some Err.eof)
        else ({ data := d, pos := p + n, chunk := ch, calls := ca, failAt := fa, eofWithData := ewd }, d.extract p (p + n), none)).2.2) := by
    intro n
    have h2 : (pre ++ d).extract (pre.size + p) (pre.size + p + n) = d.extract p (p + n) :=
      extract_shift pre d p n
    have h3 : (pre.size + p + n = pre.size + d.size) ↔ (p + n = d.size) := by omega
    rw [h2]
    simp only [h3]
    split
    · simp only [shS, Nat.add_assoc]
    · simp only [shS, Nat.add_assoc]
  by_cases hch : ch = 0
  · subst hch
    simp only [if_true]
    exact key _
  · simp only [hch, if_false]
    exact key _

theorem read_sh (pre : Array UInt8) (c : Nat) (s : Source) (want : Nat) (hf : s.failAt = none) :
    (shS pre c s).read want = (shS pre c (s.read want).1, (s.read want).2.1, (s.read want).2.2) := by
  obtain ⟨d, p, ch, ca, fa, ewd⟩ := s
  simp only at hf
  subst hf
  have h := read_go_sh pre c { data := d, pos := p, chunk := ch, calls := ca + 1, failAt := none, eofWithData := ewd } want
  unfold Source.read
  simp only [shS, Nat.add_assoc] at h ⊢
  exact h

theorem readFull_loop_sh (pre : Array UInt8) (c want : Nat) (fuel : Nat) : ∀ (s : Source) (acc : Array UInt8),
    s.failAt = none →
    readFull.loop want (shS pre c s) acc fuel =
      (shS pre c (readFull.loop want s acc fuel).1, (readFull.loop want s acc fuel).2.1,
        (readFull.loop want s acc fuel).2.2) := by
  induction fuel with
  | zero => intro s acc _; rfl
  | succ fuel ih =>
    intro s acc hf
    unfold readFull.loop
    split
    · rfl
    rw [read_sh pre c s _ hf]
    have hf1 : (s.read (want - acc.size)).1.failAt = none := (read_adv s _).1.failAt.trans hf
    rcases e1 : s.read (want - acc.size) with ⟨s1, got, e⟩
    rw [e1] at hf1
    simp only [] at hf1 ⊢
    cases e with
    | none =>
      simp only []
      split
      · rfl
      · exact ih s1 _ hf1
    | some err =>
      simp only []
      split
      · rfl
      split <;> rfl

theorem readFull_sh (pre : Array UInt8) (c : Nat) (s : Source) (want : Nat) (hf : s.failAt = none) :
    readFull (shS pre c s) want = (shS pre c (readFull s want).1, (readFull s want).2.1, (readFull s want).2.2) :=
  readFull_loop_sh pre c want (want + 1) s #[] hf

theorem readUint32_sh (pre : Array UInt8) (c : Nat) (s : Source) (hf : s.failAt = none) :
    readUint32 (shS pre c s) = (shS pre c (readUint32 s).1, (readUint32 s).2.1, (readUint32 s).2.2) := by
  unfold readUint32
  rw [readFull_sh pre c s 4 hf]
  rcases readFull s 4 with ⟨s1, b, e⟩
  cases e <;> rfl

theorem discardN_sh (pre : Array UInt8) (c : Nat) (fuel : Nat) : ∀ (s : Source) (n : Nat), s.failAt = none →
    discardN (shS pre c s) n fuel = (shS pre c (discardN s n fuel).1, (discardN s n fuel).2) := by
  induction fuel with
  | zero => intro s n _; rfl
  | succ fuel ih =>
    intro s n hf
    unfold discardN
    split
    · rfl
    rw [read_sh pre c s _ hf]
    have hf1 : (s.read (min n 8192)).1.failAt = none := (read_adv s _).1.failAt.trans hf
    rcases e1 : s.read (min n 8192) with ⟨s1, got, e⟩
    rw [e1] at hf1
    simp only [] at hf1 ⊢
    split
    · split <;> rfl
    · rfl
    · exact ih s1 _ hf1

theorem hdrRest_sh (pre : Array UInt8) (c : Nat) (r : R) (hf : r.src.failAt = none) :
    hdrRest (shR pre c r) = (shR pre c (hdrRest r).1, (hdrRest r).2) := by
  unfold hdrRest
  have e0 : readFull (shR pre c r).src 3 = _ := readFull_sh pre c r.src 3 hf
  rw [e0]
  have hf1 : (readFull r.src 3).1.failAt = none := (readFull_adv r.src 3).1.failAt.trans hf
  rcases e1 : readFull r.src 3 with ⟨s1, b, e⟩
  rw [e1] at hf1
  simp only [] at hf1 ⊢
  cases e with
  | some e => rfl
  | none =>
    simp only []
    generalize (b[0]!.toNat + 256 * b[1]!.toNat).toUInt16 = fl
    rw [readFull_sh pre c s1 8 hf1]
    rcases e2 : readFull s1 8 with ⟨s2, b8, e'⟩
    simp only []
    cases hfs : flagSize fl
    · simp only [Bool.false_eq_true, if_false]
      split
      · rfl
      · split <;> rfl
    · simp only [if_true]
      cases e' with
      | some e' => rfl
      | none =>
        simp only []
        split
        · rfl
        · split <;> rfl

theorem skipRest_sh (pre : Array UInt8) (c : Nat) (r : R) (fuel : Nat) (hf : r.src.failAt = none)
    (ih : ∀ r' : R, r'.src.failAt = none →
      parseHeaders (shR pre c r') fuel = (shR pre c (parseHeaders r' fuel).1, (parseHeaders r' fuel).2)) :
    skipRest (shR pre c r) fuel = (shR pre c (skipRest r fuel).1, (skipRest r fuel).2) := by
  unfold skipRest
  have e0 : readUint32 (shR pre c r).src = _ := readUint32_sh pre c r.src hf
  rw [e0]
  have hf1 : (readUint32 r.src).1.failAt = none := (readUint32_adv r.src).failAt.trans hf
  rcases e1 : readUint32 r.src with ⟨s1, n, e⟩
  rw [e1] at hf1
  simp only [] at hf1 ⊢
  cases e with
  | some e => rfl
  | none =>
    simp only []
    rw [discardN_sh pre c (n + 1) s1 n hf1]
    have hf2 : (discardN s1 n (n + 1)).1.failAt = none := (discardN_adv (n + 1) s1 n).failAt.trans hf1
    rcases e2 : discardN s1 n (n + 1) with ⟨s2, e'⟩
    rw [e2] at hf2
    simp only [] at hf2 ⊢
    cases e' with
    | some e' => rfl
    | none =>
      simp only []
      exact ih { r with src := s2, magic := 0 } hf2

theorem parseHeaders_sh (pre : Array UInt8) (c : Nat) (fuel : Nat) : ∀ r : R, r.src.failAt = none →
    parseHeaders (shR pre c r) fuel = (shR pre c (parseHeaders r fuel).1, (parseHeaders r fuel).2) := by
  induction fuel with
  | zero => intro r _; rfl
  | succ fuel ih =>
    intro r hf
    rw [FrameR.parseHeaders_succ, FrameR.parseHeaders_succ]
    have hm : (shR pre c r).magic = r.magic := rfl
    rw [hm]
    split
    · rfl
    have e0 : readUint32 (shR pre c r).src = _ := readUint32_sh pre c r.src hf
    rw [e0]
    have hf1 : (readUint32 r.src).1.failAt = none := (readUint32_adv r.src).failAt.trans hf
    rcases e1 : readUint32 r.src with ⟨s1, m, e⟩
    rw [e1] at hf1
    simp only [] at hf1 ⊢
    cases e with
    | some e => rfl
    | none =>
      simp only []
      split
      · split
        · rfl
        · exact hdrRest_sh pre c { r with src := s1, magic := m } hf1
      · split
        · exact skipRest_sh pre c { r with src := s1, magic := m } fuel hf1 ih
        · rfl

theorem brTail_sh (pre : Array UInt8) (c : Nat) (r : R) (x : Nat) (hf : r.src.failAt = none) :
    brTail (shR pre c r) x = (shR pre c (brTail r x).1, (brTail r x).2) := by
  unfold brTail
  have e0 : readFull (shR pre c r).src (x % 2147483648) = _ := readFull_sh pre c r.src _ hf
  rw [e0]
  have hf1 : (readFull r.src (x % 2147483648)).1.failAt = none := (readFull_adv r.src _).1.failAt.trans hf
  rcases e1 : readFull r.src (x % 2147483648) with ⟨s1, d, e⟩
  rw [e1] at hf1
  simp only [] at hf1 ⊢
  cases e with
  | some e => rfl
  | none =>
    simp only []
    have hfl : (shR pre c r).flags = r.flags := rfl
    rw [hfl]
    split
    · rw [readUint32_sh pre c s1 hf1]
      rcases e2 : readUint32 s1 with ⟨s2, ck, e'⟩
      simp only []
      cases e' <;> rfl
    · rfl

theorem blockRead_sh (pre : Array UInt8) (c : Nat) (fuel : Nat) : ∀ r : R, r.src.failAt = none →
    blockRead (shR pre c r) fuel = (shR pre c (blockRead r fuel).1, (blockRead r fuel).2) := by
  induction fuel with
  | zero => intro r _; rfl
  | succ fuel ih =>
    intro r hf
    rw [blockRead_succ', blockRead_succ']
    have e0 : readUint32 (shR pre c r).src = _ := readUint32_sh pre c r.src hf
    rw [e0]
    have hf1 : (readUint32 r.src).1.failAt = none := (readUint32_adv r.src).failAt.trans hf
    rcases e1 : readUint32 r.src with ⟨s1, x, e⟩
    rw [e1] at hf1
    simp only [] at hf1 ⊢
    have hl1 : ∀ s, isLegacy { r with src := s } = isLegacy r := fun _ => rfl
    have hl2 : ∀ s, isLegacy { shR pre c r with src := s } = isLegacy r := fun _ => rfl
    cases e with
    | some e => simp only [hl1, hl2]; rfl
    | none =>
      simp only [hl1, hl2]
      have hc : (shR pre c r).cum = r.cum := rfl
      have hfl : (shR pre c r).flags = r.flags := rfl
      simp only [hc, hfl]
      cases hl : isLegacy r
      · simp only [Bool.false_eq_true, false_and, if_false, not_false_eq_true, true_and]
        split
        · rfl
        split
        · rfl
        exact brTail_sh pre c { r with src := s1, bSize := x } x hf1
      · simp only [true_and, not_true_eq_false, false_and, if_false, if_true]
        split
        · exact ih { r with src := s1 } hf1
        split
        · rfl
        split
        · rfl
        split
        · rfl
        exact brTail_sh pre c { r with src := s1, bSize := x } x hf1

theorem uncompress_sh (pre : Array UInt8) (c : Nat) (r : R) (cap : Nat) :
    uncompress (shR pre c r) cap = (shR pre c (uncompress r cap).1, (uncompress r cap).2) := by
  unfold uncompress
  have h1 : (shR pre c r).flags = r.flags := rfl
  have h2 : (shR pre c r).bData = r.bData := rfl
  have h3 : (shR pre c r).bChecksum = r.bChecksum := rfl
  have h4 : (shR pre c r).bSize = r.bSize := rfl
  have h5 : (shR pre c r).dict = r.dict := rfl
  have h6 : isLegacy (shR pre c r) = isLegacy r := rfl
  simp only [h1, h2, h3, h4, h5, h6]
  split
  · rfl
  split
  · rfl
  · split <;> rfl

theorem afterBlock_sh (pre : Array UInt8) (c : Nat) (r : R) (dst : Array UInt8) (d : Bool) :
    afterBlock (shR pre c r) dst d = shR pre c (afterBlock r dst d) := by
  unfold afterBlock
  have h1 : (shR pre c r).flags = r.flags := rfl
  have h5 : (shR pre c r).dict = r.dict := rfl
  simp only [h1, h5]
  split <;> split <;> (try split) <;> rfl

theorem closeR_sh (pre : Array UInt8) (c : Nat) (r : R) (hf : r.src.failAt = none) :
    closeR (shR pre c r) = (shR pre c (closeR r).1, (closeR r).2) := by
  unfold closeR
  have h6 : isLegacy (shR pre c r) = isLegacy r := rfl
  have h1 : (shR pre c r).flags = r.flags := rfl
  simp only [h6, h1]
  split
  · rfl
  split
  · rfl
  have e0 : readUint32 (shR pre c r).src = _ := readUint32_sh pre c r.src hf
  rw [e0]
  rcases e1 : readUint32 r.src with ⟨s1, x, e⟩
  simp only []
  cases e with
  | some e => rfl
  | none =>
    simp only []
    have h7 : ({ shR pre c r with src := shS pre c s1 } : R).cks = r.cks := rfl
    rw [h7]
    by_cases hck : (XXH.sum32 r.cks).toNat ≠ x
    · simp only [hck, if_true, ne_eq, not_false_eq_true]; rfl
    · simp only [hck, if_false, ne_eq, not_true_eq_false]; rfl

/-! ## fuel -/

theorem readUint32_none (s s' : Source) (x : Nat) (hg : Good s) (h : readUint32 s = (s', x, none)) :
    Good s' ∧ s'.data = s.data ∧ s'.pos = s.pos + 4 := by
  by_cases h4 : s.data.size < s.pos + 4
  · obtain ⟨t, -, -, -, e1⟩ := readUint32_short s hg h4
    rw [e1] at h
    simp at h
  · obtain ⟨t, g1, d1, p1, e1⟩ := readUint32_ok s hg (by omega)
    rw [e1] at h
    simp only [Prod.mk.injEq, and_true] at h
    obtain ⟨rfl, -⟩ := h
    exact ⟨g1, d1, p1⟩

theorem parseHeaders_fuel (f : Nat) : ∀ (f' : Nat) (r : R), Good r.src →
    r.src.data.size - r.src.pos < f → r.src.data.size - r.src.pos < f' →
    parseHeaders r f = parseHeaders r f' := by
  induction f with
  | zero => intro f' r _ h; omega
  | succ f ih =>
    intro f' r hg h1 h2
    cases f' with
    | zero => omega
    | succ f' =>
      rw [FrameR.parseHeaders_succ, FrameR.parseHeaders_succ]
      split
      · rfl
      rcases e1 : readUint32 r.src with ⟨s1, m, e⟩
      simp only []
      cases e with
      | some e => rfl
      | none =>
        simp only []
        obtain ⟨g1, d1, p1⟩ := readUint32_none _ _ _ hg e1
        split
        · rfl
        split
        · unfold skipRest
          simp only []
          rcases e2 : readUint32 s1 with ⟨s2, n, e'⟩
          simp only []
          cases e' with
          | some e' => rfl
          | none =>
            simp only []
            obtain ⟨g2, d2, p2⟩ := readUint32_none _ _ _ g1 e2
            have a3 := discardN_adv (n + 1) s2 n
            rcases e3 : discardN s2 n (n + 1) with ⟨s3, e''⟩
            rw [e3] at a3
            simp only [] at a3 ⊢
            cases e'' with
            | some e'' => rfl
            | none =>
              simp only []
              have g3 := a3.good g2
              have hm := a3.mono
              have hd := a3.data
              have hp3 := g3.pos
              rw [hd, d2, d1] at hp3
              apply ih f' _ g3
              · simp only []; rw [hd, d2, d1]; omega
              · simp only []; rw [hd, d2, d1]; omega
        · rfl

theorem blockRead_fuel (f : Nat) : ∀ (f' : Nat) (r : R), Good r.src →
    r.src.data.size - r.src.pos < f → r.src.data.size - r.src.pos < f' →
    blockRead r f = blockRead r f' := by
  induction f with
  | zero => intro f' r _ h; omega
  | succ f ih =>
    intro f' r hg h1 h2
    cases f' with
    | zero => omega
    | succ f' =>
      rw [blockRead_succ', blockRead_succ']
      rcases e1 : readUint32 r.src with ⟨s1, x, e⟩
      simp only []
      cases e with
      | some e => rfl
      | none =>
        simp only []
        obtain ⟨g1, d1, p1⟩ := readUint32_none _ _ _ hg e1
        split
        · have hp1 := g1.pos
          apply ih f' _ g1
          · simp only []; rw [d1] at hp1 ⊢; omega
          · simp only []; rw [d1] at hp1 ⊢; omega
        · rfl

theorem unexpected_ne_none (e : Err) : unexpected (some e) ≠ none := by
  cases e <;> simp [unexpected]

/-- a block that was read took at least its size word from the source -/
theorem blockRead_progress (r : R) (hg : Good r.src) (f : Nat) (h : (blockRead r f).2 = none) :
    r.src.pos + 4 ≤ (blockRead r f).1.src.pos := by
  cases f with
  | zero => exact absurd h (by simp [blockRead])
  | succ f =>
    have hp := (blockRead_pres (f + 1) r).1
    rw [blockRead_succ'] at h hp ⊢
    rcases e1 : readUint32 r.src with ⟨s1, x, e⟩
    rw [e1] at h hp
    simp only [] at h hp ⊢
    cases e with
    | some e =>
      simp only [] at h
      split at h
      · cases h
      · exact absurd h (unexpected_ne_none e)
    | none =>
      simp only [] at h hp ⊢
      obtain ⟨g1, d1, p1⟩ := readUint32_none _ _ _ hg e1
      have hl1 : ∀ s, isLegacy { r with src := s } = isLegacy r := fun _ => rfl
      simp only [hl1] at h hp ⊢
      have hb : ∀ r' : R, r'.src = s1 → ∀ q : R × Option Err, Adv r'.src q.1.src → r.src.pos + 4 ≤ q.1.src.pos := by
        intro r' hr' q hq
        have := hq.mono
        rw [hr'] at this
        omega
      cases hl : isLegacy r
      · simp only [Bool.false_eq_true, false_and, if_false, not_false_eq_true, true_and]
        split
        · exact hb { r with src := s1 } rfl _ (Adv.refl _)
        split
        · exact hb { r with src := s1 } rfl _ (Adv.refl _)
        · rename_i hcap
          exact hb { r with src := s1, bSize := x } rfl _
            (brTail_pres _ x (Nat.le_trans (Nat.le_of_not_gt hcap) (poolSize_le_bound _))).1
      · simp only [true_and, not_true_eq_false, false_and, if_false, if_true]
        split
        · exact hb { r with src := s1 } rfl _ (blockRead_pres f _).1
        split
        · exact hb { r with src := s1 } rfl _ (Adv.refl _)
        split
        · exact hb { r with src := s1 } rfl _ (Adv.refl _)
        split
        · exact hb { r with src := s1 } rfl _ (Adv.refl _)
        · rename_i hcap
          exact hb { r with src := s1, bSize := x } rfl _ (brTail_pres _ x (Nat.le_of_not_gt hcap)).1

theorem shR_size (pre : Array UInt8) (c : Nat) (r : R) :
    (shR pre c r).src.data.size = pre.size + r.src.data.size := by
  show (pre ++ r.src.data).size = _
  rw [Array.size_append]

theorem readBlock_sh (pre : Array UInt8) (c : Nat) (r : R) (want : Nat) (hg : Good r.src) :
    readBlock (shR pre c r) want =
      (shR pre c (readBlock r want).1, (readBlock r want).2.1, (readBlock r want).2.2) := by
  rw [readBlock_eq, readBlock_eq, shR_size, blockRead_sh pre c _ r hg.failAt,
    blockRead_fuel (pre.size + r.src.data.size + 2) (r.src.data.size + 2) r hg (by omega) (by omega)]
  rcases e1 : blockRead r (r.src.data.size + 2) with ⟨r1, e⟩
  simp only []
  cases e with
  | some e => rfl
  | none =>
    simp only []
    have hfl : (shR pre c r1).flags = r1.flags := rfl
    rw [hfl, uncompress_sh]
    rcases e2 : uncompress r1 (poolSize (blockSizeIndex r1.flags)) with ⟨r2, out, e'⟩
    simp only []
    cases e' with
    | some e' => rfl
    | none =>
      cases out with
      | none => rfl
      | some dst =>
        simp only []
        rw [afterBlock_sh, afterBlock_sh]
        split <;> rfl

/-- a decoded block took at least four bytes from the source -/
theorem readBlock_progress (r : R) (want : Nat) (hg : Good r.src) (h : (readBlock r want).2.2 = none) :
    r.src.pos + 4 ≤ (readBlock r want).1.src.pos := by
  have hp := blockRead_progress r hg (r.src.data.size + 2)
  rw [readBlock_eq] at h ⊢
  rcases e1 : blockRead r (r.src.data.size + 2) with ⟨r1, e⟩
  rw [e1] at h hp
  simp only [] at h hp ⊢
  cases e with
  | some e => cases h
  | none =>
    simp only [] at h ⊢
    have hp1 := hp rfl
    obtain ⟨u1, -⟩ := uncompress_facts r1 (poolSize (blockSizeIndex r1.flags))
    rcases e2 : uncompress r1 (poolSize (blockSizeIndex r1.flags)) with ⟨r2, out, e'⟩
    rw [e2] at h u1
    simp only [] at h u1 ⊢
    cases e' with
    | some e' => cases h
    | none =>
      cases out with
      | none => cases h
      | some dst =>
        simp only []
        split
        · show r.src.pos + 4 ≤ (afterBlock r2 dst true).src.pos
          rw [afterBlock_src, u1]; exact hp1
        · show r.src.pos + 4 ≤ (afterBlock r2 dst false).src.pos
          rw [afterBlock_src, u1]; exact hp1

theorem loop_sh (pre : Array UInt8) (c cap : Nat) (fuel : Nat) : ∀ (r : R) (sink : Sink) (n : Nat), Good r.src →
    writeTo.loop cap (shR pre c r) sink n fuel =
      (shR pre c (writeTo.loop cap r sink n fuel).1, (writeTo.loop cap r sink n fuel).2) := by
  induction fuel with
  | zero => intro r sink n _; rfl
  | succ fuel ih =>
    intro r sink n hg
    rw [loop_succ, loop_succ]
    simp only []
    rw [readBlock_sh pre c r cap hg]
    have hp := (readBlock_pres r cap).1.1
    rcases e1 : readBlock r cap with ⟨r1, got, e⟩
    rw [e1] at hp
    simp only [] at hp ⊢
    have g1 : Good r1.src := hp.good hg
    have hd : (shR pre c r).data = r.data := rfl
    rw [hd]
    cases e with
    | none =>
      simp only []
      rcases sink.write got with ⟨sink', we⟩
      cases we with
      | some we => rfl
      | none => exact ih { r1 with data := r.data } sink' _ g1
    | some e =>
      cases e
      case eof =>
        simp only []
        have := closeR_sh pre c { r1 with data := r.data } g1.failAt
        rw [show ({ shR pre c r1 with data := r.data } : R) = shR pre c { r1 with data := r.data } from rfl, this]
      all_goals rfl

theorem loop_fuel (cap : Nat) (f : Nat) : ∀ (f' : Nat) (r : R) (sink : Sink) (n : Nat), Good r.src →
    r.src.data.size - r.src.pos < f → r.src.data.size - r.src.pos < f' →
    writeTo.loop cap r sink n f = writeTo.loop cap r sink n f' := by
  induction f with
  | zero => intro f' r _ _ _ h; omega
  | succ f ih =>
    intro f' r sink n hg h1 h2
    cases f' with
    | zero => omega
    | succ f' =>
      rw [loop_succ, loop_succ]
      simp only []
      have hp := (readBlock_pres r cap).1.1
      have hpr := readBlock_progress r cap hg
      rcases e1 : readBlock r cap with ⟨r1, got, e⟩
      rw [e1] at hp hpr
      simp only [] at hp hpr ⊢
      cases e with
      | some e => cases e <;> rfl
      | none =>
        simp only []
        rcases sink.write got with ⟨sink', we⟩
        cases we with
        | some we => rfl
        | none =>
          simp only []
          have g1 : Good r1.src := hp.good hg
          have hpos := g1.pos
          have hd := hp.data
          have h4 := hpr rfl
          rw [hd] at hpos
          apply ih f' { r1 with data := r.data } sink' _ g1
          · simp only []; rw [hd]; omega
          · simp only []; rw [hd]; omega

/-- what `WriteTo` does once `init` has returned (restatement of `writeTo_new`) -/
def afterInit (r1 : R) (e : Option Err) (sink : Sink) : R × Sink × Nat × Option Err :=
  let (r, bad) := FrameR.next r1 e
  if bad then (r, sink, 0, e) else
    let cap := poolSize (blockSizeIndex r.flags)
    let (r, sink, n, e) := writeTo.loop cap r sink 0 (r.src.data.size + 4)
    ((FrameR.next r e).1, sink, n, e)

theorem writeTo_new' (r : R) (sink : Sink) (h : r.st = stNew) :
    writeTo r sink = afterInit (init r).1 (init r).2 sink := by
  rw [writeTo_new r sink h]
  rfl

theorem afterInit_sh (pre : Array UInt8) (c : Nat) (r1 : R) (e : Option Err) (sink : Sink) (hg : Good r1.src) :
    afterInit (shR pre c r1) e sink = (shR pre c (afterInit r1 e sink).1, (afterInit r1 e sink).2) := by
  unfold afterInit
  cases e with
  | some e => rfl
  | none =>
    simp only [FrameR.next, Bool.false_eq_true, if_false]
    have h1 : ({ shR pre c r1 with st := readerStates (shR pre c r1).st } : R) =
        shR pre c { r1 with st := readerStates r1.st } := rfl
    rw [h1, shR_size, show (shR pre c r1).flags = r1.flags from rfl,
      loop_sh pre c _ _ { r1 with st := readerStates r1.st } sink 0 hg,
      loop_fuel _ (pre.size + r1.src.data.size + 4) (r1.src.data.size + 4) { r1 with st := readerStates r1.st } sink 0 hg
        (by show r1.src.data.size - r1.src.pos < _; omega) (by show r1.src.data.size - r1.src.pos < _; omega)]
    rcases writeTo.loop (poolSize (blockSizeIndex r1.flags)) { r1 with st := readerStates r1.st } sink 0
      (r1.src.data.size + 4) with ⟨r2, sink2, n2, e2⟩
    cases e2 <;> rfl

theorem init_sh (pre : Array UInt8) (c : Nat) (r : R) (hg : Good r.src) :
    init (shR pre c r) = (shR pre c (init r).1, (init r).2) := by
  rw [init_eq, init_eq, shR_size, parseHeaders_sh pre c _ r hg.failAt,
    parseHeaders_fuel (pre.size + r.src.data.size + 2) (r.src.data.size + 2) r hg (by omega) (by omega)]
  rcases parseHeaders r (r.src.data.size + 2) with ⟨r1, e⟩
  cases e with
  | some e => rfl
  | none =>
    simp only []
    have hfl : (shR pre c r1).flags = r1.flags := rfl
    rw [hfl]
    cases flagBlockIndependence r1.flags <;> rfl

/-! ## a skippable frame in front of any input -/

/-- the bytes of a skippable frame: magic `0x184D2A50 + k`, payload length, payload -/
def skipFrame (k : Nat) (payload : Array UInt8) : Array UInt8 :=
  FrameW.le32 (0x184D2A50 + k) ++ FrameW.le32 payload.size ++ payload

theorem skipFrame_size (k : Nat) (payload : Array UInt8) : (skipFrame k payload).size = 8 + payload.size := by
  obtain ⟨a0, a1, a2, a3, hA⟩ := Header.le32_lit (0x184D2A50 + k)
  obtain ⟨b0, b1, b2, b3, hB⟩ := Header.le32_lit payload.size
  unfold skipFrame; rw [hA, hB]; simp

theorem skipFrame_magic (k : Nat) (payload rest : Array UInt8) :
    (skipFrame k payload ++ rest).extract 0 (0 + 4) = FrameW.le32 (0x184D2A50 + k) := by
  obtain ⟨a0, a1, a2, a3, hA⟩ := Header.le32_lit (0x184D2A50 + k)
  obtain ⟨b0, b1, b2, b3, hB⟩ := Header.le32_lit payload.size
  unfold skipFrame; rw [hA, hB]; simp

theorem skipFrame_len (k : Nat) (payload rest : Array UInt8) :
    (skipFrame k payload ++ rest).extract 4 (4 + 4) = FrameW.le32 payload.size := by
  obtain ⟨a0, a1, a2, a3, hA⟩ := Header.le32_lit (0x184D2A50 + k)
  obtain ⟨b0, b1, b2, b3, hB⟩ := Header.le32_lit payload.size
  unfold skipFrame; rw [hA, hB]; simp

theorem good_eq (s : Source) (hg : Good s) : s = { data := s.data, pos := s.pos, calls := s.calls } := by
  obtain ⟨d, p, ch, ca, fa, ewd⟩ := s
  obtain ⟨h1, h2, h3, -⟩ := hg
  simp only at h1 h2 h3
  subst h1 h2 h3
  rfl

theorem parse_skip (k : Nat) (hk : k < 16) (payload rest : Array UInt8) (hp : payload.size < 2 ^ 32) (num : Nat)
    (fuel : Nat) :
    ∃ c, parseHeaders (r0 (skipFrame k payload ++ rest) num) (fuel + 1) =
      parseHeaders (shR (skipFrame k payload) c (r0 rest num)) fuel := by
  have hsz := skipFrame_size k payload
  have hD : (skipFrame k payload ++ rest).size = 8 + payload.size + rest.size := by
    rw [Array.size_append, hsz]
  have g0 : Good (r0 (skipFrame k payload ++ rest) num).src := ⟨rfl, rfl, rfl, Nat.zero_le _⟩
  rw [FrameR.parseHeaders_succ]
  have hm0 : ¬ (r0 (skipFrame k payload ++ rest) num).magic > 0 := by show ¬ 0 > 0; omega
  rw [if_neg hm0]
  obtain ⟨s1, g1, d1, p1, e1⟩ := readUint32_ok _ g0 (by show 0 + 4 ≤ (skipFrame k payload ++ rest).size; omega)
  rw [e1]
  simp only []
  have hmag : u32 ((r0 (skipFrame k payload ++ rest) num).src.data.extract (r0 (skipFrame k payload ++ rest) num).src.pos
      ((r0 (skipFrame k payload ++ rest) num).src.pos + 4)) = 0x184D2A50 + k := by
    show u32 ((skipFrame k payload ++ rest).extract 0 (0 + 4)) = _
    rw [skipFrame_magic, Header.u32_le32 _ (by omega)]
  rw [hmag]
  have hn1 : ¬ (0x184D2A50 + k = frameMagic ∨ 0x184D2A50 + k = frameMagicLegacy) := by
    unfold frameMagic frameMagicLegacy; omega
  have hsk : (0x184D2A50 + k) / 16 = frameSkipMagic / 16 := by unfold frameSkipMagic; omega
  rw [if_neg hn1, if_pos hsk]
  unfold skipRest
  simp only []
  have p1' : s1.pos = 4 := p1
  have d1' : s1.data = skipFrame k payload ++ rest := d1
  obtain ⟨s2, g2, d2, p2, e2⟩ := readUint32_ok s1 g1 (by rw [p1', d1']; omega)
  rw [e2]
  simp only []
  have hlen : u32 (s1.data.extract s1.pos (s1.pos + 4)) = payload.size := by
    rw [p1', d1', skipFrame_len, Header.u32_le32 _ hp]
  rw [hlen]
  obtain ⟨s3, g3, d3, p3, e3⟩ := discardN_ok s2 g2 payload.size (payload.size + 1) (by omega)
    (by rw [p2, d2, p1', d1']; omega)
  rw [e3]
  simp only []
  refine ⟨s3.calls, ?_⟩
  have hs3 : s3 = shS (skipFrame k payload) s3.calls { data := rest } := by
    rw [good_eq s3 g3]
    simp only [shS]
    rw [d3, d2, d1', p3, p2, p1', hsz]
    rfl
  rw [hs3]
  rfl

theorem good_r0 (bytes : Array UInt8) (num : Nat) : Good (r0 bytes num).src := ⟨rfl, rfl, rfl, Nat.zero_le _⟩

theorem init_skip (k : Nat) (hk : k < 16) (payload rest : Array UInt8) (hp : payload.size < 2 ^ 32) (num : Nat) :
    ∃ c, init (r0 (skipFrame k payload ++ rest) num) =
      (shR (skipFrame k payload) c (init (r0 rest num)).1, (init (r0 rest num)).2) := by
  have hD : (r0 (skipFrame k payload ++ rest) num).src.data.size = 8 + payload.size + rest.size := by
    show (skipFrame k payload ++ rest).size = _
    rw [Array.size_append, skipFrame_size]
  obtain ⟨c, hc⟩ := parse_skip k hk payload rest hp num ((r0 (skipFrame k payload ++ rest) num).src.data.size + 1)
  refine ⟨c, ?_⟩
  rw [init_eq, hc, hD, parseHeaders_sh _ c _ (r0 rest num) rfl,
    parseHeaders_fuel (8 + payload.size + rest.size + 1) ((r0 rest num).src.data.size + 2) (r0 rest num)
      (good_r0 rest num) (by show rest.size - 0 < _; omega) (by show rest.size - 0 < rest.size + 2; omega), init_eq]
  rcases parseHeaders (r0 rest num) ((r0 rest num).src.data.size + 2) with ⟨r1, e⟩
  cases e with
  | some e => rfl
  | none =>
    simp only []
    have hfl : (shR (skipFrame k payload) c r1).flags = r1.flags := rfl
    rw [hfl]
    cases flagBlockIndependence r1.flags <;> rfl

/-- `WriteTo` over a skippable frame followed by `rest` = `WriteTo` over `rest`, shifted -/
theorem writeTo_skip (k : Nat) (hk : k < 16) (payload rest : Array UInt8) (hp : payload.size < 2 ^ 32) (num : Nat)
    (sink : Sink) :
    ∃ c, writeTo (r0 (skipFrame k payload ++ rest) num) sink =
      (shR (skipFrame k payload) c (writeTo (r0 rest num) sink).1, (writeTo (r0 rest num) sink).2) := by
  obtain ⟨c, hc⟩ := init_skip k hk payload rest hp num
  refine ⟨c, ?_⟩
  rw [writeTo_new' _ _ rfl, writeTo_new' _ _ rfl, hc]
  exact afterInit_sh _ c _ _ sink ((init_pres (r0 rest num)).1.good (good_r0 rest num))

theorem readAll_skip (k : Nat) (hk : k < 16) (payload rest : Array UInt8) (hp : payload.size < 2 ^ 32) (num : Nat) :
    Run.readAll (skipFrame k payload ++ rest) num =
      ((Run.readAll rest num).1, (Run.readAll rest num).2.1, (skipFrame k payload).size + (Run.readAll rest num).2.2) := by
  obtain ⟨c, hc⟩ := writeTo_skip k hk payload rest hp num {}
  rw [readAll_eq, readAll_eq, hc]
  rfl

end Lz4V.Proofs.Hostile
