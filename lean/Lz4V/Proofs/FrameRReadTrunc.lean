import Lz4V.Proofs.FrameR2
import Lz4V.Proofs.FrameRRead
/-!
# Proofs.FrameRReadTrunc — what a `Read` session delivered is always (whatever the outcome) a prefix of the
content of the blocks read so far; truncated frames read through `Read` (C06 for Read sessions)
-/
set_option linter.unusedSimpArgs false
set_option linter.unusedVariables false
namespace Lz4V.Proofs.FrameR
open Lz4V Lz4V.Go Lz4V.Gen Lz4V.Model Lz4V.Model.FrameR Lz4V.Model.FrameW

theorem Inv.pos_le' {D : Array UInt8} {info : Spec.Frame.Info} {r : R} {c : Array UInt8}
    (h : Inv D info r c) : r.src.pos ≤ D.size := by
  have := h.good.pos
  rw [h.data] at this
  exact this

/-- whatever the outcome of the `Read` loop, what it delivered is a prefix of the content of the blocks that were
read (`Reach`) -/
theorem readLoop_reach (D : Array UInt8) (info : Spec.Frame.Info) (h0 want : Nat) (pre : Array UInt8) (fuel : Nat) :
    ∀ (r : R) (out content : Array UInt8), Inv D info r content → Reach D info h0 r.src.pos content →
      content = pre ++ out ++ pending r → (r.idx = 0 ∨ r.idx < r.data.size) →
      ∀ r' out' e, readLoop r want out fuel = (r', out', e) →
        ∃ content' pe X, Reach D info h0 pe content' ∧ pe ≤ D.size ∧ content' = pre ++ out' ++ X := by
  induction fuel with
  | zero =>
    intro r out content hinv hreach hc hidx r' out' e h
    rw [readLoop_zero] at h
    simp only [Prod.mk.injEq] at h
    obtain ⟨rfl, rfl, rfl⟩ := h
    exact ⟨content, r.src.pos, pending r, hreach, hinv.pos_le', hc⟩
  | succ fuel ih =>
    intro r out content hinv hreach hc hidx r' out' e h
    have hple0 : r.src.pos ≤ D.size := hinv.pos_le'
    rw [readLoop_succ] at h
    by_cases hsz : out.size ≥ want
    · simp only [hsz, if_true, Prod.mk.injEq] at h
      obtain ⟨rfl, rfl, rfl⟩ := h
      exact ⟨content, r.src.pos, pending r, hreach, hple0, hc⟩
    simp only [hsz, if_false] at h
    have hrem : 0 < want - out.size := by omega
    by_cases hi0 : r.idx = 0
    · rw [if_pos hi0] at h
      have hc0 : content = pre ++ out := by rw [hc, pending_zero r hi0, Array.append_empty]
      rcases readBlock_spec D info r content (want - out.size) hinv with
        ⟨r1, e1, h1, hne⟩ | ⟨s1, g1, d1, h4, hz, p1, h1⟩ | ⟨r1, dst, hinv1, hp, hple, hstep, hidx1, hst1, -, -, hdel⟩
      · -- error
        rw [h1] at h
        have : out' = out := by
          cases e1 <;> first | exact absurd rfl hne | (simp only [] at h; simp only [Bool.true_eq_false, if_true, if_false, Prod.mk.injEq] at h; exact h.2.1.symm)
        rw [this]
        exact ⟨content, r.src.pos, #[], hreach, hple0, by rw [hc0]; simp⟩
      · -- end mark
        rw [h1] at h
        simp only [] at h
        have hout : out' = out := by
          rcases hcl : closeR { r with src := s1 } with ⟨r2, ce⟩
          rw [hcl] at h
          cases ce <;> (simp only [if_true, Prod.mk.injEq] at h; exact h.2.1.symm)
        rw [hout]
        exact ⟨content, r.src.pos, #[], hreach, hple0, by rw [hc0]; simp⟩
      · -- a block
        have hreach1 : Reach D info h0 r1.src.pos (content ++ dst) := hreach.step hp hstep
        have hi1 : r1.idx = 0 := by rw [hidx1]; exact hi0
        rcases hdel with ⟨-, h1, hdata⟩ | ⟨-, h1, hdata⟩
        · rw [h1] at h
          simp only [Bool.false_eq_true, if_false] at h
          by_cases hd : dst.size > 0
          · simp only [hd, if_true] at h
            exact ih r1 (out ++ dst) (content ++ dst) hinv1 hreach1
              (by rw [pending_zero r1 hi1, hc0]; simp) (Or.inl hi1) r' out' e h
          · simp only [hd, if_false] at h
            have hd0 : dst.size = 0 := by omega
            have hdst : dst = #[] := Array.eq_empty_of_size_eq_zero hd0
            simp only [hd0, if_true] at hdata
            have hinv2 : Inv D info { r1 with idx := if r1.idx + min (want - out.size) (r1.data.size - r1.idx) = r1.data.size then 0 else r1.idx + min (want - out.size) (r1.data.size - r1.idx) } (content ++ dst) :=
              hinv1.of_fields rfl rfl rfl rfl rfl
            exact ih _ _ (content ++ dst) hinv2 hreach1
              (by rw [hi1, hdata, hdst, hc0]; simp [pending]) (by rw [hi1, hdata]; simp) r' out' e h
        · rw [h1] at h
          have hsz0 : ¬ (#[] : Array UInt8).size > 0 := by simp
          simp only [Bool.false_eq_true, if_false, hsz0] at h
          have hfp := fill_pending r1 (want - out.size) hrem
            (by rw [hi1, hdata]; by_cases hz : dst.size = 0
                · exact Or.inr ⟨rfl, hz⟩
                · exact Or.inl (by omega))
          simp only [] at hfp
          have hinv2 : Inv D info { r1 with idx := if r1.idx + min (want - out.size) (r1.data.size - r1.idx) = r1.data.size then 0 else r1.idx + min (want - out.size) (r1.data.size - r1.idx) } (content ++ dst) :=
            hinv1.of_fields rfl rfl rfl rfl rfl
          exact ih _ _ (content ++ dst) hinv2 hreach1
            (by
              have h1' := hfp.1
              rw [hi1, hdata] at h1'
              have : dst.extract 0 dst.size = dst := by simp
              rw [this] at h1'
              rw [hc0]
              conv => lhs; rw [h1']
              simp only [hi1, hdata, Array.append_assoc])
            hfp.2 r' out' e h
    · -- serve from the buffer
      rw [if_neg hi0] at h
      have hsz0 : ¬ (#[] : Array UInt8).size > 0 := by simp
      simp only [Bool.false_eq_true, if_false, hsz0] at h
      have hlt : r.idx < r.data.size := by
        rcases hidx with h | h
        · exact absurd h hi0
        · exact h
      have hfp := fill_pending r (want - out.size) hrem (Or.inl hlt)
      simp only [] at hfp
      have hinv2 : Inv D info { r with idx := if r.idx + min (want - out.size) (r.data.size - r.idx) = r.data.size then 0 else r.idx + min (want - out.size) (r.data.size - r.idx) } content :=
        hinv.of_fields rfl rfl rfl rfl rfl
      exact ih _ _ content hinv2 hreach
        (by rw [hc, pending_pos r hi0]
            conv => lhs; rw [hfp.1]
            simp only [Array.append_assoc])
        hfp.2 r' out' e h

/-- the same for a whole session of `Read` calls -/
theorem go_reach (D : Array UInt8) (info : Spec.Frame.Info) (h0 : Nat) (sizes : List Nat) :
    ∀ (r : R) (del : Array UInt8), SInv D info h0 r del → ∀ out e c,
      Run.readWith.go r del sizes = (out, e, c) →
      ∃ content' pe X, Reach D info h0 pe content' ∧ pe ≤ D.size ∧ content' = out ++ X := by
  induction sizes with
  | nil =>
    intro r del hs out e c h
    obtain ⟨content, hinv, hreach, hc, hidx, hst⟩ := hs
    rw [go_nil] at h
    simp only [Prod.mk.injEq] at h
    obtain ⟨rfl, rfl, rfl⟩ := h
    exact ⟨content, r.src.pos, pending r, hreach, hinv.pos_le', hc⟩
  | cons n ns ih =>
    intro r del hs out e c h
    obtain ⟨content, hinv, hreach, hc, hidx, hst⟩ := hs
    rw [go_cons, read_stRead r n hst] at h
    rcases hl : readLoop r n #[] (r.src.data.size + n + 4) with ⟨r', out', e'⟩
    rw [hl] at h
    simp only [] at h
    cases e' with
    | none =>
      simp only [check_none] at h
      have hspec := readLoop_spec D info h0 n del _ r #[] content hinv hreach (by rw [hc]; simp) hidx r' out' none hl
      obtain ⟨c', a1, a2, a3, a4, a5⟩ := hspec.1 rfl
      exact ih r' (del ++ out') ⟨c', a1, a2, a3, a4, by rw [a5, hst]⟩ out e c h
    | some e' =>
      simp only [Prod.mk.injEq] at h
      obtain ⟨rfl, rfl, rfl⟩ := h
      exact readLoop_reach D info h0 n del _ r #[] content hinv hreach (by rw [hc]; simp) hidx r' out' _ hl

/-- the ways a `Read` session over a whole-read source can go -/
theorem readWith_cases (bytes : Array UInt8) (sizes : List Nat) (num : Nat) :
    ((Run.readWith bytes sizes num).1 = #[] ∧
      ((Run.readWith bytes sizes num).2.1 = some .eof →
        bytes.size = 0 ∨ (4 ≤ bytes.size ∧ Spec.Frame.skipLo ≤ u32 (bytes.extract 0 4) ∧
          u32 (bytes.extract 0 4) ≤ Spec.Frame.skipHi))) ∨
    (∃ p, 4 ≤ p ∧ p ≤ bytes.size ∧ ∀ T F, p < F →
      Spec.Frame.skipToFrame F ((bytes.extract 0 p).toList ++ T) = .error .badMagic) ∨
    (∃ pm h0 info content' pe X, 4 ≤ pm ∧ pm + 3 ≤ h0 ∧
      (∀ T F, pm < F → Spec.Frame.skipToFrame F ((bytes.extract 0 pm).toList ++ T) = .ok T) ∧
      (∀ T, Spec.Frame.header ((bytes.extract pm h0).toList ++ T) false = .ok (info, T)) ∧
      Reach bytes info h0 pe content' ∧ pe ≤ bytes.size ∧ content' = (Run.readWith bytes sizes num).1 ++ X ∧
      ((Run.readWith bytes sizes num).2.1 = some .eof → ∃ pe', Reach bytes info h0 pe' (Run.readWith bytes sizes num).1 ∧
        EndOk bytes info pe' (Run.readWith bytes sizes num).2.2 (Run.readWith bytes sizes num).1)) := by
  rw [readWith_eq]
  cases sizes with
  | nil => left; rw [go_nil]; exact ⟨rfl, by simp⟩
  | cons n ns =>
    have hg0 : Good (r0 bytes num).src := ⟨rfl, rfl, rfl, Nat.zero_le _⟩
    rcases hinit : init (r0 bytes num) with ⟨r2, e2⟩
    have hspec := init_spec bytes (r0 bytes num) hg0 rfl rfl r2 e2 hinit
    cases e2 with
    | some e =>
      left
      rw [go_cons, read_stNew_err _ _ rfl r2 e hinit]
      simp only []
      refine ⟨by simp, ?_⟩
      intro he
      simp only [Option.some.injEq] at he
      subst he
      have := init_eof (r0 bytes num) hg0 rfl r2 hinit
      simp only [r0] at this
      rcases this with h | h
      · left; omega
      · right; simpa using h
    | none =>
      obtain ⟨r1, ⟨s', fl, csz, m, g', d', hr1, hcase⟩, f1, f2, f3, f4, f5, f6, f7, f8⟩ := hspec.1 rfl
      simp only [r0] at hr1 hcase
      rcases hcase with ⟨hm, pm, info, hpm1, hpm2, hfm, hskip, hhdr⟩ | ⟨hm, hfl, hq1, hq2, hq3, hskip⟩
      · right; right
        have hst2 : r2.st = stNew := by rw [f6, hr1]
        have hgo : Run.readWith.go (r0 bytes num) #[] (n :: ns) =
            Run.readWith.go { r2 with st := readerStates r2.st } #[] (n :: ns) := by
          rw [go_cons, go_cons, read_stNew_ok _ _ rfl r2 hinit hst2]
        rw [hgo]
        have hinv : Inv bytes info { r2 with st := readerStates r2.st } #[] := by
          refine ⟨?_, ?_, ?_, ?_, ?_, ?_, ?_⟩
          · show Good r2.src
            rw [f1, hr1]; exact g'
          · show r2.src.data = bytes
            rw [f1, hr1]; exact d'
          · show r2.magic = frameMagic
            rw [f2, hr1]; exact hm
          · show FlagsMatch r2.flags info
            rw [f3, hr1]; exact hfm
          · intro _ _
            show Proofs.XXH.Inv r2.cks _
            rw [f4, hr1]
            exact Proofs.XXH.inv_reset XXH.zero
          · intro _
            show r2.dict = #[]
            rw [f5, hr1]
          · intro _
            refine ⟨#[], ?_, Or.inl rfl⟩
            show #[] = #[] ++ r2.dict
            rw [f5, hr1]; rfl
        have hpos : r2.src.pos = s'.pos := by rw [f1, hr1]
        have hs : SInv bytes info s'.pos { r2 with st := readerStates r2.st } #[] := by
          refine ⟨#[], hinv, by simp only []; rw [hpos]; exact Reach.start _ _ _, ?_, Or.inl f7, ?_⟩
          · rw [pending_zero { r2 with st := readerStates r2.st } f7]; rfl
          · show readerStates r2.st = stRead
            rw [hst2]; decide
        rcases hres : Run.readWith.go { r2 with st := readerStates r2.st } #[] (n :: ns) with ⟨out, e, c⟩
        obtain ⟨content', pe, X, hreach, hpe, hX⟩ := go_reach bytes info s'.pos (n :: ns) _ #[] hs out e c hres
        refine ⟨pm, s'.pos, info, content', pe, X, hpm1, hpm2, fun T F hF => hskip T F (by omega), hhdr, hreach, hpe, hX, ?_⟩
        intro he
        simp only [] at he
        subst he
        exact go_spec bytes info s'.pos (n :: ns) _ #[] hs out c hres
      · right; left
        exact ⟨s'.pos, by omega, hq2, fun T F hF => hskip T F (by omega)⟩

theorem pfx_of_append (a X c : Array UInt8) (h : a ++ X = c.extract 0 (a ++ X).size) :
    a = c.extract 0 a.size := by
  have h2 := congrArg (fun t => t.extract 0 a.size) h
  simp only [Array.extract_append_left, Array.extract_extract] at h2
  simp at h2
  exact h2

/-- a proper prefix of a spec-valid frame read through `Read` calls: never io.EOF, and a prefix of the content
(the argument of `truncated_core`, with `readWith_cases` in place of `readAll_cases`) -/
theorem truncated_read_core (F : Array UInt8) (info : Spec.Frame.Info) (content : Array UInt8)
    (hF : Spec.Frame.decode F.toList false = .ok ⟨info, content, F.size⟩)
    (hmagic : u32 F = frameMagic)
    (k : Nat) (hk0 : 0 < k) (hk : k < F.size) (sizes : List Nat) (num : Nat) :
    (Run.readWith (F.extract 0 k) sizes num).2.1 ≠ some .eof ∧
      (Run.readWith (F.extract 0 k) sizes num).1 =
        content.extract 0 (Run.readWith (F.extract 0 k) sizes num).1.size := by
  have hPsz : (F.extract 0 k).size = k := by simp only [Array.size_extract]; omega
  obtain ⟨T1, T2, rest, hd1, hd2, hd3, hd4⟩ := decode_inv F.toList info content F.size hF
  rw [Array.length_toList] at hd1 hd4
  rcases readWith_cases (F.extract 0 k) sizes num with ⟨h1, h2⟩ | ⟨p, hp4, hp, hbad⟩ |
    ⟨pm, h0, info', content', pe, X, hpm, hh0, hskip, hhdr, hreach, hpele, hX, hend⟩
  · -- the descriptor was not read
    rw [h1]
    refine ⟨?_, by simp⟩
    intro he
    rcases h2 he with h | ⟨h4k, hlo, -⟩
    · omega
    · rw [hPsz] at h4k
      rw [extract_prefix F k 0 4 h4k, u32_extract0 F (by omega), hmagic] at hlo
      exact absurd hlo (by decide)
  · -- a legacy magic: impossible, the specification found a frame
    exfalso
    rw [hPsz] at hp
    have := hbad (F.extract p F.size).toList (F.size + 1) (by omega)
    rw [extract_prefix F k 0 p hp, ← toList_split' F p (by omega), hd1] at this
    simp at this
  · -- the descriptor was read
    rw [hPsz] at hpele
    have hh0pe0 : h0 ≤ pe := hreach.1
    have e1 := hskip (F.extract pm F.size).toList (F.size + 1) (by omega)
    rw [extract_prefix F k 0 pm (by omega), ← toList_split' F pm (by omega), hd1] at e1
    have hT1 : T1 = (F.extract pm F.size).toList := by simpa using e1
    have e2 := hhdr (F.extract h0 F.size).toList
    rw [extract_prefix F k pm h0 (by omega), ← Array.toList_append,
      ← extract_split F pm h0 F.size (by omega) (by omega), ← hT1, hd2] at e2
    simp only [Except.ok.injEq, Prod.mk.injEq] at e2
    obtain ⟨hinfo, hT2⟩ := e2
    subst hinfo
    have hT2len : T2.length = F.size - h0 := by
      rw [hT2, toList_extract_length _ _ _ (Nat.le_refl _)]
    -- the specification on the full frame takes the same steps
    have follow : ∀ pe' c', Reach (F.extract 0 k) info h0 pe' c' → pe' ≤ k →
        ∃ j, h0 ≤ pe' ∧ 4 * j ≤ pe' - h0 ∧
          Spec.Frame.blocks info (F.size - h0 + 1 - j) (F.extract pe' F.size).toList c' = .ok (content, rest) := by
      intro pe' c' hr hle
      obtain ⟨hh0pe, j, hj, hblocks⟩ := hr
      have e3 := hblocks (F.extract pe' F.size).toList (F.size - h0 + 1 - j)
      rw [extract_prefix F k h0 pe' hle, ← Array.toList_append,
        ← extract_split F h0 pe' F.size hh0pe (by omega), ← hT2] at e3
      have hfu : F.size - h0 + 1 - j + j = T2.length + 1 := by omega
      rw [hfu, hd3] at e3
      exact ⟨j, hh0pe, hj, e3.symm⟩
    constructor
    · -- a clean end inside the prefix would end the full frame there too
      intro he
      obtain ⟨pe', hreach', he4, hez, hcase⟩ := hend he
      rw [hPsz] at he4
      obtain ⟨j, hh0pe, hj, e3⟩ := follow pe' _ hreach' (by omega)
      have hF0 : F.size - h0 + 1 - j = (F.size - h0 - j) + 1 := by omega
      have hsp : (F.extract pe' F.size).toList = ((F.extract 0 k).extract pe' (pe' + 4)).toList ++
          (F.extract (pe' + 4) F.size).toList := by
        rw [extract_prefix F k pe' (pe' + 4) he4, ← Array.toList_append,
          ← extract_split F pe' (pe' + 4) F.size (by omega) (by omega)]
      rw [hF0, hsp, blocks_end info _ _ _ _
        (by rw [extract_prefix F k pe' (pe' + 4) he4]; exact size_extract_of_le F pe' 4 (by omega)) hez] at e3
      simp only [Except.ok.injEq, Prod.mk.injEq] at e3
      obtain ⟨-, hrest⟩ := e3
      have hrl : rest.length = F.size - (pe' + 4) := by
        rw [← hrest, toList_extract_length _ _ _ (Nat.le_refl _)]
      rcases hcase with ⟨hcc, -⟩ | ⟨hcc, -, h8, -⟩
      · rcases hd4 with ⟨-, hn⟩ | ⟨hcc', -⟩
        · omega
        · rw [hcc] at hcc'; simp at hcc'
      · rw [hPsz] at h8
        rcases hd4 with ⟨hcc', -⟩ | ⟨-, c, r', hu, hn⟩
        · rw [hcc] at hcc'; simp at hcc'
        · have := u32_length rest c r' hu
          omega
    · -- what was delivered is a prefix of the content of the blocks decoded so far
      obtain ⟨j, -, -, e3⟩ := follow pe content' hreach hpele
      have hp := blocks_prefix info _ _ content' content rest e3
      rw [hX] at hp
      exact pfx_of_append _ _ _ hp

end Lz4V.Proofs.FrameR
