import Lz4V.Go.Slice
/-!
# Proofs.FastBits — byte-level facts about `le32`, `le64`, `tzBytes`
-/
namespace Lz4V.Proofs.FastBits
open Lz4V.Go

theorem or_shl (a b k : Nat) (ha : a < 2 ^ k) : a ||| (b <<< k) = a + b * 2 ^ k := by
  rw [Nat.or_comm, ← Nat.shiftLeft_add_eq_or_of_lt ha, Nat.shiftLeft_eq]; omega

theorem ld_toNat (s : Array UInt8) (i : Nat) : (ld s i).toNat = s[i]!.toNat := by
  unfold ld; rw [UInt8.toNat_toUInt64]

theorem ld_lt (s : Array UInt8) (i : Nat) : (ld s i).toNat < 256 := by
  rw [ld_toNat]; exact UInt8.toNat_lt _

theorem shl_toNat (x : UInt64) (k : Nat) (hk : k < 64) (hx : x.toNat * 2 ^ k < 2 ^ 64) :
    (x <<< (UInt64.ofNat k)).toNat = x.toNat * 2 ^ k := by
  rw [UInt64.toNat_shiftLeft, Nat.shiftLeft_eq]
  have : (UInt64.ofNat k).toNat % 64 = k := by
    rw [UInt64.toNat_ofNat']; omega
  rw [this]; omega

theorem le32_toNat (s : Array UInt8) (i : Nat) :
    (le32 s i).toNat = (ld s i).toNat + 256 * (ld s (i+1)).toNat + 65536 * (ld s (i+2)).toNat
      + 16777216 * (ld s (i+3)).toNat := by
  have h0 := ld_lt s i
  have h1 := ld_lt s (i+1)
  have h2 := ld_lt s (i+2)
  have h3 := ld_lt s (i+3)
  unfold le32
  simp only [UInt64.toNat_or]
  rw [show (8 : UInt64) = UInt64.ofNat 8 from rfl, show (16 : UInt64) = UInt64.ofNat 16 from rfl,
    show (24 : UInt64) = UInt64.ofNat 24 from rfl]
  rw [shl_toNat _ 8 (by omega) (by omega), shl_toNat _ 16 (by omega) (by omega), shl_toNat _ 24 (by omega) (by omega)]
  rw [← Nat.shiftLeft_eq, ← Nat.shiftLeft_eq, ← Nat.shiftLeft_eq]
  rw [or_shl _ _ 8 (by omega)]
  rw [or_shl _ _ 16 (by omega)]
  rw [or_shl _ _ 24 (by omega)]
  omega

theorem le64_toNat (s : Array UInt8) (i : Nat) :
    (le64 s i).toNat = (ld s i).toNat + 256 * (ld s (i+1)).toNat + 65536 * (ld s (i+2)).toNat
      + 16777216 * (ld s (i+3)).toNat + 4294967296 * (ld s (i+4)).toNat
      + 1099511627776 * (ld s (i+5)).toNat + 281474976710656 * (ld s (i+6)).toNat
      + 72057594037927936 * (ld s (i+7)).toNat := by
  have h0 := ld_lt s i
  have h1 := ld_lt s (i+1)
  have h2 := ld_lt s (i+2)
  have h3 := ld_lt s (i+3)
  have h4 := ld_lt s (i+4)
  have h5 := ld_lt s (i+5)
  have h6 := ld_lt s (i+6)
  have h7 := ld_lt s (i+7)
  unfold le64
  simp only [UInt64.toNat_or]
  rw [show (8 : UInt64) = UInt64.ofNat 8 from rfl, show (16 : UInt64) = UInt64.ofNat 16 from rfl,
    show (24 : UInt64) = UInt64.ofNat 24 from rfl, show (32 : UInt64) = UInt64.ofNat 32 from rfl,
    show (40 : UInt64) = UInt64.ofNat 40 from rfl, show (48 : UInt64) = UInt64.ofNat 48 from rfl,
    show (56 : UInt64) = UInt64.ofNat 56 from rfl]
  rw [shl_toNat _ 8 (by omega) (by omega), shl_toNat _ 16 (by omega) (by omega),
    shl_toNat _ 24 (by omega) (by omega), shl_toNat _ 32 (by omega) (by omega),
    shl_toNat _ 40 (by omega) (by omega), shl_toNat _ 48 (by omega) (by omega),
    shl_toNat _ 56 (by omega) (by omega)]
  simp only [← Nat.shiftLeft_eq]
  rw [or_shl _ _ 8 (by omega)]
  rw [or_shl _ _ 16 (by omega)]
  rw [or_shl _ _ 24 (by omega)]
  rw [or_shl _ _ 32 (by omega)]
  rw [or_shl _ _ 40 (by omega)]
  rw [or_shl _ _ 48 (by omega)]
  rw [or_shl _ _ 56 (by omega)]
  omega

theorem getElem!_eq_of_toNat {s : Array UInt8} {i j : Nat} (h : s[i]!.toNat = s[j]!.toNat) : s[i]! = s[j]! :=
  UInt8.toNat_inj.mp h

/-- equal 32-bit loads have equal bytes -/
theorem le32_bytes (s : Array UInt8) (a b : Nat) (h : le32 s a = le32 s b) :
    ∀ j, j < 4 → s[a+j]! = s[b+j]! := by
  have h' := congrArg UInt64.toNat h
  rw [le32_toNat, le32_toNat] at h'
  have a0 := ld_lt s a; have a1 := ld_lt s (a+1); have a2 := ld_lt s (a+2); have a3 := ld_lt s (a+3)
  have b0 := ld_lt s b; have b1 := ld_lt s (b+1); have b2 := ld_lt s (b+2); have b3 := ld_lt s (b+3)
  intro j hj
  apply getElem!_eq_of_toNat
  rw [← ld_toNat, ← ld_toNat]
  have : j = 0 ∨ j = 1 ∨ j = 2 ∨ j = 3 := by omega
  rcases this with rfl | rfl | rfl | rfl
  · show (ld s a).toNat = (ld s b).toNat; omega
  · omega
  · omega
  · omega

/-- equal 64-bit loads have equal bytes -/
theorem le64_bytes (s : Array UInt8) (a b : Nat) (h : le64 s a = le64 s b) :
    ∀ j, j < 8 → s[a+j]! = s[b+j]! := by
  have h' := congrArg UInt64.toNat h
  rw [le64_toNat, le64_toNat] at h'
  have a0 := ld_lt s a; have a1 := ld_lt s (a+1); have a2 := ld_lt s (a+2); have a3 := ld_lt s (a+3)
  have a4 := ld_lt s (a+4); have a5 := ld_lt s (a+5); have a6 := ld_lt s (a+6); have a7 := ld_lt s (a+7)
  have b0 := ld_lt s b; have b1 := ld_lt s (b+1); have b2 := ld_lt s (b+2); have b3 := ld_lt s (b+3)
  have b4 := ld_lt s (b+4); have b5 := ld_lt s (b+5); have b6 := ld_lt s (b+6); have b7 := ld_lt s (b+7)
  intro j hj
  apply getElem!_eq_of_toNat
  rw [← ld_toNat, ← ld_toNat]
  have : j = 0 ∨ j = 1 ∨ j = 2 ∨ j = 3 ∨ j = 4 ∨ j = 5 ∨ j = 6 ∨ j = 7 := by omega
  rcases this with rfl | rfl | rfl | rfl | rfl | rfl | rfl | rfl
  · show (ld s a).toNat = (ld s b).toNat; omega
  all_goals omega

/-- the low 32 bits of the 64-bit load shifted by `k` bytes is the 32-bit load at `i+k` -/
theorem le64_and (s : Array UInt8) (i : Nat) : le64 s i &&& 0xFFFFFFFF = le32 s i := by
  apply UInt64.toNat_inj.mp
  rw [UInt64.toNat_and, show (0xFFFFFFFF : UInt64).toNat = 2^32 - 1 from rfl,
    Nat.and_two_pow_sub_one_eq_mod, le64_toNat, le32_toNat]
  have a0 := ld_lt s i; have a1 := ld_lt s (i+1); have a2 := ld_lt s (i+2); have a3 := ld_lt s (i+3)
  omega

theorem le64_shr8_and (s : Array UInt8) (i : Nat) : (le64 s i >>> 8) &&& 0xFFFFFFFF = le32 s (i+1) := by
  apply UInt64.toNat_inj.mp
  rw [UInt64.toNat_and, show (0xFFFFFFFF : UInt64).toNat = 2^32 - 1 from rfl,
    Nat.and_two_pow_sub_one_eq_mod, UInt64.toNat_shiftRight, show (8 : UInt64).toNat % 64 = 8 from rfl,
    Nat.shiftRight_eq_div_pow, le64_toNat, le32_toNat]
  have a0 := ld_lt s i; have a1 := ld_lt s (i+1); have a2 := ld_lt s (i+2); have a3 := ld_lt s (i+3)
  have a4 := ld_lt s (i+4)
  simp only [Nat.add_assoc, Nat.reduceAdd, Nat.reducePow]
  omega

theorem le64_shr16_and (s : Array UInt8) (i : Nat) : (le64 s i >>> 16) &&& 0xFFFFFFFF = le32 s (i+2) := by
  apply UInt64.toNat_inj.mp
  rw [UInt64.toNat_and, show (0xFFFFFFFF : UInt64).toNat = 2^32 - 1 from rfl,
    Nat.and_two_pow_sub_one_eq_mod, UInt64.toNat_shiftRight, show (16 : UInt64).toNat % 64 = 16 from rfl,
    Nat.shiftRight_eq_div_pow, le64_toNat, le32_toNat]
  have a0 := ld_lt s i; have a1 := ld_lt s (i+1); have a2 := ld_lt s (i+2); have a3 := ld_lt s (i+3)
  have a4 := ld_lt s (i+4); have a5 := ld_lt s (i+5)
  simp only [Nat.add_assoc, Nat.reduceAdd, Nat.reducePow]
  omega

theorem tzBytes_spec (x : UInt64) : tzBytes x ≤ 8 ∧
    (0 < tzBytes x → (x &&& 0xFF != 0) = false) ∧
    (1 < tzBytes x → (x &&& 0xFF00 != 0) = false) ∧
    (2 < tzBytes x → (x &&& 0xFF0000 != 0) = false) ∧
    (3 < tzBytes x → (x &&& 0xFF000000 != 0) = false) ∧
    (4 < tzBytes x → (x &&& 0xFF00000000 != 0) = false) ∧
    (5 < tzBytes x → (x &&& 0xFF0000000000 != 0) = false) ∧
    (6 < tzBytes x → (x &&& 0xFF000000000000 != 0) = false) ∧
    (7 < tzBytes x → (x &&& 0xFF00000000000000 != 0) = false) := by
  unfold tzBytes
  generalize (x &&& 0xFF != 0) = p0
  generalize (x &&& 0xFF00 != 0) = p1
  generalize (x &&& 0xFF0000 != 0) = p2
  generalize (x &&& 0xFF000000 != 0) = p3
  generalize (x &&& 0xFF00000000 != 0) = p4
  generalize (x &&& 0xFF0000000000 != 0) = p5
  generalize (x &&& 0xFF000000000000 != 0) = p6
  generalize (x &&& 0xFF00000000000000 != 0) = p7
  cases p0 <;> cases p1 <;> cases p2 <;> cases p3 <;> cases p4 <;> cases p5 <;> cases p6 <;> cases p7 <;> simp

theorem byte_eq_of_xor_and (X Y j : Nat) (h : (X ^^^ Y) &&& (255 <<< (8*j)) = 0) :
    X / 2^(8*j) % 256 = Y / 2^(8*j) % 256 := by
  apply Nat.eq_of_testBit_eq
  intro b
  have h256 : (256:Nat) = 2^8 := rfl
  rw [h256, Nat.testBit_mod_two_pow, Nat.testBit_mod_two_pow, Nat.testBit_div_two_pow, Nat.testBit_div_two_pow]
  by_cases hb : b < 8
  · have := congrArg (fun z => z.testBit (8*j + b)) h
    have h255 : (255:Nat) = 2^8 - 1 := rfl
    simp only [Nat.testBit_and, Nat.testBit_xor, Nat.testBit_shiftLeft, Nat.zero_testBit, h255, Nat.testBit_two_pow_sub_one] at this
    have e : 8 * j + b - 8 * j = b := by omega
    have e2 : 8 * j + b ≥ 8*j := by omega
    simp only [e, hb, e2, decide_true, Bool.and_true] at this
    simp only [hb, decide_true, Bool.true_and]
    have e3 : 8 * j + b = b + 8 * j := by omega
    rw [e3] at this
    revert this
    cases X.testBit (b + 8*j) <;> cases Y.testBit (b+8*j) <;> simp
  · simp [hb]

theorem xor_mask_byte (s : Array UInt8) (a b j : Nat) (hj : j < 8) (M : UInt64)
    (hM : M.toNat = 255 <<< (8*j)) (h : ((le64 s a ^^^ le64 s b) &&& M != 0) = false) :
    s[a+j]! = s[b+j]! := by
  have h1 : (le64 s a ^^^ le64 s b) &&& M = 0 := by
    simpa using h
  have h2 := congrArg UInt64.toNat h1
  rw [UInt64.toNat_and, UInt64.toNat_xor, hM] at h2
  have h3 := byte_eq_of_xor_and _ _ j h2
  rw [le64_toNat, le64_toNat] at h3
  have a0 := ld_lt s a; have a1 := ld_lt s (a+1); have a2 := ld_lt s (a+2); have a3 := ld_lt s (a+3)
  have a4 := ld_lt s (a+4); have a5 := ld_lt s (a+5); have a6 := ld_lt s (a+6); have a7 := ld_lt s (a+7)
  have b0 := ld_lt s b; have b1 := ld_lt s (b+1); have b2 := ld_lt s (b+2); have b3 := ld_lt s (b+3)
  have b4 := ld_lt s (b+4); have b5 := ld_lt s (b+5); have b6 := ld_lt s (b+6); have b7 := ld_lt s (b+7)
  apply getElem!_eq_of_toNat
  rw [← ld_toNat, ← ld_toNat]
  have : j = 0 ∨ j = 1 ∨ j = 2 ∨ j = 3 ∨ j = 4 ∨ j = 5 ∨ j = 6 ∨ j = 7 := by omega
  rcases this with rfl | rfl | rfl | rfl | rfl | rfl | rfl | rfl
  · simp only [Nat.mul_zero, Nat.pow_zero, Nat.div_one] at h3
    show (ld s a).toNat = (ld s b).toNat; omega
  all_goals (simp only [Nat.reduceMul, Nat.reducePow] at h3; omega)

/-- `tzBytes` of the xor of two 64-bit loads counts (at most) the equal low-order bytes -/
theorem tzBytes_bytes (s : Array UInt8) (a b : Nat) :
    ∀ j, j < tzBytes (le64 s a ^^^ le64 s b) → s[a+j]! = s[b+j]! := by
  obtain ⟨h8, c0, c1, c2, c3, c4, c5, c6, c7⟩ := tzBytes_spec (le64 s a ^^^ le64 s b)
  intro j hj
  have : j = 0 ∨ j = 1 ∨ j = 2 ∨ j = 3 ∨ j = 4 ∨ j = 5 ∨ j = 6 ∨ j = 7 := by omega
  rcases this with rfl | rfl | rfl | rfl | rfl | rfl | rfl | rfl
  · exact xor_mask_byte s a b 0 (by omega) _ rfl (c0 hj)
  · exact xor_mask_byte s a b 1 (by omega) _ rfl (c1 hj)
  · exact xor_mask_byte s a b 2 (by omega) _ rfl (c2 hj)
  · exact xor_mask_byte s a b 3 (by omega) _ rfl (c3 hj)
  · exact xor_mask_byte s a b 4 (by omega) _ rfl (c4 hj)
  · exact xor_mask_byte s a b 5 (by omega) _ rfl (c5 hj)
  · exact xor_mask_byte s a b 6 (by omega) _ rfl (c6 hj)
  · exact xor_mask_byte s a b 7 (by omega) _ rfl (c7 hj)

theorem tzBytes_le (x : UInt64) : tzBytes x ≤ 8 := (tzBytes_spec x).1

end Lz4V.Proofs.FastBits
