import Lz4V.Model.FrameR
/-!
# Proofs.Header — helper lemmas for C19 (frame header parser)
-/
namespace Lz4V.Proofs.Header
open Lz4V Lz4V.Go Lz4V.Model Lz4V.Gen Lz4V.Model.FrameW Lz4V.Model.FrameR

/-- the source after a successful whole read of `want` bytes -/
def adv (s : Source) (want : Nat) : Source := { s with pos := s.pos + want, calls := s.calls + 1 }

/-- whole-read source: no chunking, no injected failure, EOF is reported separately -/
def Whole (s : Source) : Prop := s.chunk = 0 ∧ s.failAt = none ∧ s.eofWithData = false

theorem whole_adv {s : Source} (h : Whole s) (n : Nat) : Whole (adv s n) := h

theorem read_whole (s : Source) (want : Nat) (hw : Whole s) (h0 : 0 < want)
    (hle : s.pos + want ≤ s.data.size) :
    s.read want = (adv s want, s.data.extract s.pos (s.pos + want), none) := by
  obtain ⟨hc, hf, he⟩ := hw
  unfold Source.read
  rw [hf]
  simp only []
  unfold Source.read.go
  have h1 : ¬ want = 0 := by omega
  have h2 : ¬ (s.data.size - s.pos = 0) := by omega
  have h3 : min (min want (s.data.size - s.pos)) want = want := by omega
  simp only [h1, h2, hc, he, if_false, if_true, h3, adv]
  simp [hf]

theorem readFull_whole (s : Source) (want : Nat) (hw : Whole s) (h0 : 0 < want)
    (hle : s.pos + want ≤ s.data.size) :
    readFull s want = (adv s want, s.data.extract s.pos (s.pos + want), none) := by
  unfold readFull
  obtain ⟨k, rfl⟩ : ∃ k, want = k + 1 := ⟨want - 1, by omega⟩
  rw [readFull.loop]
  have h1 : ¬ ((#[] : Array UInt8).size ≥ k + 1) := by simp
  rw [if_neg h1]
  have : k + 1 - (#[] : Array UInt8).size = k + 1 := by simp
  rw [this, read_whole s (k+1) hw h0 hle]
  simp only []
  have hsz : (s.data.extract s.pos (s.pos + (k + 1))).size = k + 1 := by
    simp only [Array.size_extract]; omega
  have h2 : ¬ ((s.data.extract s.pos (s.pos + (k + 1))).size = 0) := by omega
  rw [if_neg h2, readFull.loop]
  simp only [Array.empty_append]
  rw [if_pos (by omega)]


/-! ## bit-field getters as arithmetic -/

theorem flagSize_iff (x : UInt16) : Gen.flagSize x = true ↔ x.toNat / 8 % 2 = 1 := by
  unfold Gen.flagSize
  rw [bne_iff_ne, Ne, ← UInt16.toNat_inj, UInt16.toNat_and, UInt16.toNat_shiftRight]
  have h3 : (3 : UInt16).toNat % 16 = 3 := by decide
  have h1 : (1 : UInt16).toNat = 1 := by decide
  have h0 : (0 : UInt16).toNat = 0 := by decide
  rw [h3, h1, h0, Nat.and_one_is_mod, Nat.shiftRight_eq_div_pow]
  omega

theorem blockSizeIndex_eq (x : UInt16) : FrameW.blockSizeIndex x = x.toNat / 4096 % 8 := by
  unfold FrameW.blockSizeIndex
  rw [UInt16.toNat_and, UInt16.toNat_shiftRight]
  have h3 : (12 : UInt16).toNat % 16 = 12 := by decide
  have h1 : (7 : UInt16).toNat = 2^3 - 1 := by decide
  rw [h3, h1, Nat.and_two_pow_sub_one_eq_mod, Nat.shiftRight_eq_div_pow]

/-- the descriptor flags word the parser builds from FLG and BD -/
def flagsOf (flg bd : UInt8) : FrameW.Flags := (flg.toNat + 256 * bd.toNat).toUInt16

theorem flagsOf_toNat (flg bd : UInt8) : (flagsOf flg bd).toNat = flg.toNat + 256 * bd.toNat := by
  have := flg.toNat_lt
  have := bd.toNat_lt
  simp only [flagsOf, Nat.toUInt16_eq, UInt16.toNat_ofNat']
  omega

theorem flagSize_flagsOf (flg bd : UInt8) : Gen.flagSize (flagsOf flg bd) = true ↔ flg.toNat / 8 % 2 = 1 := by
  rw [flagSize_iff, flagsOf_toNat]; omega

theorem blockSizeIndex_flagsOf (flg bd : UInt8) :
    FrameW.blockSizeIndex (flagsOf flg bd) = bd.toNat / 16 % 8 := by
  have := flg.toNat_lt
  rw [blockSizeIndex_eq, flagsOf_toNat]; omega

theorem u32_le32 (m : Nat) (h : m < 2^32) : FrameR.u32 (FrameW.le32 m) = m := by
  unfold FrameR.u32 FrameW.le32
  simp [Nat.toUInt8_eq, UInt8.toNat_ofNat']
  omega

theorem readUint32_whole (s : Source) (hw : Whole s) (hle : s.pos + 4 ≤ s.data.size) :
    FrameR.readUint32 s = (adv s 4, FrameR.u32 (s.data.extract s.pos (s.pos + 4)), none) := by
  unfold FrameR.readUint32
  rw [readFull_whole s 4 hw (by omega) hle]

/-- `parseHeaders` after the descriptor (and content size) bytes `buf` have been read -/
def finish (r : R) (flags : Flags) (buf : Array UInt8) : R × Option Err :=
  let r := if flagSize flags then
      { r with contentSize := u32 (buf.extract 2 6) + 4294967296 * u32 (buf.extract 6 10) } else r
  let ck := buf[buf.size - 1]!
  let body := buf.extract 0 (buf.size - 1)
  if ck.toNat ≠ (XXH.checksumZero body.toList).toNat / 256 % 256 then (r, some .badHeaderChecksum) else
  let idx := blockSizeIndex flags
  if ¬ (idx = 4 ∨ idx = 5 ∨ idx = 6 ∨ idx = 7) then (r, some .badBlockSize) else
  ({ r with cks := XXH.reset r.cks }, none)

/-- `parseHeaders` after the three bytes `b` following the magic have been read -/
def afterFlg (r : R) (b : Array UInt8) : R × Option Err :=
  let flags : Flags := (b[0]!.toNat + 256 * b[1]!.toNat).toUInt16
  let r := { r with flags := flags }
  let step2 : R × Array UInt8 × Option Err :=
    if flagSize flags then
      let (s, b8, e) := readFull r.src 8
      ({ r with src := s }, b ++ b8, e)
    else (r, b, none)
  let (r, buf, e) := step2
  match e with
  | some e => (r, unexpected (some e))
  | none => finish r flags buf

/-- `parseHeaders` after the magic word `m` has been read -/
def afterMagic (r : R) (m : Nat) (fuel : Nat) : R × Option Err :=
    let r := { r with magic := m }
    if m = frameMagic ∨ m = frameMagicLegacy then
      if m = frameMagicLegacy then
        ({ r with flags := blockSizeIndexSet 0 (indexOf Block8Mb).toUInt16, cks := XXH.reset r.cks }, none)
      else
        let (s, b, e) := readFull r.src 3
        let r := { r with src := s }
        match e with
        | some e => (r, unexpected (some e))
        | none => afterFlg r b
    else if m / 16 = frameSkipMagic / 16 then
      let (s, n, e) := readUint32 r.src
      let r := { r with src := s }
      match e with
      | some e => (r, unexpected (some e))
      | none =>
        let (s, e) := discardN r.src n (n + 1)
        let r := { r with src := s }
        match e with
        | some e => (r, unexpected (some e))
        | none => parseHeaders { r with magic := 0 } fuel
    else (r, some .badMagic)

/-- one unfolding step of `parseHeaders` (`unfold`/`rw [parseHeaders]` time out while generating the
equation lemmas, so the body is restated, in three stages, and checked by `rfl`) -/
theorem parseHeaders_succ (r : FrameR.R) (fuel : Nat) : FrameR.parseHeaders r (fuel+1) =
    (if r.magic > 0 then (r, none) else
    let (s, m, e) := readUint32 r.src
    let r := { r with src := s }
    match e with
    | some e => (r, some e)
    | none => afterMagic r m fuel) := rfl

theorem parse_magic (r : R) (fuel : Nat) (hm : r.magic = 0) (hw : Whole r.src)
    (hle : r.src.pos + 4 ≤ r.src.data.size) :
    parseHeaders r (fuel + 1) =
      afterMagic { r with src := adv r.src 4 } (u32 (r.src.data.extract r.src.pos (r.src.pos + 4))) fuel := by
  rw [parseHeaders_succ, if_neg (by omega), readUint32_whole _ hw hle]

theorem magic_lt : frameMagic < 2^32 := by unfold frameMagic; omega
theorem magic_ne : ¬ frameMagic = frameMagicLegacy := by unfold frameMagic frameMagicLegacy; omega

theorem afterMagic_frame (r : R) (fuel : Nat) (hw : Whole r.src) (hle : r.src.pos + 3 ≤ r.src.data.size) :
    afterMagic r frameMagic fuel =
      afterFlg { r with magic := frameMagic, src := adv r.src 3 } (r.src.data.extract r.src.pos (r.src.pos + 3)) := by
  unfold afterMagic
  simp only [true_or, if_true, if_neg magic_ne, readFull_whole _ 3 hw (by omega : 0 < 3) hle]

theorem afterFlg_nosize (r : R) (flg bd x : UInt8) (hs : ¬ flg.toNat / 8 % 2 = 1) :
    afterFlg r #[flg, bd, x] = finish { r with flags := flagsOf flg bd } (flagsOf flg bd) #[flg, bd, x] := by
  have hfs : ¬ flagSize (flagsOf flg bd) = true := by rw [flagSize_flagsOf]; exact hs
  unfold afterFlg
  have : ((#[flg, bd, x][0]!).toNat + 256 * (#[flg, bd, x][1]!).toNat).toUInt16 = flagsOf flg bd := rfl
  simp only [this]
  rw [if_neg hfs]

theorem afterFlg_size (r : R) (flg bd x : UInt8) (hs : flg.toNat / 8 % 2 = 1) (hw : Whole r.src)
    (hle : r.src.pos + 8 ≤ r.src.data.size) :
    afterFlg r #[flg, bd, x] = finish { r with flags := flagsOf flg bd, src := adv r.src 8 } (flagsOf flg bd)
      (#[flg, bd, x] ++ r.src.data.extract r.src.pos (r.src.pos + 8)) := by
  have hfs : flagSize (flagsOf flg bd) = true := by rw [flagSize_flagsOf]; exact hs
  unfold afterFlg
  have : ((#[flg, bd, x][0]!).toNat + 256 * (#[flg, bd, x][1]!).toNat).toUInt16 = flagsOf flg bd := rfl
  simp only [this]
  rw [if_pos hfs, readFull_whole _ 8 hw (by omega) hle]

/-- the three outcomes of the checksum / block-size checks -/
def verdict (r : R) (ck : UInt8) (desc : List UInt8) (bd : UInt8) : R × Option Err :=
  if ck.toNat ≠ (XXH.checksumZero desc).toNat / 256 % 256 then (r, some .badHeaderChecksum) else
  if ¬ (bd.toNat / 16 % 8 = 4 ∨ bd.toNat / 16 % 8 = 5 ∨ bd.toNat / 16 % 8 = 6 ∨ bd.toNat / 16 % 8 = 7) then
    (r, some .badBlockSize) else
  ({ r with cks := XXH.reset r.cks }, none)

theorem finish_nosize (r : R) (flg bd ck : UInt8) (hs : ¬ flg.toNat / 8 % 2 = 1) :
    finish r (flagsOf flg bd) #[flg, bd, ck] = verdict r ck [flg, bd] bd := by
  have hfs : ¬ flagSize (flagsOf flg bd) = true := by rw [flagSize_flagsOf]; exact hs
  unfold finish verdict
  rw [if_neg hfs, blockSizeIndex_flagsOf]
  rfl

theorem le32_lit (x : Nat) : ∃ a b c d, FrameW.le32 x = #[a, b, c, d] := ⟨_, _, _, _, rfl⟩

theorem finish_size (r : R) (flg bd x ck : UInt8) (n : Nat) (hn : n < 2^64) (t : Array UInt8) (hs : flg.toNat / 8 % 2 = 1)
    (ht : #[x] ++ t = FrameW.le64 n ++ #[ck]) :
    finish r (flagsOf flg bd) (#[flg, bd, x] ++ t) =
      verdict { r with contentSize := n } ck ([flg, bd] ++ (FrameW.le64 n).toList) bd := by
  have hfs : flagSize (flagsOf flg bd) = true := by rw [flagSize_flagsOf]; exact hs
  have hbuf : #[flg, bd, x] ++ t = #[flg, bd] ++ FrameW.le64 n ++ #[ck] := by
    have : #[flg, bd, x] ++ t = #[flg, bd] ++ (#[x] ++ t) := by simp
    rw [this, ht, Array.append_assoc]
  have hlo := u32_le32 (n % 4294967296) (by omega)
  have hhi := u32_le32 (n / 4294967296) (by omega)
  rw [hbuf]
  unfold finish verdict FrameW.le64
  obtain ⟨a0, a1, a2, a3, hA⟩ := le32_lit (n % 4294967296)
  obtain ⟨b0, b1, b2, b3, hB⟩ := le32_lit (n / 4294967296)
  rw [hA] at hlo ⊢
  rw [hB] at hhi ⊢
  rw [if_pos hfs, blockSizeIndex_flagsOf]
  have e1 : (#[flg, bd] ++ (#[a0, a1, a2, a3] ++ #[b0, b1, b2, b3]) ++ #[ck]).extract 2 6 = #[a0, a1, a2, a3] := by
    simp
  have e2 : (#[flg, bd] ++ (#[a0, a1, a2, a3] ++ #[b0, b1, b2, b3]) ++ #[ck]).extract 6 10 = #[b0, b1, b2, b3] := by
    simp
  have e3 : (#[flg, bd] ++ (#[a0, a1, a2, a3] ++ #[b0, b1, b2, b3]) ++ #[ck]).size - 1 = 10 := by simp
  have e4 : (#[flg, bd] ++ (#[a0, a1, a2, a3] ++ #[b0, b1, b2, b3]) ++ #[ck])[10]! = ck := by simp
  have e5 : ((#[flg, bd] ++ (#[a0, a1, a2, a3] ++ #[b0, b1, b2, b3]) ++ #[ck]).extract 0 10).toList =
      [flg, bd] ++ (#[a0, a1, a2, a3] ++ #[b0, b1, b2, b3]).toList := by
    simp
  simp only [e1, e2, e3, e4, e5, hlo, hhi]
  have : n % 4294967296 + 4294967296 * (n / 4294967296) = n := by omega
  rw [this]

/-! ## the whole parse of a header held by a whole-read source -/

/-- a whole-read source holding `bytes` -/
def srcOf (bytes : Array UInt8) : Source := { data := bytes }

theorem whole_srcOf (b : Array UInt8) : Whole (srcOf b) := ⟨rfl, rfl, rfl⟩

theorem parse_nosize (b : Array UInt8) (flg bd ck : UInt8) (fuel : Nat) (hsz : 7 ≤ b.size)
    (h0 : b.extract 0 4 = FrameW.le32 frameMagic) (h1 : b.extract 4 7 = #[flg, bd, ck])
    (hs : ¬ flg.toNat / 8 % 2 = 1) :
    parseHeaders (FrameR.new (srcOf b)) (fuel + 1) =
      verdict { src := { data := b, pos := 7, calls := 2 }, magic := frameMagic, flags := flagsOf flg bd }
        ck [flg, bd] bd := by
  rw [parse_magic _ _ rfl (whole_srcOf b) (by show 0 + 4 ≤ b.size; omega)]
  have e0 : (FrameR.new (srcOf b)).src.data.extract (FrameR.new (srcOf b)).src.pos
      ((FrameR.new (srcOf b)).src.pos + 4) = FrameW.le32 frameMagic := h0
  rw [e0, u32_le32 _ magic_lt,
    afterMagic_frame _ _ (whole_adv (whole_srcOf b) 4) (by show 0 + 4 + 3 ≤ b.size; omega)]
  have e1 : (adv (FrameR.new (srcOf b)).src 4).data.extract (adv (FrameR.new (srcOf b)).src 4).pos
      ((adv (FrameR.new (srcOf b)).src 4).pos + 3) = #[flg, bd, ck] := h1
  simp only []
  rw [e1, afterFlg_nosize _ _ _ _ hs, finish_nosize _ _ _ _ hs]
  rfl

theorem parse_size (b : Array UInt8) (flg bd x ck : UInt8) (n : Nat) (hn : n < 2^64) (fuel : Nat) (hsz : 15 ≤ b.size)
    (h0 : b.extract 0 4 = FrameW.le32 frameMagic) (h1 : b.extract 4 7 = #[flg, bd, x])
    (h2 : #[x] ++ b.extract 7 15 = FrameW.le64 n ++ #[ck])
    (hs : flg.toNat / 8 % 2 = 1) :
    parseHeaders (FrameR.new (srcOf b)) (fuel + 1) =
      verdict { src := { data := b, pos := 15, calls := 3 }, magic := frameMagic, flags := flagsOf flg bd,
                contentSize := n }
        ck ([flg, bd] ++ (FrameW.le64 n).toList) bd := by
  rw [parse_magic _ _ rfl (whole_srcOf b) (by show 0 + 4 ≤ b.size; omega)]
  have e0 : (FrameR.new (srcOf b)).src.data.extract (FrameR.new (srcOf b)).src.pos
      ((FrameR.new (srcOf b)).src.pos + 4) = FrameW.le32 frameMagic := h0
  rw [e0, u32_le32 _ magic_lt,
    afterMagic_frame _ _ (whole_adv (whole_srcOf b) 4) (by show 0 + 4 + 3 ≤ b.size; omega)]
  have e1 : (adv (FrameR.new (srcOf b)).src 4).data.extract (adv (FrameR.new (srcOf b)).src 4).pos
      ((adv (FrameR.new (srcOf b)).src 4).pos + 3) = #[flg, bd, x] := h1
  simp only []
  rw [e1, afterFlg_size _ _ _ _ hs (whole_adv (whole_adv (whole_srcOf b) 4) 3) (by show 0 + 4 + 3 + 8 ≤ b.size; omega)]
  have e2 : #[x] ++ (adv (adv (FrameR.new (srcOf b)).src 4) 3).data.extract
      (adv (adv (FrameR.new (srcOf b)).src 4) 3).pos
      ((adv (adv (FrameR.new (srcOf b)).src 4) 3).pos + 8) = FrameW.le64 n ++ #[ck] := h2
  simp only []
  rw [finish_size _ _ _ _ ck n hn _ hs e2]
  rfl

theorem afterMagic_bad (r : R) (m fuel : Nat) (h1 : m ≠ frameMagic) (h2 : m ≠ frameMagicLegacy)
    (h3 : ¬ (0x184D2A50 ≤ m ∧ m ≤ 0x184D2A5F)) :
    afterMagic r m fuel = ({ r with magic := m }, some .badMagic) := by
  have h4 : ¬ (m / 16 = frameSkipMagic / 16) := by unfold frameSkipMagic; omega
  unfold afterMagic
  simp only [h1, h2, h4, or_self, if_false]

theorem parse_badMagic (b : Array UInt8) (m fuel : Nat) (hm : m < 2^32) (hsz : 4 ≤ b.size)
    (h0 : b.extract 0 4 = FrameW.le32 m) (h1 : m ≠ frameMagic) (h2 : m ≠ frameMagicLegacy)
    (h3 : ¬ (0x184D2A50 ≤ m ∧ m ≤ 0x184D2A5F)) :
    parseHeaders (FrameR.new (srcOf b)) (fuel + 1) =
      ({ src := { data := b, pos := 4, calls := 1 }, magic := m }, some .badMagic) := by
  rw [parse_magic _ _ rfl (whole_srcOf b) (by show 0 + 4 ≤ b.size; omega)]
  have e0 : (FrameR.new (srcOf b)).src.data.extract (FrameR.new (srcOf b)).src.pos
      ((FrameR.new (srcOf b)).src.pos + 4) = FrameW.le32 m := h0
  rw [e0, u32_le32 _ hm, afterMagic_bad _ _ _ h1 h2 h3]
  rfl

/-- comparing a byte with a number below 256 -/
theorem byte_ne_iff (ck : UInt8) (k : Nat) (hk : k < 256) : ck.toNat ≠ k ↔ ck ≠ k.toUInt8 := by
  rw [Ne, Ne, ← UInt8.toNat_inj, Nat.toUInt8_eq, UInt8.toNat_ofNat']
  have : k % 2 ^ 8 = k := by omega
  rw [this]

/-! ## `Reader.init` and `Reader.Size` after a successful header parse -/

theorem init_ok (r r1 : FrameR.R) (h : FrameR.parseHeaders r (r.src.data.size + 2) = (r1, none)) :
    (FrameR.init r).2 = none ∧ (FrameR.init r).1.st = r1.st ∧ (FrameR.init r).1.flags = r1.flags ∧
      (FrameR.init r).1.contentSize = r1.contentSize := by
  unfold FrameR.init
  rw [h]
  simp only []
  split <;> exact ⟨trivial, rfl, rfl, rfl⟩

theorem size_next (r : FrameR.R) (h : r.st = Gen.stNew) :
    FrameR.size (FrameR.next r none).1 = if Gen.flagSize r.flags = true then r.contentSize else 0 := by
  unfold FrameR.size FrameR.next FrameR.readerStates
  simp only [h]
  simp [Gen.stNew, Gen.stNo, Gen.stError, Gen.stRead]

end Lz4V.Proofs.Header
