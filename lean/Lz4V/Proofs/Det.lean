import Lz4V.Proofs.FrameW
import Lz4V.Proofs.DetSink
import Lz4V.Proofs.DetIO
/-!
# Proofs.Det — the frame `Writer` is a function of (options, stream): the session as a fold of a payload list
over the sink (C14 chunking / concurrency independence, C15 failing sinks)

Plan: one data block contributes the payloads `blkWrites` (a function of flags, level, frame kind and the block's
source bytes); a started Writer is tracked by the list `bl` of full blocks compressed so far (`Trk`); a whole session
hands `frameW cfg cks BL p` (header, blocks, last short block, tail) to the sink until the first failure
(`session_char`), where `(BL, p)` is the unique decomposition of the stream into `bufSize`-blocks and a short
remainder (`Decomp`, `DetSink`).  Sequential mode returns the failure from the failing call, concurrent mode
latches it in `deferred` and returns it from `Close`: both are the same fold.
-/
namespace Lz4V.Proofs.Det
open Lz4V Lz4V.Gen Lz4V.Model Lz4V.Model.FrameW
open Lz4V.Go (Sink Err Source readFull)
open Lz4V.Proofs.FrameW (reachable initFlags init_idx reach_idx_range poolSize_bounds reach_new apply_go_reach)

/-! ## one data block -/

/-- `FrameDataBlock.Compress`: (stored uncompressed?, payload) — a function of the flags, the level, the
frame kind and the source bytes only -/
def blkData (flags : Flags) (level : Nat) (lg : Bool) (src : Array UInt8) : Bool × Array UInt8 :=
  let idx := blockSizeIndex flags
  let dstLen := if lg then poolSize idx else min src.size (poolSize idx)
  match compressBlock src dstLen level with
  | some d => (false, d)
  | none =>
    if lg then
      match compressBlock src (Fast.bound src.size) level with
      | some d => (false, d)
      | none => (true, src)
    else (true, src)

/-- the payloads `FrameDataBlock.Write` hands to the sink for one block -/
def blkWrites (flags : Flags) (level : Nat) (lg : Bool) (src : Array UInt8) : List (Array UInt8) :=
  let rd := blkData flags level lg src
  [le32 (rd.2.size % 2147483648 + (if rd.1 then 2147483648 else 0)), rd.2] ++
    (if lg ∨ ¬ flagBlockChecksum flags then [] else [le32 (XXH.checksumZero rd.2.toList).toNat])

/-- the running content checksum after one more block -/
def cksStep (flags : Flags) (cks : XXH.State) (src : Array UInt8) : XXH.State :=
  if flagContentChecksum flags then XXH.write cks src.toList else cks

theorem writeBlock_unf (cfg : Cfg) (lg : Bool) (cks : XXH.State) (sink : Sink) (src : Array UInt8) :
    writeBlock cfg lg cks sink src =
      (let rd := blkData cfg.flags cfg.level lg src
       let a := le32 (rd.2.size % 2147483648 + (if rd.1 then 2147483648 else 0))
       let bck := if flagBlockChecksum cfg.flags then (XXH.checksumZero rd.2.toList).toNat else 0
       let cks' := cksStep cfg.flags cks src
       match (sink.write a).2 with
       | some e => ((sink.write a).1, cks', some e)
       | none =>
         match ((sink.write a).1.write rd.2).2 with
         | some e => (((sink.write a).1.write rd.2).1, cks', some e)
         | none =>
           if lg ∨ ¬ flagBlockChecksum cfg.flags then (((sink.write a).1.write rd.2).1, cks', none)
           else
             ((((sink.write a).1.write rd.2).1.write (le32 bck)).1, cks',
              (((sink.write a).1.write rd.2).1.write (le32 bck)).2)) := by
  rfl

theorem writeBlock_eq (cfg : Cfg) (lg : Bool) (cks : XXH.State) (sink : Sink) (src : Array UInt8) :
    writeBlock cfg lg cks sink src =
      ((emits (sink, none) (blkWrites cfg.flags cfg.level lg src)).1, cksStep cfg.flags cks src,
       (emits (sink, none) (blkWrites cfg.flags cfg.level lg src)).2) := by
  rw [writeBlock_unf]
  simp only [blkWrites]
  generalize blkData cfg.flags cfg.level lg src = rd
  generalize le32 (rd.2.size % 2147483648 + (if rd.1 then 2147483648 else 0)) = a
  rw [List.cons_append, emits_cons, emit_ok]
  rcases h1 : sink.write a with ⟨s1, e1⟩
  cases e1 with
  | some e => simp only [emits_err]
  | none =>
    simp only
    rw [List.cons_append, emits_cons, emit_ok]
    rcases h2 : s1.write rd.2 with ⟨s2, e2⟩
    cases e2 with
    | some e => simp only [emits_err]
    | none =>
      simp only
      by_cases hc : lg = true ∨ ¬ flagBlockChecksum cfg.flags = true
      · rw [if_pos hc, if_pos hc]; rfl
      · rw [if_neg hc, if_neg hc]
        have hbc : flagBlockChecksum cfg.flags = true := by
          by_cases h : flagBlockChecksum cfg.flags = true
          · exact h
          · exact absurd (Or.inr h) hc
        rw [if_pos hbc]
        rfl

/-! ## the Writer between two blocks -/

/-- what a started frame is parameterised by: descriptor flags (after `init`), level, frame kind, block size -/
structure Par where
  flags : Flags
  level : Nat
  lg : Bool
  B : Nat

def Par.bw (P : Par) (src : Array UInt8) : List (Array UInt8) := blkWrites P.flags P.level P.lg src

/-- the static part of a started Writer -/
structure Good (P : Par) (w : W) : Prop where
  flags : w.cfg.flags = P.flags
  level : w.cfg.level = P.level
  ml : w.magicLegacy = P.lg
  bsz : w.bufSize = P.B
  seq : w.cfg.num = 1 → w.deferred = none

theorem Good.pending {P : Par} {w : W} (h : Good P w) (p : Array UInt8) : Good P { w with pending := p } :=
  { flags := h.flags, level := h.level, ml := h.ml, bsz := h.bsz, seq := h.seq }

theorem emits_ok_start {s : Sink} {d : Option Err} {ps : List (Array UInt8)} {t : Sink}
    (h : emits (s, d) ps = (t, none)) : d = none := by
  cases d with
  | none => rfl
  | some e => rw [emits_err] at h; cases h

theorem writeOne_char (P : Par) (w : W) (src : Array UInt8) (hg : Good P w) :
    ∃ w' e, writeOne w src = (w', e) ∧ Good P w' ∧ w'.cfg = w.cfg ∧ w'.st = w.st ∧ w'.err = w.err ∧
      w'.pending = w.pending ∧
      (w'.sink, e.or w'.deferred) = emits (w.sink, w.deferred) (P.bw src) ∧
      (e ≠ none → w.cfg.num = 1) ∧
      (e.or w'.deferred = none → w'.cks = cksStep P.flags w.cks src) := by
  have hwb : writeBlock w.cfg w.magicLegacy w.cks w.sink src =
      ((emits (w.sink, none) (P.bw src)).1, cksStep P.flags w.cks src, (emits (w.sink, none) (P.bw src)).2) := by
    rw [writeBlock_eq, hg.flags, hg.level, hg.ml]; rfl
  unfold writeOne
  rw [hwb]
  by_cases hn : w.cfg.num = 1
  · rw [if_pos hn]
    have hd := hg.seq hn
    refine ⟨_, _, rfl, ?_, rfl, rfl, rfl, rfl, ?_, fun _ => hn, fun _ => rfl⟩
    · exact { flags := hg.flags, level := hg.level, ml := hg.ml, bsz := hg.bsz, seq := hg.seq }
    · simp only [hd, Option.or_none]
  · rw [if_neg hn]
    cases hd : w.deferred with
    | some d =>
      simp only
      refine ⟨_, _, rfl, hg, rfl, rfl, rfl, rfl, ?_, fun h => absurd rfl h, ?_⟩
      · rw [emits_err, hd]; rfl
      · rw [hd]; intro h; cases h
    | none =>
      simp only
      refine ⟨_, _, rfl, ?_, rfl, rfl, rfl, rfl, rfl, fun h => absurd rfl h, fun _ => rfl⟩
      exact { flags := hg.flags, level := hg.level, ml := hg.ml, bsz := hg.bsz, seq := fun h => absurd h hn }

theorem flatMap_single (P : Par) (src : Array UInt8) : [src].flatMap P.bw = P.bw src := by simp

theorem writeLoop_char (P : Par) (hB : 0 < P.B) (buf : Array UInt8) (fuel : Nat) :
    ∀ (w : W) (off n : Nat), Good P w → w.pending.size < P.B → buf.size - off < fuel →
    ∃ w' n' e bl t, writeLoop w buf off n fuel = (w', n', e) ∧ Good P w' ∧ w'.cfg = w.cfg ∧ w'.st = w.st ∧
      w'.err = w.err ∧
      (∀ b ∈ bl, b.size = P.B) ∧ flat bl ++ t = w.pending ++ buf.extract off buf.size ∧
      (w'.sink, e.or w'.deferred) = emits (w.sink, w.deferred) (bl.flatMap P.bw) ∧
      (e ≠ none → w.cfg.num = 1) ∧
      (e = none → w'.pending = t ∧ t.size < P.B) ∧
      (e.or w'.deferred = none → w'.cks = bl.foldl (cksStep P.flags) w.cks) := by
  induction fuel with
  | zero => intro w off n _ _ hf; omega
  | succ fuel ih =>
    intro w off n hg hp hf
    rw [writeLoop]
    by_cases hoff : off ≥ buf.size
    · rw [if_pos hoff]
      refine ⟨w, n, none, [], w.pending, rfl, hg, rfl, rfl, rfl, by simp, ?_, rfl, by simp, fun _ => ⟨rfl, hp⟩,
        fun _ => rfl⟩
      rw [Array.extract_empty_of_size_le_start hoff, Array.append_empty]; simp [flat]
    · rw [if_neg hoff]
      simp only
      have hb := hg.bsz
      by_cases hA : w.cfg.num = 1 ∧ w.pending.size = 0 ∧ buf.size - off ≥ w.bufSize
      · rw [if_pos hA]
        obtain ⟨hn1, hp0, hge⟩ := hA
        have hsz : (buf.extract off (off + w.bufSize)).size = P.B := by
          rw [Array.size_extract]; omega
        have hpe : w.pending = #[] := Array.eq_empty_of_size_eq_zero hp0
        obtain ⟨w1, e1, hw1, hg1, hc1, hst1, he1, hp1, hs1, hn, hk1⟩ :=
          writeOne_char P w (buf.extract off (off + w.bufSize)) hg
        rw [hw1]
        cases e1 with
        | some e =>
          simp only
          refine ⟨w1, n, some e, [buf.extract off (off + w.bufSize)], buf.extract (off + w.bufSize) buf.size, rfl,
            hg1, hc1, hst1, he1, ?_, ?_, ?_, fun _ => hn1, fun h => (by cases h), ?_⟩
          · intro b hb; rw [List.mem_singleton.mp hb]; exact hsz
          · rw [hpe, Array.empty_append]
            simp only [flat, Array.append_empty]
            exact FrameW.extract_split buf off (off + w.bufSize) (by omega) (by omega)
          · rw [flatMap_single]; exact hs1
          · intro h; simp at h
        | none =>
          simp only
          obtain ⟨w', n', e, bl, t, hr, hg', hc', hst', he', hbl, hfl, hs', hn', hp', hk'⟩ :=
            ih w1 (off + w.bufSize) (n + w.bufSize) hg1 (by rw [hp1]; exact hp) (by omega)
          refine ⟨w', n', e, buf.extract off (off + w.bufSize) :: bl, t, hr, hg', by rw [hc', hc1],
            by rw [hst', hst1], by rw [he', he1], ?_, ?_, ?_, fun h => by rw [← hc1]; exact hn' h, hp', ?_⟩
          · intro b hb
            rcases List.mem_cons.mp hb with rfl | hb
            · exact hsz
            · exact hbl b hb
          · rw [flat, Array.append_assoc, hfl, hp1, hpe, Array.empty_append, Array.empty_append]
            exact FrameW.extract_split buf off (off + w.bufSize) (by omega) (by omega)
          · rw [List.flatMap_cons, emits_append, ← hs1]
            exact hs'
          · intro h
            rw [hk' h, List.foldl_cons]
            congr 1
            apply hk1
            rw [h] at hs'
            exact emits_ok_start hs'.symm
      · rw [if_neg hA]
        have hmpos : 0 < min (w.bufSize - w.pending.size) (buf.size - off) := by omega
        have hsz : (buf.extract off (off + min (w.bufSize - w.pending.size) (buf.size - off))).size =
            min (w.bufSize - w.pending.size) (buf.size - off) := by
          rw [Array.size_extract]; omega
        generalize hm : min (w.bufSize - w.pending.size) (buf.size - off) = m at hmpos hsz ⊢
        by_cases hB2 : (w.pending ++ buf.extract off (off + m)).size < w.bufSize
        · rw [if_pos hB2]
          refine ⟨_, _, none, [], w.pending ++ buf.extract off (off + m), rfl, hg.pending _, rfl, rfl, rfl,
            by simp, ?_, rfl, by simp, fun _ => ⟨rfl, by rw [← hb]; exact hB2⟩, fun _ => rfl⟩
          rw [Array.size_append, hsz] at hB2
          have : off + m = buf.size := by omega
          rw [this]; simp [flat]
        · rw [if_neg hB2]
          have hfull : (w.pending ++ buf.extract off (off + m)).size = P.B := by
            rw [Array.size_append, hsz] at hB2 ⊢; omega
          obtain ⟨w1, e1, hw1, hg1, hc1, hst1, he1, hp1, hs1, hn, hk1⟩ :=
            writeOne_char P { w with pending := w.pending ++ buf.extract off (off + m) }
              (w.pending ++ buf.extract off (off + m)) (hg.pending _)
          rw [hw1]
          cases e1 with
          | some e =>
            simp only
            refine ⟨w1, n + m, some e, [w.pending ++ buf.extract off (off + m)], buf.extract (off + m) buf.size,
              rfl, hg1, hc1, hst1, he1, ?_, ?_, ?_, fun _ => hn (by simp), fun h => (by cases h), ?_⟩
            · intro b hb; rw [List.mem_singleton.mp hb]; exact hfull
            · simp only [flat, Array.append_empty]
              rw [Array.append_assoc, FrameW.extract_split buf off (off + m) (by omega) (by omega)]
            · rw [flatMap_single]; exact hs1
            · intro h; simp at h
          | none =>
            simp only
            obtain ⟨w', n', e, bl, t, hr, hg', hc', hst', he', hbl, hfl, hs', hn', hp', hk'⟩ :=
              ih { w1 with pending := #[] } (off + m) (n + m) (hg1.pending _) (by simpa using hB) (by omega)
            refine ⟨w', n', e, (w.pending ++ buf.extract off (off + m)) :: bl, t, hr, hg',
              by rw [hc']; exact hc1, by rw [hst']; exact hst1, by rw [he']; exact he1, ?_, ?_, ?_,
              fun h => by have := hn' h; rw [← hc1]; exact this, hp', ?_⟩
            · intro b hb
              rcases List.mem_cons.mp hb with rfl | hb
              · exact hfull
              · exact hbl b hb
            · rw [flat, Array.append_assoc, hfl]
              simp only [Array.empty_append]
              rw [Array.append_assoc, FrameW.extract_split buf off (off + m) (by omega) (by omega)]
            · rw [List.flatMap_cons, emits_append]
              have : emits (w.sink, w.deferred) (P.bw (w.pending ++ buf.extract off (off + m))) =
                  (w1.sink, w1.deferred) := hs1.symm
              rw [this]
              exact hs'
            · intro h
              rw [hk' h, List.foldl_cons]
              congr 1
              apply hk1
              rw [h] at hs'
              exact emits_ok_start hs'.symm

/-! ## `Write`, `Flush`, `Close` on a started Writer -/

theorem check_sink (w : W) (e : Option Err) : (check w e).sink = w.sink := by
  unfold check
  repeat' split
  all_goals rfl

/-- a started Writer: `bl` are the blocks compressed so far, the sink (with the latched error of the concurrent
mode) is the fold of their payloads over the state `s0` after the header -/
structure Trk (P : Par) (s0 : SE) (cks0 : XXH.State) (w : W) (bl : List (Array UInt8)) : Prop where
  good : Good P w
  st : w.st = stWrite
  psz : w.pending.size < P.B
  bsize : ∀ b ∈ bl, b.size = P.B
  sink : (w.sink, w.deferred) = emits s0 (bl.flatMap P.bw)
  cks : w.deferred = none → w.cks = bl.foldl (cksStep P.flags) cks0

theorem write_stWrite (w : W) (buf : Array UInt8) (h : w.st = stWrite) :
    write w buf = (check (writeLoop w buf 0 0 (buf.size + 2)).1 (writeLoop w buf 0 0 (buf.size + 2)).2.2,
      (writeLoop w buf 0 0 (buf.size + 2)).2.1, (writeLoop w buf 0 0 (buf.size + 2)).2.2) := by
  unfold write
  simp only [h, if_true]

/-- `Write` on a started Writer: either it returns an error (sequential mode only) and the sink is the fold of the
blocks up to the failing one, or the state keeps tracking -/
theorem write_char (P : Par) (hB : 0 < P.B) (s0 : SE) (cks0 : XXH.State) (w : W) (bl : List (Array UInt8))
    (buf : Array UInt8) (h : Trk P s0 cks0 w bl) :
    ∃ w' n e bl2 t, write w buf = (w', n, e) ∧ (∀ b ∈ bl2, b.size = P.B) ∧
      flat bl2 ++ t = w.pending ++ buf ∧ (e ≠ none → w.cfg.num = 1) ∧
      (match e with
       | some e => (w'.sink, some e) = emits s0 ((bl ++ bl2).flatMap P.bw)
       | none => Trk P s0 cks0 w' (bl ++ bl2) ∧ w'.pending = t) := by
  obtain ⟨w1, n1, e, bl2, t, hr, hg1, hc1, hst1, _, hbl, hfl, hs, hn, hp, hk⟩ :=
    writeLoop_char P hB buf (buf.size + 2) w 0 0 h.good h.psz (by omega)
  rw [write_stWrite w buf h.st, hr]
  refine ⟨_, _, e, bl2, t, rfl, hbl, by rw [hfl]; simp, hn, ?_⟩
  have hsink : (w1.sink, e.or w1.deferred) = emits s0 ((bl ++ bl2).flatMap P.bw) := by
    rw [List.flatMap_append, emits_append, ← h.sink]; exact hs
  cases e with
  | some e =>
    simp only [check_sink]
    exact hsink
  | none =>
    simp only [FrameW.check_none]
    obtain ⟨hpt, hts⟩ := hp rfl
    have hall : ∀ b ∈ bl ++ bl2, b.size = P.B := by
      intro b hb
      rcases List.mem_append.mp hb with hb | hb
      · exact h.bsize b hb
      · exact hbl b hb
    refine ⟨⟨hg1, by rw [hst1]; exact h.st, by rw [hpt]; exact hts, hall, hsink, ?_⟩, hpt⟩
    intro hd
    have h0 : (none : Option Err).or w1.deferred = none := hd
    rw [hk h0, List.foldl_append]
    congr 1
    apply h.cks
    rw [h0] at hs
    exact emits_ok_start hs.symm

/-- concurrent mode: `Write` on a started Writer never returns the sink's failure (it is latched for `Close`) -/
theorem write_conc_ok (P : Par) (hB : 0 < P.B) (s0 : SE) (cks0 : XXH.State) (w : W) (bl : List (Array UInt8))
    (buf : Array UInt8) (h : Trk P s0 cks0 w bl) (hn : w.cfg.num ≠ 1) : (write w buf).2.2 = none := by
  obtain ⟨w', n, e, bl2, t, hw, _, _, he, _⟩ := write_char P hB s0 cks0 w bl buf h
  rw [hw]
  cases e with
  | none => rfl
  | some e => exact absurd (he (by simp)) hn

/-- the incomplete last block, if any -/
def lastB (p : Array UInt8) : List (Array UInt8) := if p.size > 0 then [p] else []

/-- end mark and content checksum (`Frame.CloseW`); nothing for a legacy frame -/
def tailW (P : Par) (cks : XXH.State) : List (Array UInt8) :=
  if P.lg then [] else
    [le32 0 ++ (if flagContentChecksum P.flags then le32 (XXH.sum32 cks).toNat else #[])]

/-- everything after the header: all blocks (the short last one included), then the tail -/
def bodyW (P : Par) (cks0 : XXH.State) (bl : List (Array UInt8)) (p : Array UInt8) : List (Array UInt8) :=
  (bl ++ lastB p).flatMap P.bw ++ tailW P ((bl ++ lastB p).foldl (cksStep P.flags) cks0)

theorem flush_stWrite (w : W) (h : w.st = stWrite) :
    flush w = (if w.pending.size > 0 then
      match (writeOne w w.pending).2 with
      | some e => ((writeOne w w.pending).1, some e)
      | none => ({ (writeOne w w.pending).1 with pending := #[] }, none)
      else (w, none)) := by
  unfold flush
  simp only [h, if_true]
  rfl

theorem flush_char (P : Par) (w : W) (hg : Good P w) (hst : w.st = stWrite) :
    ∃ w' e, flush w = (w', e) ∧ Good P w' ∧ w'.st = w.st ∧
      (w'.sink, e.or w'.deferred) = emits (w.sink, w.deferred) ((lastB w.pending).flatMap P.bw) ∧
      (e.or w'.deferred = none → w'.cks = (lastB w.pending).foldl (cksStep P.flags) w.cks) := by
  rw [flush_stWrite w hst]
  unfold lastB
  by_cases hp : w.pending.size > 0
  · rw [if_pos hp, if_pos hp]
    obtain ⟨w1, e1, hw1, hg1, hc1, hst1, he1, hp1, hs1, hn, hk1⟩ := writeOne_char P w w.pending hg
    rw [hw1, flatMap_single]
    cases e1 with
    | some e => exact ⟨w1, some e, rfl, hg1, hst1, hs1, hk1⟩
    | none => exact ⟨_, none, rfl, hg1.pending _, hst1, hs1, hk1⟩
  · rw [if_neg hp, if_neg hp]
    exact ⟨w, none, rfl, hg, rfl, rfl, fun _ => rfl⟩

theorem closeW_char (P : Par) (w : W) (hg : Good P w) :
    ∃ w' e, closeW w = (w', e) ∧ (w'.sink, e) = emits (w.sink, w.deferred) (tailW P w.cks) := by
  unfold closeW
  cases hd : w.deferred with
  | some d =>
    simp only
    exact ⟨_, _, rfl, by rw [emits_err]⟩
  | none =>
    simp only
    unfold tailW
    rw [hg.ml, hg.flags]
    by_cases hl : P.lg = true
    · rw [if_pos hl, if_pos hl]
      exact ⟨_, _, rfl, rfl⟩
    · rw [if_neg hl, if_neg hl]
      exact ⟨_, _, rfl, rfl⟩

theorem next_sink (w : W) (e : Option Err) : (next w e).1.sink = w.sink := by
  cases e <;> rfl

theorem close_unf (w : W) (h : w.st ≠ stClosed) :
    close w = (match (flush w).2 with
      | some e => ((flush w).1, some e)
      | none =>
        ((next { (closeW (flush w).1).1 with pending := #[], bufSize := 0 } (closeW (flush w).1).2).1,
          (closeW (flush w).1).2)) := by
  unfold close
  rw [if_neg h]
  rcases flush w with ⟨w1, e1⟩
  cases e1 <;> rfl

/-- `Close` on a started Writer: the last block and the tail, or the first error -/
theorem close_char (P : Par) (s0 : SE) (cks0 : XXH.State) (w : W) (bl : List (Array UInt8))
    (h : Trk P s0 cks0 w bl) :
    ∃ w' e, close w = (w', e) ∧ (w'.sink, e) = emits s0 (bodyW P cks0 bl w.pending) := by
  have hne : w.st ≠ stClosed := by rw [h.st]; decide
  obtain ⟨w1, e1, hf, hg1, hst1, hs1, hk1⟩ := flush_char P w h.good h.st
  have hsink : (w1.sink, e1.or w1.deferred) = emits s0 ((bl ++ lastB w.pending).flatMap P.bw) := by
    rw [List.flatMap_append, emits_append, ← h.sink]; exact hs1
  rw [close_unf w hne, hf]
  unfold bodyW
  cases e1 with
  | some e =>
    simp only
    exact ⟨_, _, rfl, (emits_append_err hsink.symm _).symm⟩
  | none =>
    simp only
    obtain ⟨w2, e2, hc, hs2⟩ := closeW_char P w1 hg1
    rw [hc]
    refine ⟨_, _, rfl, ?_⟩
    rw [next_sink, emits_append, ← hsink]
    show (w2.sink, e2) = emits (w1.sink, w1.deferred) _
    cases hd : w1.deferred with
    | some d => rw [hs2, hd, emits_err, emits_err]
    | none =>
      rw [hs2, hd]
      congr 2
      have h0 : (none : Option Err).or w1.deferred = none := hd
      rw [hk1 h0, List.foldl_append]
      congr 1
      apply h.cks
      rw [h0] at hs1
      exact emits_ok_start hs1.symm

/-- the rest of a session from a started Writer -/
theorem go_char (P : Par) (hB : 0 < P.B) (s0 : SE) (cks0 : XXH.State) (chunks : List (Array UInt8)) :
    ∀ (w : W) (bl : List (Array UInt8)), Trk P s0 cks0 w bl →
    ∃ BL p, Decomp P.B (flat bl ++ w.pending ++ flat chunks) BL p ∧
      ((Run.writeSession.go w chunks).1.sink, (Run.writeSession.go w chunks).2) =
        emits s0 (bodyW P cks0 BL p) := by
  induction chunks with
  | nil =>
    intro w bl h
    obtain ⟨w', e, hc, hs⟩ := close_char P s0 cks0 w bl h
    refine ⟨bl, w.pending, ⟨h.bsize, h.psz, by simp [flat]⟩, ?_⟩
    simp only [Run.writeSession.go, hc]; exact hs
  | cons c cs ih =>
    intro w bl h
    obtain ⟨w', n, e, bl2, t, hw, hbl2, hfl, _, hm⟩ := write_char P hB s0 cks0 w bl c h
    have hall : ∀ b ∈ bl ++ bl2, b.size = P.B := by
      intro b hb
      rcases List.mem_append.mp hb with hb | hb
      · exact h.bsize b hb
      · exact hbl2 b hb
    have hdata : flat (bl ++ bl2) ++ (t ++ flat cs) = flat bl ++ w.pending ++ flat (c :: cs) := by
      have : flat (bl ++ bl2) ++ (t ++ flat cs) = flat bl ++ ((flat bl2 ++ t) ++ flat cs) := by
        rw [flat_append]; simp only [Array.append_assoc]
      rw [this, hfl, flat]
      simp only [Array.append_assoc]
    cases e with
    | some e =>
      simp only at hm
      obtain ⟨bl', p, hd⟩ := decomp_extend P.B hB (bl ++ bl2) (t ++ flat cs) hall
      rw [hdata] at hd
      refine ⟨_, p, hd, ?_⟩
      simp only [Run.writeSession.go, hw]
      unfold bodyW
      rw [List.append_assoc, List.flatMap_append, List.append_assoc]
      exact (emits_append_err hm.symm _).symm
    | none =>
      simp only at hm
      obtain ⟨htrk, hpt⟩ := hm
      obtain ⟨BL, p, hd, hr⟩ := ih w' (bl ++ bl2) htrk
      rw [hpt, Array.append_assoc, hdata] at hd
      refine ⟨BL, p, hd, ?_⟩
      simp only [Run.writeSession.go, hw]
      exact hr

/-! ## starting a frame -/

/-- the descriptor flags after `Writer.init` -/
def flags1 (cfg : Cfg) : Flags :=
  if cfg.legacy then blockSizeIndexSet cfg.flags (indexOf Block8Mb).toUInt16
  else blockIndependenceSet (versionSet cfg.flags 1) true

/-- the frame header `Writer.init` writes -/
def hdrW (cfg : Cfg) : Array UInt8 :=
  if cfg.legacy then le32 frameMagicLegacy
  else
    let d : Array UInt8 := #[((flags1 cfg).toNat % 256).toUInt8, ((flags1 cfg).toNat / 256).toUInt8] ++
      (if flagSize (flags1 cfg) then le64 cfg.contentSize else #[])
    le32 frameMagic ++ d ++ #[((XXH.checksumZero d.toList).toNat / 256 % 256).toUInt8]

def parOf (cfg : Cfg) : Par :=
  { flags := flags1 cfg, level := cfg.level, lg := cfg.legacy, B := poolSize (blockSizeIndex (flags1 cfg)) }

/-- `Frame.savedBlockSizeIndex` after `Writer.init`: a legacy frame remembers the configured index -/
def saved1 (w : W) : Nat :=
  if w.cfg.legacy ∧ blockSizeIndex w.cfg.flags ≠ indexOf Block8Mb then blockSizeIndex w.cfg.flags else w.savedIdx

theorem init_eq (w : W) :
    init w = ({ w with cfg := { w.cfg with flags := flags1 w.cfg }, magicLegacy := w.cfg.legacy, pending := #[],
                       bufSize := (parOf w.cfg).B, cks := XXH.reset w.cks, deferred := none,
                       savedIdx := saved1 w,
                       sink := (w.sink.write (hdrW w.cfg)).1 },
      (w.sink.write (hdrW w.cfg)).2) := by
  unfold init hdrW parOf flags1 saved1
  by_cases h : w.cfg.legacy = true
  · simp only [h, if_true]
  · simp only [h]

/-- the Writer after a successful `init` -/
def started (w : W) : W := { (init w).1 with st := stWrite }

theorem write_stNew (w : W) (buf : Array UInt8) (h : w.st = stNew) :
    write w buf = (match (init w).2 with
      | some e => (check (next (init w).1 (some e)).1 (some e), 0, some e)
      | none => write (started w) buf) := by
  have h1 : ¬ (w.st = stWrite) := by rw [h]; decide
  have h2 : ¬ (w.st = stClosed) := by rw [h]; decide
  have h3 : ¬ (w.st = stError) := by rw [h]; decide
  have hs : (init w).1.st = stNew := by rw [init_eq]; exact h
  unfold write
  rw [if_neg h1, if_neg h2, if_neg h3, if_pos h]
  rcases hi : init w with ⟨w1, e1⟩
  rw [hi] at hs
  simp only at hs
  cases e1 with
  | some e => rfl
  | none =>
    simp only [next, started, hi]
    have : writerStates w1.st = stWrite := by rw [hs]; decide
    rw [this]
    simp

theorem flush_stNew (w : W) (h : w.st = stNew) :
    flush w = (match (init w).2 with
      | some e => ((next (init w).1 (some e)).1, some e)
      | none => flush (started w)) := by
  have h1 : ¬ (w.st = stWrite) := by rw [h]; decide
  have h3 : ¬ (w.st = stError) := by rw [h]; decide
  have hs : (init w).1.st = stNew := by rw [init_eq]; exact h
  unfold flush
  rw [if_neg h1, if_neg h3, if_pos h]
  rcases hi : init w with ⟨w1, e1⟩
  rw [hi] at hs
  simp only at hs
  cases e1 with
  | some e => rfl
  | none =>
    simp only [next, started, hi]
    have : writerStates w1.st = stWrite := by rw [hs]; decide
    rw [this]
    simp

theorem close_stNew (w : W) (h : w.st = stNew) :
    close w = (match (init w).2 with
      | some e => ((next (init w).1 (some e)).1, some e)
      | none => close (started w)) := by
  have h2 : w.st ≠ stClosed := by rw [h]; decide
  have h2' : (started w).st ≠ stClosed := by show stWrite ≠ stClosed; decide
  rw [close_unf w h2, flush_stNew w h]
  cases hi : (init w).2 with
  | some e => rfl
  | none => simp only; rw [close_unf _ h2']

theorem go_stNew (w : W) (chunks : List (Array UInt8)) (h : w.st = stNew) :
    Run.writeSession.go w chunks = (match (init w).2 with
      | some e => (match chunks with
          | [] => (next (init w).1 (some e)).1
          | _ :: _ => check (next (init w).1 (some e)).1 (some e), some e)
      | none => Run.writeSession.go (started w) chunks) := by
  cases chunks with
  | nil =>
    simp only [Run.writeSession.go]
    rw [close_stNew w h]
  | cons c cs =>
    simp only [Run.writeSession.go]
    rw [write_stNew w c h]
    cases (init w).2 <;> rfl

/-- the complete list of payloads a session hands to the sink: header, blocks, tail -/
def frameW (cfg : Cfg) (cks : XXH.State) (bl : List (Array UInt8)) (p : Array UInt8) : List (Array UInt8) :=
  hdrW cfg :: bodyW (parOf cfg) (XXH.reset cks) bl p

theorem legacy_idx : ∀ f ∈ reachable, blockSizeIndex (blockSizeIndexSet f (indexOf Block8Mb).toUInt16) = 3 := by
  decide

theorem parOf_B_pos (cfg : Cfg) (h : cfg.flags ∈ reachable) : 0 < (parOf cfg).B := by
  show 0 < poolSize (blockSizeIndex (flags1 cfg))
  unfold flags1
  by_cases hl : cfg.legacy = true
  · rw [if_pos hl, legacy_idx _ h]; decide
  · rw [if_neg hl]
    have := init_idx _ h
    unfold initFlags at this
    rw [this]
    exact (poolSize_bounds _ (reach_idx_range _ h).1 (reach_idx_range _ h).2).1

theorem started_trk (w : W) (hB : 0 < (parOf w.cfg).B) :
    Trk (parOf w.cfg) ((w.sink.write (hdrW w.cfg)).1, none) (XXH.reset w.cks) (started w) [] ∧
      (started w).pending = #[] := by
  unfold started
  rw [init_eq]
  refine ⟨⟨⟨rfl, rfl, rfl, rfl, fun _ => rfl⟩, rfl, hB, by simp, rfl, fun _ => rfl⟩, rfl⟩

theorem session_new (w : W) (hst : w.st = stNew) (hr : w.cfg.flags ∈ reachable) (chunks : List (Array UInt8)) :
    ∃ BL p, Decomp (parOf w.cfg).B (flat chunks) BL p ∧
      ((Run.writeSession.go w chunks).1.sink, (Run.writeSession.go w chunks).2) =
        emits (w.sink, none) (frameW w.cfg w.cks BL p) := by
  have hB := parOf_B_pos w.cfg hr
  rw [go_stNew w chunks hst]
  unfold frameW
  cases hi : (init w).2 with
  | some e =>
    obtain ⟨BL, p, hd⟩ := decomp_exists _ hB (flat chunks).size (flat chunks) (Nat.le_refl _)
    refine ⟨BL, p, hd, ?_⟩
    have h1 : (w.sink.write (hdrW w.cfg)).2 = some e := by rw [init_eq] at hi; exact hi
    have h2 : (init w).1.sink = (w.sink.write (hdrW w.cfg)).1 := by rw [init_eq]
    have h3 : w.sink.write (hdrW w.cfg) = ((init w).1.sink, some e) := by rw [h2, ← h1]
    rw [emits_cons, emit_ok, h3, emits_err]
    cases chunks with
    | nil => simp only [next_sink]
    | cons c cs => simp only [check_sink, next_sink]
  | none =>
    simp only
    obtain ⟨htrk, hpe⟩ := started_trk w hB
    obtain ⟨BL, p, hd, hs⟩ := go_char _ hB _ _ chunks (started w) [] htrk
    rw [hpe] at hd
    simp only [flat, Array.append_empty, Array.empty_append] at hd
    refine ⟨BL, p, hd, ?_⟩
    rw [hs, emits_cons, emit_ok]
    congr 1
    have h1 : (w.sink.write (hdrW w.cfg)).2 = none := by rw [init_eq] at hi; exact hi
    rw [← h1]

/-! ## whole sessions -/

/-- `NewWriter` over a sink that fails from its `k`-th `Write` on (`fa = some k`; `none`: never), `Apply(opts…)`,
one `Write` per chunk, `Close` — `Run.writeSession` is the instance `fa = none` -/
def sessionWith (fa : Option Nat) (opts : List Opt) (chunks : List (Array UInt8)) : W × Option Err :=
  let (w, e) := apply (new fa) opts
  match e with
  | some e => (w, some e)
  | none => Run.writeSession.go w chunks

theorem writeSession_eq (opts : List Opt) (chunks : List (Array UInt8)) :
    Run.writeSession opts chunks = sessionWith none opts chunks := rfl

/-- configuration and verdict of `Apply(opts…)` on a new Writer (they do not depend on the sink) -/
def cfgA (opts : List Opt) : Cfg := (apply.go (new none).cfg opts).1
def errA (opts : List Opt) : Option Err := (apply.go (new none).cfg opts).2

theorem apply_new_fa (fa : Option Nat) (opts : List Opt) :
    apply (new fa) opts = (check { reset (new fa) fa with cfg := cfgA opts } (errA opts), errA opts) := by
  unfold apply
  rfl

theorem apply_err (fa : Option Nat) (opts : List Opt) : (apply (new fa) opts).2 = errA opts := by
  rw [apply_new_fa]

theorem cfgA_reach (opts : List Opt) : (cfgA opts).flags ∈ reachable :=
  apply_go_reach opts _ reach_new

/-- `Apply` rejected the options: nothing was started, the sink is untouched -/
theorem session_rejected (fa : Option Nat) (opts : List Opt) (chunks : List (Array UInt8)) (e : Err)
    (h : errA opts = some e) :
    (sessionWith fa opts chunks).1.sink = { failAt := fa } ∧ (sessionWith fa opts chunks).2 = some e := by
  unfold sessionWith
  rw [apply_new_fa, h]
  exact ⟨by rw [check_sink]; rfl, rfl⟩

/-- **the session as a fold**: with `BL`, `p` the block decomposition of the whole stream, sink and result of the
session are those of handing the payload list `frameW …` to the sink until the first failure -/
theorem session_char (fa : Option Nat) (opts : List Opt) (chunks : List (Array UInt8)) (h : errA opts = none) :
    ∃ BL p, Decomp (parOf (cfgA opts)).B (flat chunks) BL p ∧
      ((sessionWith fa opts chunks).1.sink, (sessionWith fa opts chunks).2) =
        emits ({ failAt := fa }, none) (frameW (cfgA opts) XXH.zero BL p) := by
  unfold sessionWith
  rw [apply_new_fa, h]
  simp only [FrameW.check_none]
  exact session_new { reset (new fa) fa with cfg := cfgA opts } rfl (cfgA_reach opts) chunks

/-! ## consequences: chunking, concurrency level, failing sinks -/

/-- **chunking independence** (any sink, failing or not): sink and result of a session depend on the chunks only
through their concatenation -/
theorem chunking_sessions (fa : Option Nat) (opts : List Opt) (c₁ c₂ : List (Array UInt8))
    (h : Run.concat c₁ = Run.concat c₂) :
    (sessionWith fa opts c₁).1.sink = (sessionWith fa opts c₂).1.sink ∧
      (sessionWith fa opts c₁).2 = (sessionWith fa opts c₂).2 := by
  rw [concat_eq, concat_eq] at h
  cases he : errA opts with
  | some e =>
    obtain ⟨h1, h2⟩ := session_rejected fa opts c₁ e he
    obtain ⟨h3, h4⟩ := session_rejected fa opts c₂ e he
    exact ⟨by rw [h1, h3], by rw [h2, h4]⟩
  | none =>
    obtain ⟨BL1, p1, hd1, hs1⟩ := session_char fa opts c₁ he
    obtain ⟨BL2, p2, hd2, hs2⟩ := session_char fa opts c₂ he
    rw [h] at hd1
    obtain ⟨hb, hp⟩ := hd1.unique hd2
    rw [hb, hp, ← hs2] at hs1
    exact ⟨(Prod.mk.inj hs1).1, (Prod.mk.inj hs1).2⟩

theorem apply_go_append (o₁ o₂ : List Opt) : ∀ c : Cfg,
    apply.go c (o₁ ++ o₂) = (match (apply.go c o₁).2 with
      | some _ => apply.go c o₁
      | none => apply.go (apply.go c o₁).1 o₂) := by
  induction o₁ with
  | nil => intro c; rfl
  | cons o os ih =>
    intro c
    simp only [List.cons_append, apply.go]
    cases applyOne c o with
    | ok c' => exact ih c'
    | error e => rfl

/-- `opts` followed by the concurrency option -/
def setNum (opts : List Opt) (n : Nat) : List Opt := opts ++ [.concurrency n]

theorem errA_setNum (opts : List Opt) (n : Nat) : errA (setNum opts n) = errA opts := by
  unfold errA setNum
  rw [apply_go_append]
  cases h : (apply.go (new none).cfg opts).2 with
  | some e => simp only [h]
  | none => rfl

theorem cfgA_setNum (opts : List Opt) (n : Nat) (h : errA opts = none) :
    cfgA (setNum opts n) = { cfgA opts with num := n } := by
  unfold errA at h
  unfold cfgA setNum
  rw [apply_go_append, h]
  rfl

/-- **concurrency independence** (any sink, failing or not): the concurrency level changes neither what reaches
the sink nor the result of the session -/
theorem concurrency_sessions (fa : Option Nat) (opts : List Opt) (chunks : List (Array UInt8)) (n m : Nat) :
    (sessionWith fa (setNum opts n) chunks).1.sink = (sessionWith fa (setNum opts m) chunks).1.sink ∧
      (sessionWith fa (setNum opts n) chunks).2 = (sessionWith fa (setNum opts m) chunks).2 := by
  cases he : errA opts with
  | some e =>
    obtain ⟨h1, h2⟩ := session_rejected fa (setNum opts n) chunks e (by rw [errA_setNum, he])
    obtain ⟨h3, h4⟩ := session_rejected fa (setNum opts m) chunks e (by rw [errA_setNum, he])
    exact ⟨by rw [h1, h3], by rw [h2, h4]⟩
  | none =>
    obtain ⟨BL1, p1, hd1, hs1⟩ := session_char fa (setNum opts n) chunks (by rw [errA_setNum, he])
    obtain ⟨BL2, p2, hd2, hs2⟩ := session_char fa (setNum opts m) chunks (by rw [errA_setNum, he])
    rw [cfgA_setNum opts n he] at hd1 hs1
    rw [cfgA_setNum opts m he] at hd2 hs2
    have hd1' : Decomp (parOf (cfgA opts)).B (flat chunks) BL1 p1 := hd1
    have hd2' : Decomp (parOf (cfgA opts)).B (flat chunks) BL2 p2 := hd2
    obtain ⟨hb, hp⟩ := hd1'.unique hd2'
    have hf : frameW { cfgA opts with num := n } XXH.zero BL1 p1 =
        frameW { cfgA opts with num := m } XXH.zero BL2 p2 := by rw [hb, hp]; rfl
    rw [hf, ← hs2] at hs1
    exact ⟨(Prod.mk.inj hs1).1, (Prod.mk.inj hs1).2⟩

/-- **failing sink vs. accepting sink**: there is one list `ws` of payloads (the frame) such that the accepting
sink received all of it, the sink failing from call `k` on received exactly the first `k`, was called once more iff
there was more, and the session over it returned the injected error iff that call happened -/
theorem fail_vs_clean (k : Nat) (opts : List Opt) (chunks : List (Array UInt8)) (h : errA opts = none) :
    ∃ ws : List (Array UInt8),
      (sessionWith none opts chunks).1.sink = { writes := ws.toArray, calls := ws.length, failAt := none } ∧
      (sessionWith none opts chunks).2 = none ∧
      (sessionWith (some k) opts chunks).1.sink =
        { writes := (ws.take k).toArray, calls := min ws.length (k + 1), failAt := some k } ∧
      (sessionWith (some k) opts chunks).2 = (if ws.length > k then some .injected else none) := by
  obtain ⟨BL1, p1, hd1, hs1⟩ := session_char none opts chunks h
  obtain ⟨BL2, p2, hd2, hs2⟩ := session_char (some k) opts chunks h
  obtain ⟨hb, hp⟩ := hd1.unique hd2
  rw [← hb, ← hp] at hs2
  refine ⟨frameW (cfgA opts) XXH.zero BL1 p1, ?_⟩
  rw [emits_none _ _ rfl] at hs1
  rw [emits_some k _ _ rfl] at hs2
  obtain ⟨h1, h2⟩ := Prod.mk.inj hs1
  obtain ⟨h3, h4⟩ := Prod.mk.inj hs2
  refine ⟨?_, h2, ?_, ?_⟩
  · rw [h1]; simp
  · rw [h3]; simp
  · rw [h4]; simp

end Lz4V.Proofs.Det
