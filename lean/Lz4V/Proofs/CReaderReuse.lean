import Lz4V.Proofs.CReaderWriter
/-!
# Proofs.CReaderReuse — reused compressing readers: `Reset` from ANY earlier state (pending overflow,
done, failed, mid-frame …), optionally followed by `Apply`

The only thing a reused reader inherits from its past is its configuration `cfg` (and the content
checksum state, which the first real `Read` resets).  After a first `Read` the flag word of `cfg`
carries the version and block-independence bits (`init()` stores the descriptor flags back), so the
configurations of reused readers are the `reachable` flag words of `Proofs.FrameW` *and* their
`initFlags` images: `CfgOK`.
-/
namespace Lz4V.Proofs.CReader
open Lz4V Lz4V.Go Lz4V.Gen Lz4V.Model Lz4V.Model.CReader Lz4V.Model.FrameW
open Lz4V.Proofs.FrameW (initFlags cfgInit reachable infoOf)

/-! ## the configurations of used readers -/

/-- the flag words a compressing reader can carry at any point of its life: what `NewCompressingReader`
+ `Apply` produce (`reachable`: bits 2, 3, 4 free, block-size index 4..7), possibly with the version (=1)
and block-independence bits that the first `Read` of a frame stores back (`initFlags`) -/
def reusable : List UInt16 := reachable ++ reachable.map initFlags

/-- the configuration of a reader that went through `NewCompressingReader`, `Apply`, `Read`, `Reset` in any
order: only the flag word matters (level, content size are free; `num`/`legacy` are never looked at) -/
def CfgOK (cfg : Cfg) : Prop := cfg.flags ∈ reusable

instance (cfg : Cfg) : Decidable (CfgOK cfg) := by unfold CfgOK; infer_instance

theorem reusable_of_reachable : ∀ f ∈ reachable, f ∈ reusable := by decide
theorem reusable_init : ∀ f ∈ reusable, initFlags f ∈ reusable := by decide
theorem reusable_setBit2 : ∀ f ∈ reusable, ∀ b, contentChecksumSet f b ∈ reusable := by decide
theorem reusable_setBit3 : ∀ f ∈ reusable, ∀ b, sizeSet f b ∈ reusable := by decide
theorem reusable_setBit4 : ∀ f ∈ reusable, ∀ b, blockChecksumSet f b ∈ reusable := by decide
theorem reusable_idx : ∀ f ∈ reusable, ∀ i ∈ [4, 5, 6, 7], blockSizeIndexSet f (Nat.toUInt16 i) ∈ reusable := by
  decide
theorem reusable_idx_range : ∀ f ∈ reusable, 4 ≤ blockSizeIndex f ∧ blockSizeIndex f ≤ 7 := by decide
theorem reusable_init_idem : ∀ f ∈ reusable, initFlags (initFlags f) = initFlags f := by decide
theorem reusable_init_idx : ∀ f ∈ reusable, blockSizeIndex (initFlags f) = blockSizeIndex f := by decide

/-- every reusable flag word has a `reachable` one with the same descriptor flags, the same option bits
and the same block size -/
theorem reusable_norm : ∀ f ∈ reusable, ∃ g ∈ reachable, initFlags f = initFlags g ∧
    flagBlockChecksum f = flagBlockChecksum g ∧ flagContentChecksum f = flagContentChecksum g ∧
    flagSize f = flagSize g ∧ blockSizeIndex f = blockSizeIndex g := by decide

theorem cfgOK_new (src : Source) : CfgOK (new src).cfg :=
  reusable_of_reachable _ Proofs.FrameW.reach_new

theorem cfgOK_of_reachable (cfg : Cfg) (h : cfg.flags ∈ reachable) : CfgOK cfg :=
  reusable_of_reachable _ h

theorem cfgOK_cfgInit (cfg : Cfg) (h : CfgOK cfg) : CfgOK (cfgInit cfg) := reusable_init _ h

theorem applyOne_cfgOK (c c' : Cfg) (o : Opt) (hc : CfgOK c) (h : applyOne c o = .ok c') : CfgOK c' := by
  unfold CfgOK at hc ⊢
  cases o with
  | blockSize n =>
    simp only [applyOne] at h
    split at h
    · rename_i hi
      cases h
      simp only
      apply reusable_idx _ hc
      simp only [List.mem_cons, List.not_mem_nil, or_false]
      exact hi
    · cases h
  | blockChecksum b => simp only [applyOne] at h; cases h; exact reusable_setBit4 _ hc b
  | checksum b => simp only [applyOne] at h; cases h; exact reusable_setBit2 _ hc b
  | size n => simp only [applyOne] at h; cases h; exact reusable_setBit3 _ hc _
  | concurrency n => simp only [applyOne] at h; cases h; exact hc
  | level n =>
    simp only [applyOne] at h
    split at h
    · cases h; exact hc
    · cases h
  | legacy b => simp only [applyOne] at h; cases h; exact hc

theorem apply_go_cfgOK (opts : List Opt) : ∀ c : Cfg, CfgOK c → CfgOK (Model.CReader.apply.go c opts).1 := by
  induction opts with
  | nil => intro c hc; exact hc
  | cons o os ih =>
    intro c hc
    cases o <;> simp only [Model.CReader.apply.go] <;> try exact hc
    all_goals
      split
      · rename_i c' h
        exact ih c' (applyOne_cfgOK c c' _ hc h)
      · exact hc

/-- `Apply` in the initial state: the overflow is dropped, the options are applied to the configuration,
everything else stays -/
theorem apply_initial (c : CR) (opts : List Opt) (h : c.st = .initial) :
    Model.CReader.apply c opts =
      ({ c with ov := #[], ovPosNonZero := false, cfg := (Model.CReader.apply.go c.cfg opts).1 },
        (Model.CReader.apply.go c.cfg opts).2) := by
  unfold Model.CReader.apply
  rw [if_neg (by rw [h]; simp)]

theorem apply_not_initial (c : CR) (opts : List Opt) (h : c.st ≠ .initial) :
    Model.CReader.apply c opts = (c, some .closedOrError) := by
  unfold Model.CReader.apply
  rw [if_pos h]

/-- `Apply` preserves `CfgOK`, in every state and whatever it returns -/
theorem cfgOK_apply (c : CR) (opts : List Opt) (h : CfgOK c.cfg) : CfgOK (Model.CReader.apply c opts).1.cfg := by
  by_cases hs : c.st = .initial
  · rw [apply_initial c opts hs]; exact apply_go_cfgOK opts _ h
  · rw [apply_not_initial c opts hs]; exact h

theorem cfgOK_reset (c : CR) (src : Source) (h : CfgOK c.cfg) : CfgOK (reset c src).cfg := h

/-! ## `Read` keeps the configuration, up to the descriptor bits stored by the first call of a frame -/

theorem loop_cfg (want idx : Nat) (fuel : Nat) : ∀ (c : CR) (out : Array UInt8),
    (loopF want idx c out fuel).1.cfg = c.cfg := by
  induction fuel with
  | zero => intro c out; rfl
  | succ fuel ih =>
    intro c out
    rw [loop_succ]
    simp only
    generalize readFull c.src (poolSize idx) = r
    obtain ⟨s, got, e⟩ := r
    cases e with
    | none =>
      simp only
      split
      · rfl
      · rw [ih]; rfl
    | some err =>
      simp only
      split
      · split <;> rfl
      · rfl

theorem readB_cfg (c : CR) (want : Nat) :
    (readB c want).1.cfg = if c.st = .initial then cfgInit c.cfg else c.cfg := by
  obtain ⟨st, cfg, src, cks, ov, opz⟩ := c
  cases st with
  | initial => simp only [readB, if_true]; rw [loop_cfg]
  | done => rfl
  | flushing =>
    simp only [readB]
    split <;> simp
  | reading => simp only [readB]; rw [loop_cfg]; simp

theorem read_cfg (c : CR) (want : Nat) :
    (read c want).1.cfg = c.cfg ∨ (read c want).1.cfg = cfgInit c.cfg := by
  rw [read_eq]
  split
  · exact Or.inl rfl
  · rw [readB_cfg]
    split
    · exact Or.inr rfl
    · exact Or.inl rfl

/-- `Read` preserves `CfgOK`, in every state, for every source and whatever it returns -/
theorem cfgOK_read (c : CR) (want : Nat) (h : CfgOK c.cfg) : CfgOK (read c want).1.cfg := by
  rcases read_cfg c want with h1 | h1 <;> rw [h1]
  · exact h
  · exact cfgOK_cfgInit _ h

/-- the readers one can get through the API: `NewCompressingReader(src)`, then `Apply`, `Read`, `Reset` in any
order, with any sources, buffer sizes and options, successful or not -/
inductive Reach : CR → Prop
  | new (src : Source) : Reach (Model.CReader.new src)
  | apply (c : CR) (opts : List Opt) : Reach c → Reach (Model.CReader.apply c opts).1
  | read (c : CR) (want : Nat) : Reach c → Reach (Model.CReader.read c want).1
  | reset (c : CR) (src : Source) : Reach c → Reach (Model.CReader.reset c src)

theorem Reach.cfgOK {c : CR} (h : Reach c) : CfgOK c.cfg := by
  induction h with
  | new src => exact cfgOK_new src
  | apply c opts _ ih => exact cfgOK_apply c opts ih
  | read c want _ ih => exact cfgOK_read c want ih
  | reset c src _ ih => exact ih

/-! ## `Reset` (+ `Apply`): a well-formed reader that owes exactly `frameOf` -/

theorem wf_initial (c : CR) (hst : c.st = .initial) (hsrc : GoodSrc c.src) (hc : CfgOK c.cfg) : WF c := by
  have hi := reusable_init_idx _ hc
  have hrng := reusable_idx_range _ hc
  have hp := (Proofs.FrameW.poolSize_bounds _ hrng.1 hrng.2).1
  exact ⟨hsrc, by rw [hst]; decide, fun _ => hp, fun _ => ⟨hi, hp⟩⟩

theorem reset_wf (c : CR) (data : Array UInt8) (hc : CfgOK c.cfg) : WF (reset c (srcOf data)) :=
  wf_initial _ rfl ⟨rfl, rfl, rfl⟩ hc

theorem reset_apply (c : CR) (src : Source) (opts : List Opt) :
    Model.CReader.apply (reset c src) opts =
      ({ reset c src with cfg := (Model.CReader.apply.go c.cfg opts).1 },
        (Model.CReader.apply.go c.cfg opts).2) := rfl

theorem reset_apply_wf (c : CR) (data : Array UInt8) (opts : List Opt) (hc : CfgOK c.cfg) :
    WF (Model.CReader.apply (reset c (srcOf data)) opts).1 := by
  rw [reset_apply]
  exact wf_initial _ rfl ⟨rfl, rfl, rfl⟩ (apply_go_cfgOK opts _ hc)

/-- `XXH.reset` forgets its argument: whatever content-checksum state the earlier frame left, the first
`Read` after `Reset` starts from the same state as a fresh reader -/
theorem xxh_reset_const (s t : XXH.State) : XXH.reset s = XXH.reset t := rfl

/-- an initial reader with an empty overflow over `srcOf data` owes exactly `frameOf` -/
theorem initial_rest (c : CR) (data : Array UInt8) (hst : c.st = .initial) (hsrc : c.src = srcOf data)
    (hov : c.ov = #[]) : c.ov ++ rest c = frameOf c.cfg data := by
  rw [rest_initial _ hst, hov, Array.empty_append, hsrc, xxh_reset_const c.cks XXH.zero]
  rfl

theorem reset_rest (c : CR) (data : Array UInt8) :
    (reset c (srcOf data)).ov ++ rest (reset c (srcOf data)) = frameOf (reset c (srcOf data)).cfg data :=
  initial_rest _ data rfl rfl rfl

theorem reset_apply_rest (c : CR) (data : Array UInt8) (opts : List Opt) :
    (Model.CReader.apply (reset c (srcOf data)) opts).1.ov ++ rest (Model.CReader.apply (reset c (srcOf data)) opts).1 =
      frameOf (Model.CReader.apply (reset c (srcOf data)) opts).1.cfg data := by
  rw [reset_apply]
  exact initial_rest _ data rfl rfl rfl

/-- the output of a session of a reset reader that ends with `io.EOF` is `frameOf` -/
theorem reset_session_frame (c : CR) (hc : CfgOK c.cfg) (data : Array UInt8) (sizes : List Nat)
    (heof : (session (reset c (srcOf data)) sizes).1.getLast?.map (·.2.2) = some (some .eof)) :
    output (session (reset c (srcOf data)) sizes).1 = frameOf (reset c (srcOf data)).cfg data := by
  rw [session_eof sizes _ (reset_wf c data hc) heof, reset_rest]

theorem reset_apply_session_frame (c : CR) (hc : CfgOK c.cfg) (data : Array UInt8) (opts : List Opt)
    (sizes : List Nat)
    (heof : (session (Model.CReader.apply (reset c (srcOf data)) opts).1 sizes).1.getLast?.map (·.2.2) =
      some (some .eof)) :
    output (session (Model.CReader.apply (reset c (srcOf data)) opts).1 sizes).1 =
      frameOf (Model.CReader.apply (reset c (srcOf data)) opts).1.cfg data := by
  rw [session_eof sizes _ (reset_apply_wf c data opts hc) heof, reset_apply_rest]

/-! ## `frameOf` for a reusable configuration is a valid frame -/

/-- `frameOf` only looks at the descriptor flags `initFlags cfg.flags` -/
theorem frameOf_flags (cfg : Cfg) (g : Flags) (h : initFlags cfg.flags = initFlags g) (data : Array UInt8) :
    frameOf cfg data = frameOf { cfg with flags := g } data := by
  unfold frameOf hdrArr cfgInit
  simp only [h]

/-- the general form of `frameOf_valid`: any configuration with `CfgOK` -/
theorem frameOf_valid_cfgOK (cfg : Cfg) (hc : CfgOK cfg) (data : Array UInt8) (hsz : data.size < 2 ^ 64)
    (hcs : cfg.contentSize < 2 ^ 64) :
    ∃ info, Spec.Frame.decode (frameOf cfg data).toList true = .ok ⟨info, data, (frameOf cfg data).size⟩ ∧
      info.version = 1 ∧ info.blockIndep = true ∧ info.legacy = false ∧
      info.blockChecksum = flagBlockChecksum cfg.flags ∧
      info.contentChecksum = flagContentChecksum cfg.flags ∧
      info.contentSize = (if flagSize cfg.flags then some cfg.contentSize else none) ∧
      info.blockMax = poolSize (blockSizeIndex cfg.flags) := by
  obtain ⟨g, hg, hi, hbc, hcc, hfs, hidx⟩ := reusable_norm _ hc
  have hd := frameOf_decode { cfg with flags := g } data hg
    (Proofs.FrameW.compOK_any Props.C09.hcCorrect _) hcs hsz
  rw [← frameOf_flags cfg g hi data] at hd
  refine ⟨_, hd, rfl, rfl, rfl, ?_, ?_, ?_, ?_⟩
  · show flagBlockChecksum g = _; rw [hbc]
  · show flagContentChecksum g = _; rw [hcc]
  · show (if flagSize g then some cfg.contentSize else none) = _; rw [hfs]
  · show poolSize (blockSizeIndex g) = _; rw [hidx]

/-! ## termination, for any well-formed reader that owes `frameOf` -/

theorem reset_session_reaches (c : CR) (hc : CfgOK c.cfg) (data : Array UInt8) (k : Nat)
    (hk : (frameOf c.cfg data).size < k) :
    (session (reset c (srcOf data)) (List.replicate k 1)).1.getLast?.map (·.2.2) = some (some .eof) :=
  session_ones k _ (reset_wf c data hc) (by rw [reset_rest]; exact hk)

theorem reset_apply_session_reaches (c : CR) (hc : CfgOK c.cfg) (data : Array UInt8) (opts : List Opt) (k : Nat)
    (hk : (frameOf (Model.CReader.apply (reset c (srcOf data)) opts).1.cfg data).size < k) :
    (session (Model.CReader.apply (reset c (srcOf data)) opts).1 (List.replicate k 1)).1.getLast?.map (·.2.2) =
      some (some .eof) :=
  session_ones k _ (reset_apply_wf c data opts hc) (by rw [reset_apply_rest]; exact hk)

/-! ## `Reset` forgets: observational equivalence up to the checksum state of an initial reader -/

/-- equal but for the content-checksum state, which may differ only while the reader is in the initial
state (where the next non-trivial `Read` overwrites it with `XXH.reset _`, a constant) -/
def ObsEq (a b : CR) : Prop :=
  a.st = b.st ∧ a.cfg = b.cfg ∧ a.src = b.src ∧ a.ov = b.ov ∧ a.ovPosNonZero = b.ovPosNonZero ∧
    (a.st ≠ .initial → a.cks = b.cks)

theorem ObsEq.refl (a : CR) : ObsEq a a := ⟨rfl, rfl, rfl, rfl, rfl, fun _ => rfl⟩

theorem ObsEq.symm {a b : CR} (h : ObsEq a b) : ObsEq b a :=
  ⟨h.1.symm, h.2.1.symm, h.2.2.1.symm, h.2.2.2.1.symm, h.2.2.2.2.1.symm,
    fun hn => (h.2.2.2.2.2 (by rw [h.1]; exact hn)).symm⟩

theorem ObsEq.trans {a b c : CR} (h1 : ObsEq a b) (h2 : ObsEq b c) : ObsEq a c :=
  ⟨h1.1.trans h2.1, h1.2.1.trans h2.2.1, h1.2.2.1.trans h2.2.2.1, h1.2.2.2.1.trans h2.2.2.2.1,
    h1.2.2.2.2.1.trans h2.2.2.2.2.1,
    fun hn => (h1.2.2.2.2.2 hn).trans (h2.2.2.2.2.2 (by rw [← h1.1]; exact hn))⟩

theorem ObsEq.eq_of_not_initial {a b : CR} (h : ObsEq a b) (hn : a.st ≠ .initial) : a = b := by
  obtain ⟨h1, h2, h3, h4, h5, h6⟩ := h
  have h7 := h6 hn
  obtain ⟨st, cfg, src, cks, ov, opz⟩ := a
  obtain ⟨st', cfg', src', cks', ov', opz'⟩ := b
  simp only at h1 h2 h3 h4 h5 h7
  subst h1 h2 h3 h4 h5 h7
  rfl

theorem readB_initial_cks (cfg : Cfg) (src : Source) (cks cks' : XXH.State) (ov : Array UInt8) (opz : Bool)
    (want : Nat) :
    readB { st := .initial, cfg := cfg, src := src, cks := cks, ov := ov, ovPosNonZero := opz } want =
      readB { st := .initial, cfg := cfg, src := src, cks := cks', ov := ov, ovPosNonZero := opz } want := rfl

/-- `Read` respects `ObsEq`: same bytes, same error, equivalent successor states -/
theorem read_obsEq (a b : CR) (h : ObsEq a b) (want : Nat) :
    (read a want).2 = (read b want).2 ∧ ObsEq (read a want).1 (read b want).1 := by
  by_cases hn : a.st = .initial
  · obtain ⟨h1, h2, h3, h4, h5, _⟩ := h
    obtain ⟨st, cfg, src, cks, ov, opz⟩ := a
    obtain ⟨st', cfg', src', cks', ov', opz'⟩ := b
    simp only at h1 h2 h3 h4 h5 hn
    subst h1 h2 h3 h4 h5 hn
    rw [read_eq, read_eq]
    simp only
    split
    · exact ⟨rfl, rfl, rfl, rfl, rfl, rfl, fun hh => absurd rfl hh⟩
    · rw [readB_initial_cks cfg src cks cks' ov opz want]
      exact ⟨rfl, ObsEq.refl _⟩
  · rw [h.eq_of_not_initial hn]
    exact ⟨rfl, ObsEq.refl _⟩

/-- sessions respect `ObsEq`: the same per-call results, equivalent final states -/
theorem session_obsEq (sizes : List Nat) : ∀ (a b : CR), ObsEq a b →
    (session a sizes).1 = (session b sizes).1 ∧ ObsEq (session a sizes).2 (session b sizes).2 := by
  induction sizes with
  | nil => intro a b h; exact ⟨rfl, h⟩
  | cons n ns ih =>
    intro a b h
    obtain ⟨h1, h2⟩ := read_obsEq a b h n
    have he : (read a n).2.2 = (read b n).2.2 := by rw [h1]
    have hb : (read a n).2.1 = (read b n).2.1 := by rw [h1]
    cases hr : (read a n).2.2 with
    | some e =>
      rw [session_cons_some a n ns e hr, session_cons_some b n ns e (by rw [← he]; exact hr), hb]
      exact ⟨rfl, h2⟩
    | none =>
      rw [session_cons_none a n ns hr, session_cons_none b n ns (by rw [← he]; exact hr), hb]
      obtain ⟨i1, i2⟩ := ih _ _ h2
      simp only
      rw [i1]
      exact ⟨rfl, i2⟩

/-- a reset reader is a fresh reader with the old configuration, up to `ObsEq` -/
theorem reset_obsEq_new (c : CR) (src : Source) : ObsEq (reset c src) { Model.CReader.new src with cfg := c.cfg } :=
  ⟨rfl, rfl, rfl, rfl, rfl, fun hh => absurd rfl hh⟩

theorem apply_obsEq (a b : CR) (h : ObsEq a b) (opts : List Opt) :
    (Model.CReader.apply a opts).2 = (Model.CReader.apply b opts).2 ∧
      ObsEq (Model.CReader.apply a opts).1 (Model.CReader.apply b opts).1 := by
  by_cases hn : a.st = .initial
  · have hn' : b.st = .initial := by rw [← h.1]; exact hn
    rw [apply_initial a opts hn, apply_initial b opts hn', h.2.1]
    exact ⟨rfl, h.1, rfl, h.2.2.1, rfl, rfl, fun hh => absurd hn hh⟩
  · rw [h.eq_of_not_initial hn]
    exact ⟨rfl, ObsEq.refl _⟩

end Lz4V.Proofs.CReader
