import Lz4V.Proofs.BlockSpec
/-!
# Proofs.FrameRWindow — the window lemma: `Spec.Block.decode blk dict m` only looks at the last
65535 bytes of `dict` (offsets are 16-bit), and a block that decodes without help from (part of)
the dictionary decodes to the same bytes with it.
-/
namespace Lz4V.Proofs.FrameR
open Lz4V Lz4V.Spec.Block Lz4V.Proofs.BlockSpec

theorem copyMatch_prefix (pre h : Array UInt8) (off n : Nat) (ho : off ≤ h.size) :
    copyMatch (pre ++ h) off n = pre ++ copyMatch h off n := by
  induction n generalizing h with
  | zero => rfl
  | succ n ih =>
    simp only [copyMatch]
    have hx : (pre ++ h).getD ((pre ++ h).size - off) 0 = h.getD (h.size - off) 0 := by
      simp only [Array.getD_eq_getD_getElem?, Array.size_append]
      rw [Array.getElem?_append_right (by omega)]
      congr 2; omega
    rw [hx, Array.push_append]
    exact ih (h.push _) (by simp only [Array.size_push]; omega)

theorem specMatch_prefix (pre : Array UInt8) (nib : Nat) (r2 : Bytes) (h1 : Array UInt8) (dl maxOut fuel : Nat)
    (ih : ∀ src h, (65535 ≤ h.size ∨ (decodeAux fuel src h dl maxOut).isSome) →
      decodeAux fuel src (pre ++ h) (pre.size + dl) maxOut = (decodeAux fuel src h dl maxOut).map (pre ++ ·))
    (hc : 65535 ≤ h1.size ∨ (specMatch nib r2 h1 dl maxOut fuel).isSome) :
    specMatch nib r2 (pre ++ h1) (pre.size + dl) maxOut fuel =
      (specMatch nib r2 h1 dl maxOut fuel).map (pre ++ ·) := by
  match r2 with
  | [] => simp only [specMatch]; split <;> simp
  | [_] => simp [specMatch]
  | lo :: hi :: r3 =>
    unfold specMatch at hc ⊢
    simp only [] at hc ⊢
    have hoff : lo.toNat + 256 * hi.toNat ≤ 65535 := by
      have := lo.toNat_lt; have := hi.toNat_lt; omega
    by_cases h0 : lo.toNat + 256 * hi.toNat = 0
    · simp [h0]
    · simp only [h0, if_false] at hc ⊢
      have hle : lo.toNat + 256 * hi.toNat ≤ h1.size := by
        rcases hc with hc | hc
        · omega
        · by_cases hgt : lo.toNat + 256 * hi.toNat > h1.size
          · simp [hgt] at hc
          · omega
      have hn1 : ¬ lo.toNat + 256 * hi.toNat > h1.size := by omega
      have hn2 : ¬ lo.toNat + 256 * hi.toNat > (pre ++ h1).size := by
        simp only [Array.size_append]; omega
      simp only [hn1, hn2, if_false] at hc ⊢
      cases hrf : readField nib r3 with
      | none => simp
      | some p =>
        obtain ⟨ml, r4⟩ := p
        simp only [hrf] at hc ⊢
        have hsz : (pre ++ h1).size + (ml + 4) - (pre.size + dl) = h1.size + (ml + 4) - dl := by
          simp only [Array.size_append]; omega
        rw [hsz]
        by_cases hgt : h1.size + (ml + 4) - dl > maxOut
        · simp [hgt]
        · simp only [hgt, if_false] at hc ⊢
          rw [copyMatch_prefix _ _ _ _ hle]
          match r4 with
          | [] => simp
          | x :: r5 =>
            simp only [] at hc ⊢
            apply ih
            rcases hc with hc | hc
            · left; rw [copyMatch_size]; omega
            · right; exact hc

theorem decodeAux_prefix (pre : Array UInt8) (fuel : Nat) (src : Bytes) (h : Array UInt8) (dl maxOut : Nat)
    (hc : 65535 ≤ h.size ∨ (decodeAux fuel src h dl maxOut).isSome) :
    decodeAux fuel src (pre ++ h) (pre.size + dl) maxOut = (decodeAux fuel src h dl maxOut).map (pre ++ ·) := by
  induction fuel generalizing src h with
  | zero => simp [decodeAux]
  | succ fuel ih =>
    match src with
    | [] => simp [decodeAux]
    | tok :: r0 =>
      rw [decodeAux_cons] at hc ⊢
      rw [decodeAux_cons]
      cases hrf : readField (tok.toNat / 16) r0 with
      | none => simp
      | some p =>
        obtain ⟨ll, r1⟩ := p
        simp only [hrf] at hc ⊢
        have hsz : (pre ++ h).size + ll - (pre.size + dl) = h.size + ll - dl := by
          simp only [Array.size_append]; omega
        rw [hsz]
        by_cases hgt : h.size + ll - dl > maxOut
        · simp [hgt]
        · simp only [hgt, if_false] at hc ⊢
          simp only [takeLits_eq] at hc ⊢
          by_cases hlen : r1.length < ll
          · simp [hlen]
          · simp only [hlen, if_false] at hc ⊢
            have happ : pre ++ h ++ List.take ll r1 = pre ++ (h ++ List.take ll r1) := by
              apply Array.ext'
              simp
            rw [happ]
            apply specMatch_prefix pre _ _ _ _ _ _ (fun src h hc => ih src h hc)
            rcases hc with hc | hc
            · left
              have : (h ++ List.take ll r1).size = h.size + (List.take ll r1).length := by
                rw [← Array.length_toList, Array.toList_appendList]; simp
              omega
            · right; exact hc

/-- a dictionary may be extended to the left when the block decodes anyway, or when at least
65535 of its bytes are kept -/
theorem decode_prefix (blk pre dict : Bytes) (m : Nat)
    (hc : 65535 ≤ dict.length ∨ (decode blk dict m).isSome) :
    decode blk (pre ++ dict) m = decode blk dict m := by
  unfold decode at hc ⊢
  have h1 : (pre ++ dict).toArray = pre.toArray ++ dict.toArray := by simp
  have h2 : (pre ++ dict).length = pre.toArray.size + dict.length := by simp
  rw [h1, h2, decodeAux_prefix pre.toArray _ _ dict.toArray dict.length m
    (by rcases hc with hc | hc
        · left; simpa using hc
        · right; simpa using hc)]
  cases hd : decodeAux (blk.length + 1) blk dict.toArray dict.length m with
  | none => simp
  | some o =>
    simp only [Option.map_some]
    congr 1
    apply Array.ext'
    simp only [Array.toList_extract, Array.size_append, List.size_toArray]
    rw [List.extract_eq_take_drop, List.extract_eq_take_drop]
    rw [Array.toList_append, ← List.drop_drop, List.drop_left' (by simp)]
    have : pre.length + o.size - (pre.length + dict.length) = o.size - dict.length := by omega
    rw [this]

end Lz4V.Proofs.FrameR
