import Lz4V.Model.Run
/-!
# Proofs.DetSink — the scripted sink as a fold over the list of `Write` payloads, and the unique
decomposition of a stream into full blocks plus a short remainder (helpers for C14 / C15)
-/
namespace Lz4V.Proofs.Det
open Lz4V Lz4V.Go Lz4V.Gen Lz4V.Model Lz4V.Model.FrameW

/-! ## a sink together with the first error it returned -/

/-- sink + the first error it reported (afterwards nothing is handed to it any more) -/
abbrev SE := Sink × Option Err

/-- hand one payload to the sink unless an earlier `Write` failed -/
def emit (s : SE) (p : Array UInt8) : SE :=
  match s.2 with
  | some _ => s
  | none => s.1.write p

/-- hand a list of payloads to the sink, stopping at the first failure -/
def emits (s : SE) (ps : List (Array UInt8)) : SE := ps.foldl emit s

theorem emits_nil (s : SE) : emits s [] = s := rfl
theorem emits_cons (s : SE) (p : Array UInt8) (ps : List (Array UInt8)) :
    emits s (p :: ps) = emits (emit s p) ps := rfl
theorem emits_append (s : SE) (a b : List (Array UInt8)) : emits s (a ++ b) = emits (emits s a) b := by
  unfold emits; rw [List.foldl_append]

theorem emit_err (s : Sink) (e : Err) (p : Array UInt8) : emit (s, some e) p = (s, some e) := rfl
theorem emit_ok (s : Sink) (p : Array UInt8) : emit (s, none) p = s.write p := rfl

theorem emits_err (s : Sink) (e : Err) (ps : List (Array UInt8)) : emits (s, some e) ps = (s, some e) := by
  induction ps with
  | nil => rfl
  | cons p ps ih => rw [emits_cons, emit_err, ih]

/-- once a write has failed, whatever else would have been written does not matter -/
theorem emits_append_err {s : SE} {a : List (Array UInt8)} {t : Sink} {e : Err}
    (h : emits s a = (t, some e)) (b : List (Array UInt8)) : emits s (a ++ b) = (t, some e) := by
  rw [emits_append, h, emits_err]

theorem emits_single (s : Sink) (p : Array UInt8) : emits (s, none) [p] = s.write p := rfl

/-! ## concatenation -/

def flat : List (Array UInt8) → Array UInt8
  | [] => #[]
  | b :: l => b ++ flat l

theorem foldl_append_flat (l : List (Array UInt8)) : ∀ a : Array UInt8, l.foldl (· ++ ·) a = a ++ flat l := by
  induction l with
  | nil => intro a; simp [flat]
  | cons b l ih => intro a; rw [List.foldl_cons, ih, flat, Array.append_assoc]

theorem concat_eq (l : List (Array UInt8)) : Run.concat l = flat l := by
  unfold Run.concat; rw [foldl_append_flat, Array.empty_append]

theorem flat_append (a b : List (Array UInt8)) : flat (a ++ b) = flat a ++ flat b := by
  induction a with
  | nil => simp [flat]
  | cons x a ih => rw [List.cons_append, flat, flat, ih, Array.append_assoc]

theorem bytes_eq (s : Sink) : s.bytes = flat s.writes.toList := by
  unfold Sink.bytes
  rw [← Array.foldl_toList, foldl_append_flat, Array.empty_append]

/-! ## the sink after a list of writes, explicitly -/

theorem emits_none (ws : List (Array UInt8)) : ∀ s : Sink, s.failAt = none →
    emits (s, none) ws = ({ s with writes := s.writes ++ ws.toArray, calls := s.calls + ws.length }, none) := by
  induction ws with
  | nil => intro s _; simp [emits_nil]
  | cons p ws ih =>
    intro s h
    rw [emits_cons, emit_ok]
    have : s.write p = ({ s with writes := s.writes.push p, calls := s.calls + 1 }, none) := by
      unfold Sink.write; rw [h]
    rw [this, ih { s with writes := s.writes.push p, calls := s.calls + 1 } h]
    simp [Nat.add_assoc, Nat.add_comm 1]

theorem emits_some (k : Nat) (ws : List (Array UInt8)) : ∀ s : Sink, s.failAt = some k →
    emits (s, none) ws =
      ({ s with writes := s.writes ++ (ws.take (k - s.calls)).toArray,
                calls := s.calls + min ws.length (k - s.calls + 1) },
        if ws.length > k - s.calls then some .injected else none) := by
  induction ws with
  | nil => intro s _; simp [emits_nil]
  | cons p ws ih =>
    intro s h
    rw [emits_cons, emit_ok]
    by_cases hk : s.calls ≥ k
    · have : s.write p = ({ s with calls := s.calls + 1 }, some .injected) := by
        unfold Sink.write; rw [h]; simp only [if_pos hk]
      rw [this, emits_err]
      have h0 : k - s.calls = 0 := by omega
      rw [h0]
      simp
    · have : s.write p = ({ s with writes := s.writes.push p, calls := s.calls + 1 }, none) := by
        unfold Sink.write; rw [h]; simp only [if_neg hk]
      rw [this, ih { s with writes := s.writes.push p, calls := s.calls + 1 } h]
      have h1 : k - s.calls = (k - (s.calls + 1)) + 1 := by omega
      simp only [List.length_cons]
      rw [h1, List.take_succ_cons]
      congr 1
      · congr 1
        · simp
        · omega
      · simp

/-! ## full blocks and a short remainder -/

/-- `bl` are the full `B`-byte blocks of `D` and `p` the incomplete last one -/
def Decomp (B : Nat) (D : Array UInt8) (bl : List (Array UInt8)) (p : Array UInt8) : Prop :=
  (∀ b ∈ bl, b.size = B) ∧ p.size < B ∧ flat bl ++ p = D

theorem decomp_unique (B : Nat) : ∀ (bl₁ bl₂ : List (Array UInt8)) (p₁ p₂ : Array UInt8),
    (∀ b ∈ bl₁, b.size = B) → (∀ b ∈ bl₂, b.size = B) → p₁.size < B → p₂.size < B →
    flat bl₁ ++ p₁ = flat bl₂ ++ p₂ → bl₁ = bl₂ ∧ p₁ = p₂ := by
  intro bl₁
  induction bl₁ with
  | nil =>
    intro bl₂ p₁ p₂ _ h2 hp1 _ he
    cases bl₂ with
    | nil => simpa [flat] using he
    | cons b l =>
      have hb := h2 b (List.mem_cons_self ..)
      have := congrArg Array.size he
      simp only [flat, Array.size_append, Array.size_empty] at this
      omega
  | cons b₁ l₁ ih =>
    intro bl₂ p₁ p₂ h1 h2 hp1 hp2 he
    cases bl₂ with
    | nil =>
      have hb := h1 b₁ (List.mem_cons_self ..)
      have := congrArg Array.size he
      simp only [flat, Array.size_append, Array.size_empty] at this
      omega
    | cons b₂ l₂ =>
      have hb1 := h1 b₁ (List.mem_cons_self ..)
      have hb2 := h2 b₂ (List.mem_cons_self ..)
      rw [flat, flat, Array.append_assoc, Array.append_assoc] at he
      obtain ⟨hb, hr⟩ := Array.append_inj he (by rw [hb1, hb2])
      obtain ⟨hl, hp⟩ := ih l₂ p₁ p₂ (fun b hb => h1 b (List.mem_cons_of_mem _ hb))
        (fun b hb => h2 b (List.mem_cons_of_mem _ hb)) hp1 hp2 hr
      exact ⟨by rw [hb, hl], hp⟩

theorem Decomp.unique {B : Nat} {D : Array UInt8} {bl₁ bl₂ : List (Array UInt8)} {p₁ p₂ : Array UInt8}
    (h₁ : Decomp B D bl₁ p₁) (h₂ : Decomp B D bl₂ p₂) : bl₁ = bl₂ ∧ p₁ = p₂ :=
  decomp_unique B bl₁ bl₂ p₁ p₂ h₁.1 h₂.1 h₁.2.1 h₂.2.1 (by rw [h₁.2.2, h₂.2.2])

theorem decomp_exists (B : Nat) (hB : 0 < B) (n : Nat) : ∀ D : Array UInt8, D.size ≤ n →
    ∃ bl p, Decomp B D bl p := by
  induction n with
  | zero =>
    intro D h
    exact ⟨[], D, by simp, by omega, by simp [flat]⟩
  | succ n ih =>
    intro D h
    by_cases hs : D.size < B
    · exact ⟨[], D, by simp, hs, by simp [flat]⟩
    · obtain ⟨bl, p, h1, h2, h3⟩ := ih (D.extract B D.size) (by rw [Array.size_extract]; omega)
      refine ⟨D.extract 0 B :: bl, p, ?_, h2, ?_⟩
      · intro b hb
        rcases List.mem_cons.mp hb with rfl | hb
        · rw [Array.size_extract]; omega
        · exact h1 b hb
      · rw [flat, Array.append_assoc, h3, Array.extract_append_extract]
        simp
        omega

/-- blocks already cut stay the first blocks of any longer stream -/
theorem decomp_extend (B : Nat) (hB : 0 < B) (bl : List (Array UInt8)) (t : Array UInt8)
    (h : ∀ b ∈ bl, b.size = B) : ∃ bl' p, Decomp B (flat bl ++ t) (bl ++ bl') p := by
  obtain ⟨bl', p, h1, h2, h3⟩ := decomp_exists B hB t.size t (Nat.le_refl _)
  refine ⟨bl', p, ?_, h2, ?_⟩
  · intro b hb
    rcases List.mem_append.mp hb with hb | hb
    · exact h b hb
    · exact h1 b hb
  · rw [flat_append, Array.append_assoc, h3]

end Lz4V.Proofs.Det
