import Lz4V.Model.PipeR
/-!
# Proofs.PipeR — inductive invariant of the read pipeline LTS

The invariant is indexed by a ghost position `j`: the number of blocks the collector has finished with.
-/
namespace Lz4V.Proofs.PipeR
open Lz4V.Model Lz4V.Model.PipeR

/-- phase of the reader w.r.t. the sentinel: 0 not queued, 1 queued and `nil` not yet received,
2 `nil` received, 3 sentinel seen closed -/
def gClass : GPc → Nat
  | .read _ | .sentEnq => 0
  | .sentSend => 1
  | .sentWait => 2
  | .closeData | .exited => 3

/-- the queue when the next block to dequeue is `a`, `m` blocks were read -/
def qB (a m n gc : Nat) : List Nat := List.range' a (m - a) ++ (if gc = 1 then [n] else [])

/-- number of per-block channels on which the collector has completed the receive -/
def rcvR (j n : Nat) : CPc → Nat
  | .deliver _ => j + 1
  | .closing i => if i < n then j + 1 else j
  | _ => j

/-- number of blocks delivered as long as nothing was skipped -/
def dlen (j n : Nat) : CPc → Nat
  | .closing i => if i < n then j + 1 else j
  | _ => j

def dOk (r : Nat) (bad : List Nat) (err : Bool) (k : Nat) : DPc → Prop
  | .decoding => r ≤ k
  | .sending => r ≤ k ∧ k ∉ bad
  | .failed => k ∈ bad ∧ err = true
  | .done => k < r ∧ k ∉ bad

def gOk (m n : Nat) (err dataClosed : Bool) : GPc → Prop
  | .read k => m = k ∧ k < n ∧ dataClosed = false
  | .exited => m ≤ n ∧ (m = n ∨ err = true) ∧ dataClosed = true
  | _ => m ≤ n ∧ (m = n ∨ err = true) ∧ dataClosed = false

def cOk (j m n : Nat) (q : List Nat) (gc : Nat) (skip : Bool) (d : List DPc) : CPc → Prop
  | .idle => j ≤ m ∧ q = qB j m n gc ∧ gc ≤ 1
  | .recv i => (i < n → i = j ∧ j < m ∧ q = qB (j + 1) m n gc ∧ gc ≤ 1) ∧ (¬ i < n → i = n ∧ j = m ∧ q = [] ∧ gc = 1)
  | .deliver i => i = j ∧ j < m ∧ i < n ∧ q = qB (j + 1) m n gc ∧ gc ≤ 1 ∧ skip = false ∧ d[i]? = some .done
  | .closing i => (i < n → i = j ∧ j < m ∧ q = qB (j + 1) m n gc ∧ gc ≤ 1 ∧ skip = false ∧ d[i]? = some .done) ∧
      (¬ i < n → i = n ∧ j = m ∧ q = [] ∧ gc = 2)
  | .exited => j = m ∧ q = [] ∧ 2 ≤ gc

structure InvJ (num n : Nat) (bad : List Nat) (j : Nat) (s : State) : Prop where
  hnum : s.num = num
  hn : s.n = n
  hbad : s.bad = bad
  ginv : gOk s.d.length s.n s.err s.dataClosed s.g
  cinv : cOk j s.d.length s.n s.queue (gClass s.g) s.skip s.d s.c
  dinv : ∀ k x, s.d[k]? = some x → dOk (rcvR j s.n s.c) s.bad s.err k x
  nclosed : s.n ∈ s.closed ↔ s.c = .exited
  delEq : s.delivered = List.range s.delivered.length
  delBad : ∀ b ∈ s.bad, s.delivered.length ≤ b
  delSkip : s.skip = false → s.delivered.length = dlen j s.n s.c ∧ ∀ b ∈ s.bad, j ≤ b
  skipBad : s.skip = true → ∃ b, b ∈ s.bad
  errBad : s.err = true → ∃ b, b ∈ s.bad
  uinv : s.u = .finished → s.dataClosed = true

def Inv (num n : Nat) (bad : List Nat) (s : State) : Prop := ∃ j, InvJ num n bad j s

theorem inv_init (num n : Nat) (bad : List Nat) : InvJ num n bad 0 (init num n bad) := by
  unfold init
  constructor <;> try (simp; done)
  · by_cases h : n = 0 <;> simp [h, gOk]; omega
  · by_cases h : n = 0 <;> simp [h, cOk, gClass, qB]
  · simp [dlen]

theorem qB_push {a m n : Nat} (h : a ≤ m) : qB a m n 0 ++ [m] = qB a (m + 1) n 0 := by
  simp only [qB]
  have e : m + 1 - a = (m - a) + 1 := by omega
  rw [e, List.range'_concat]
  simp; omega

theorem qB_sent {a m n : Nat} : qB a m n 0 ++ [n] = qB a m n 1 := by
  simp [qB]

theorem qB_pop {i : Nat} {rest : List Nat} {a m n gc : Nat} (h : i :: rest = qB a m n gc) (ha : a ≤ m) :
    (a < m ∧ i = a ∧ rest = qB (a + 1) m n gc) ∨ (a = m ∧ i = n ∧ rest = [] ∧ gc = 1) := by
  by_cases hlt : a < m
  · left
    simp only [qB] at h ⊢
    have e : m - a = (m - (a + 1)) + 1 := by omega
    rw [e, List.range'_succ, List.cons_append] at h
    injection h with h1 h2
    exact ⟨hlt, h1, h2⟩
  · right
    have e : m - a = 0 := by omega
    simp only [qB, e, List.range'_zero, List.nil_append] at h
    split at h
    · injection h with h1 h2
      exact ⟨by omega, h1, h2, by assumption⟩
    · simp at h

theorem rcvR_le {j m n q gc skip d c} (h : cOk j m n q gc skip d c) : rcvR j n c ≤ m := by
  cases c <;> simp only [cOk, rcvR] at h ⊢
  · omega
  · rename_i i
    by_cases hi : i < n
    · have := h.1 hi; omega
    · have := h.2 hi; omega
  · omega
  · rename_i i
    by_cases hi : i < n
    · have := h.1 hi; simp only [hi, if_true]; omega
    · have := h.2 hi; simp only [hi, if_false]; omega
  · omega

theorem m_le {m n err dc g} (h : gOk m n err dc g) : m ≤ n := by
  cases g <;> simp only [gOk] at h <;> omega

theorem inv_reader {num n bad j s s'} (h : InvJ num n bad j s) (hs : step s .reader = some s') : InvJ num n bad j s' := by
  obtain ⟨hnum, hn, hbad, ginv, cinv, dinv, nclosed, delEq, delBad, delSkip, skipBad, errBad, uinv⟩ := h
  simp only [step] at hs
  split at hs
  · -- read k
    rename_i k hg
    rw [hg] at ginv cinv
    simp only [gOk] at ginv
    simp only [gClass] at cinv
    split at hs
    · rename_i herr
      injection hs with hs; subst hs
      constructor <;> dsimp only
      all_goals (try assumption)
      · simp only [gOk]; exact ⟨by omega, Or.inr herr, ginv.2.2⟩
    · rename_i herr
      split at hs
      · injection hs with hs; subst hs
        have hr := rcvR_le cinv
        constructor <;> dsimp only
        all_goals (try assumption)
        · by_cases hk : k + 1 < s.n <;> simp only [hk, if_true, if_false, gOk, List.length_append, List.length_singleton] <;> grind
        · have e : gClass (if k + 1 < s.n then GPc.read (k + 1) else GPc.sentEnq) = 0 := by split <;> rfl
          rw [e]
          simp only [List.length_append, List.length_singleton]
          rw [← ginv.1]
          cases hc : s.c <;> simp only [hc, cOk] at cinv ⊢
          · exact ⟨by omega, by rw [cinv.2.1]; exact qB_push cinv.1, by omega⟩
          · rename_i i
            refine ⟨fun hi => ?_, fun hi => ?_⟩
            · obtain ⟨h1, h2, h3, h4⟩ := cinv.1 hi
              exact ⟨h1, by omega, by rw [h3]; exact qB_push (by omega), h4⟩
            · have := cinv.2 hi; omega
          · obtain ⟨h1, h2, h3, h4, h5, h6, h7⟩ := cinv
            refine ⟨h1, by omega, h3, by rw [h4]; exact qB_push (by omega), h5, h6, ?_⟩
            rw [List.getElem?_append_left (by omega)]; exact h7
          · rename_i i
            refine ⟨fun hi => ?_, fun hi => ?_⟩
            · obtain ⟨h1, h2, h3, h4, h5, h6⟩ := cinv.1 hi
              refine ⟨h1, by omega, by rw [h3]; exact qB_push (by omega), h4, h5, ?_⟩
              rw [List.getElem?_append_left (by omega)]; exact h6
            · have := cinv.2 hi; omega
          · omega
        · intro k' x hx
          by_cases hk' : k' < s.d.length
          · rw [List.getElem?_append_left hk'] at hx
            exact dinv k' x hx
          · have : k' = s.d.length := by
              have := (List.getElem?_eq_some_iff.1 hx).1; simp at this; omega
            subst this
            simp at hx; subst hx
            simp only [dOk]; exact hr
      · simp at hs
  · -- sentEnq
    rename_i hg
    rw [hg] at ginv cinv
    simp only [gOk] at ginv
    simp only [gClass] at cinv
    split at hs
    · injection hs with hs; subst hs
      constructor <;> dsimp only
      all_goals (try assumption)
      · simp only [gClass]
        cases hc : s.c <;> simp only [hc, cOk] at cinv ⊢
        · exact ⟨cinv.1, by rw [cinv.2.1]; exact qB_sent, by omega⟩
        · rename_i i
          refine ⟨fun hi => ?_, fun hi => ?_⟩
          · obtain ⟨h1, h2, h3, h4⟩ := cinv.1 hi
            exact ⟨h1, h2, by rw [h3]; exact qB_sent, by omega⟩
          · have := cinv.2 hi; omega
        · obtain ⟨h1, h2, h3, h4, h5, h6, h7⟩ := cinv
          exact ⟨h1, h2, h3, by rw [h4]; exact qB_sent, by omega, h6, h7⟩
        · rename_i i
          refine ⟨fun hi => ?_, fun hi => ?_⟩
          · obtain ⟨h1, h2, h3, h4, h5, h6⟩ := cinv.1 hi
            exact ⟨h1, h2, by rw [h3]; exact qB_sent, by omega, h5, h6⟩
          · have := cinv.2 hi; omega
        · omega
    · simp at hs
  · simp at hs
  · -- sentWait
    rename_i hg
    rw [hg] at ginv cinv
    simp only [gClass] at cinv
    split at hs
    · rename_i hcl
      injection hs with hs; subst hs
      have hc := nclosed.1 hcl
      rw [hc] at cinv; simp only [cOk] at cinv
      constructor <;> dsimp only
      all_goals (try assumption)
      · simp only [hc, cOk, gClass]; exact ⟨cinv.1, cinv.2.1, by omega⟩
    · simp at hs
  · -- closeData
    rename_i hg
    rw [hg] at ginv cinv
    simp only [gOk] at ginv
    injection hs with hs; subst hs
    constructor <;> dsimp only
    all_goals (try assumption)
    · simp only [gOk]; exact ⟨ginv.1, ginv.2.1, trivial⟩
    · intro _; rfl
  · simp at hs
/-- `cOk` only looks at which decoders are `done` -/
theorem cOk_set {j m n q gc skip} {d : List DPc} {c k v} (h : cOk j m n q gc skip d c)
    (hk : d[k]? ≠ some .done) : cOk j m n q gc skip (d.set k v) c := by
  have key : ∀ i : Nat, d[i]? = some DPc.done → (d.set k v)[i]? = some DPc.done := by
    intro i hi
    rw [List.getElem?_set]
    split
    · rename_i hki; subst hki; exact absurd hi hk
    · exact hi
  cases c <;> simp only [cOk] at h ⊢
  · exact h
  · exact h
  · obtain ⟨h1, h2, h3, h4, h5, h6, h7⟩ := h
    exact ⟨h1, h2, h3, h4, h5, h6, key _ h7⟩
  · refine ⟨fun hi => ?_, h.2⟩
    obtain ⟨h1, h2, h3, h4, h5, h6⟩ := h.1 hi
    exact ⟨h1, h2, h3, h4, h5, key _ h6⟩
  · exact h

theorem inv_decoder {num n bad j s s'} (k : Nat) (h : InvJ num n bad j s) (hs : step s (.decoder k) = some s') :
    InvJ num n bad j s' := by
  obtain ⟨hnum, hn, hbad, ginv, cinv, dinv, nclosed, delEq, delBad, delSkip, skipBad, errBad, uinv⟩ := h
  simp only [step] at hs
  split at hs
  · rename_i hd
    have hk := dinv k _ hd
    simp only [dOk] at hk
    have hnd : s.d[k]? ≠ some .done := by rw [hd]; simp
    split at hs
    · rename_i hb
      injection hs with hs; subst hs
      constructor <;> dsimp only
      all_goals (try assumption)
      · simp only [List.length_set]
        cases hg : s.g <;> simp only [hg, gOk] at ginv ⊢ <;> grind
      · simp only [List.length_set]; exact cOk_set cinv hnd
      · intro k' x hx
        rw [List.getElem?_set] at hx
        have := dinv k' x
        cases x <;> simp only [dOk] at * <;> grind
      · intro _; exact ⟨k, hb⟩
    · rename_i hb
      injection hs with hs; subst hs
      constructor <;> dsimp only
      all_goals (try assumption)
      · simp only [List.length_set]; exact ginv
      · simp only [List.length_set]; exact cOk_set cinv hnd
      · intro k' x hx
        rw [List.getElem?_set] at hx
        have := dinv k' x
        cases x <;> simp only [dOk] at * <;> grind
  · simp at hs

theorem inv_consumer {num n bad j s s'} (h : InvJ num n bad j s) (hs : step s .consumer = some s') :
    InvJ num n bad j s' := by
  obtain ⟨hnum, hn, hbad, ginv, cinv, dinv, nclosed, delEq, delBad, delSkip, skipBad, errBad, uinv⟩ := h
  simp only [step] at hs
  split at hs
  · split at hs
    · rename_i hdc
      injection hs with hs; subst hs
      constructor <;> dsimp only
      all_goals (try assumption)
      · intro _; exact hdc
    · simp at hs
  · simp at hs

theorem inv_collector {num n bad j s s'} (h : InvJ num n bad j s) (hs : step s .collector = some s') :
    ∃ j', InvJ num n bad j' s' := by
  obtain ⟨hnum, hn, hbad, ginv, cinv, dinv, nclosed, delEq, delBad, delSkip, skipBad, errBad, uinv⟩ := h
  have hmn := m_le ginv
  simp only [step] at hs
  split at hs
  · -- idle
    rename_i hc
    rw [hc] at cinv dinv delSkip nclosed
    simp only [cOk] at cinv
    have hncl : s.n ∉ s.closed := fun h => by have := nclosed.1 h; cases this
    split at hs
    · simp at hs
    · rename_i i rest hq
      injection hs with hs; subst hs
      rw [hq] at cinv
      refine ⟨j, ?_⟩
      constructor <;> dsimp only
      all_goals (try assumption)
      · simp only [cOk]
        rcases qB_pop cinv.2.1 cinv.1 with ⟨h1, h2, h3⟩ | ⟨h1, h2, h3, h4⟩
        · exact ⟨fun _ => ⟨h2, h1, h3, cinv.2.2⟩, fun hi => by omega⟩
        · exact ⟨fun hi => by omega, fun _ => ⟨h2, h1, h3, h4⟩⟩
      · simp [hncl]
  · -- recv
    rename_i i hc
    rw [hc] at cinv dinv delSkip nclosed
    simp only [cOk] at cinv
    simp only [rcvR] at dinv
    simp only [dlen] at delSkip
    have hncl : s.n ∉ s.closed := fun h => by have := nclosed.1 h; cases this
    split at hs
    · rename_i hin
      obtain ⟨h1, h2, h3, h4⟩ := cinv.1 hin
      subst h1
      split at hs
      · -- sending
        rename_i hd
        have hi := dinv i _ hd
        simp only [dOk] at hi
        injection hs with hs; subst hs
        by_cases hsk : s.skip = true
        · refine ⟨i + 1, ?_⟩
          rw [if_pos hsk]
          constructor <;> dsimp only
          all_goals (try assumption)
          · simp only [List.length_set]; exact ginv
          · simp only [List.length_set, cOk]; exact ⟨h2, h3, h4⟩
          · intro k' x hx
            rw [List.getElem?_set] at hx
            have := dinv k' x
            simp only [rcvR]
            cases x <;> simp only [dOk] at * <;> grind
          · simp [hncl]
          · intro hc'; rw [hsk] at hc'; simp at hc'
        · refine ⟨i, ?_⟩
          have hsk' : s.skip = false := by simpa using hsk
          rw [if_neg hsk]
          constructor <;> dsimp only
          all_goals (try assumption)
          · simp only [List.length_set]; exact ginv
          · simp only [List.length_set, cOk]
            refine ⟨trivial, h2, hin, h3, h4, hsk', ?_⟩
            rw [List.getElem?_set]; simp; omega
          · intro k' x hx
            rw [List.getElem?_set] at hx
            have := dinv k' x
            simp only [rcvR]
            cases x <;> simp only [dOk] at * <;> grind
          · simp [hncl]
      · -- failed
        rename_i hd
        have hi := dinv i _ hd
        simp only [dOk] at hi
        injection hs with hs; subst hs
        refine ⟨i + 1, ?_⟩
        constructor <;> dsimp only
        all_goals (try assumption)
        · simp only [cOk]; exact ⟨h2, h3, h4⟩
        · intro k' x hx
          have := dinv k' x hx
          simp only [rcvR]
          cases x <;> simp only [dOk] at * <;> grind
        · simp [hncl]
        · intro hc'; simp at hc'
        · intro _; exact ⟨i, hi.1⟩
      · simp at hs
    · rename_i hin
      obtain ⟨h1, h2, h3, h4⟩ := cinv.2 hin
      split at hs
      · rename_i hg
        injection hs with hs; subst hs
        refine ⟨j, ?_⟩
        constructor <;> dsimp only
        all_goals (try assumption)
        · rw [hg] at ginv; exact ginv
        · simp only [cOk, gClass]
          exact ⟨fun hi => absurd hi hin, fun _ => ⟨h1, h2, h3, trivial⟩⟩
        · simp only [rcvR, hin, if_false]; exact dinv
        · simp [hncl]
        · simp only [dlen, hin, if_false]; exact delSkip
      · simp at hs
  · -- deliver
    rename_i i hc
    rw [hc] at cinv dinv delSkip nclosed
    simp only [cOk] at cinv
    simp only [rcvR] at dinv
    simp only [dlen] at delSkip
    have hncl : s.n ∉ s.closed := fun h => by have := nclosed.1 h; cases this
    obtain ⟨h1, h2, h3, h4, h5, h6, h7⟩ := cinv
    subst h1
    have hi := dinv i _ h7
    simp only [dOk] at hi
    obtain ⟨hlen, hjb⟩ := delSkip h6
    split at hs
    · injection hs with hs; subst hs
      refine ⟨i, ?_⟩
      constructor <;> dsimp only
      all_goals (try assumption)
      · simp only [cOk]
        exact ⟨fun _ => ⟨trivial, h2, h4, h5, h6, h7⟩, fun hin => absurd h3 hin⟩
      · simp only [rcvR, h3, if_true]; exact dinv
      · simp [hncl]
      · rw [List.length_append, List.length_singleton, List.range_succ, ← delEq, hlen]
      · intro b hb
        have := hjb b hb
        have : b ≠ i := fun hc' => hi.2 (hc' ▸ hb)
        simp only [List.length_append, List.length_singleton]; omega
      · intro _
        simp only [dlen, h3, if_true, List.length_append, List.length_singleton]
        exact ⟨by omega, hjb⟩
    · simp at hs
  · -- closing
    rename_i i hc
    rw [hc] at cinv dinv delSkip nclosed
    simp only [cOk] at cinv
    have hncl : s.n ∉ s.closed := fun h => by have := nclosed.1 h; cases this
    injection hs with hs; subst hs
    by_cases hin : i < s.n
    · obtain ⟨h1, h2, h3, h4, h5, h6⟩ := cinv.1 hin
      subst h1
      simp only [rcvR, hin, if_true] at dinv
      simp only [dlen, hin, if_true] at delSkip
      have hi := dinv i _ h6
      simp only [dOk] at hi
      have hne : i ≠ s.n := by omega
      refine ⟨i + 1, ?_⟩
      rw [if_neg hne]
      constructor <;> dsimp only
      all_goals (try assumption)
      · simp only [cOk]; exact ⟨h2, h3, h4⟩
      · simp [hncl]; omega
      · intro hsk
        obtain ⟨hlen, hjb⟩ := delSkip hsk
        refine ⟨hlen, fun b hb => ?_⟩
        have := hjb b hb
        have : b ≠ i := fun hc' => hi.2 (hc' ▸ hb)
        omega
    · obtain ⟨h1, h2, h3, h4⟩ := cinv.2 hin
      simp only [rcvR, hin, if_false] at dinv
      simp only [dlen, hin, if_false] at delSkip
      refine ⟨j, ?_⟩
      rw [if_pos h1]
      constructor <;> dsimp only
      all_goals (try assumption)
      · simp only [cOk]; exact ⟨h2, h3, by omega⟩
      · simp [h1]
  · simp at hs

theorem inv_step {num n bad s s'} (a : Actor) (h : Inv num n bad s) (hs : step s a = some s') : Inv num n bad s' := by
  obtain ⟨j, h⟩ := h
  cases a
  · exact ⟨j, inv_reader h hs⟩
  · exact inv_collector h hs
  · exact ⟨j, inv_decoder _ h hs⟩
  · exact ⟨j, inv_consumer h hs⟩

theorem inv_run {num n bad} (sched : List Actor) : ∀ s, Inv num n bad s → Inv num n bad (run s sched) := by
  induction sched with
  | nil => intro s h; exact h
  | cons a as ih =>
    intro s h
    simp only [run]
    apply ih
    cases hs : step s a with
    | none => exact h
    | some s' => exact inv_step a h hs

theorem inv_reach {num n bad s} (h : ∃ sched, s = run (init num n bad) sched) : Inv num n bad s := by
  obtain ⟨sched, rfl⟩ := h
  exact inv_run sched _ ⟨0, inv_init num n bad⟩

/-! ## consequences of the invariant -/

theorem inv_order {num n bad s} (h : Inv num n bad s) :
    s.delivered = List.range s.delivered.length ∧ ∀ k ∈ s.delivered, ∀ b ∈ bad, k < b := by
  obtain ⟨j, h⟩ := h
  refine ⟨h.delEq, fun k hk b hb => ?_⟩
  rw [h.delEq, List.mem_range] at hk
  have := h.delBad b (h.hbad ▸ hb)
  omega

/-- from the collector invariant: a reader past the sentinel hand-over pins the collector -/
theorem c_of_class {j m n q gc skip d c} (h : cOk j m n q gc skip d c) (hgc : 3 ≤ gc) :
    c = .exited ∧ j = m ∧ q = [] := by
  cases c <;> simp only [cOk] at h
  · omega
  · rename_i i
    by_cases hi : i < n
    · have := h.1 hi; omega
    · have := h.2 hi; omega
  · omega
  · rename_i i
    by_cases hi : i < n
    · have := h.1 hi; omega
    · have := h.2 hi; omega
  · exact ⟨rfl, h.1, h.2.1⟩

theorem inv_finished {num n bad j s} (h : InvJ num n bad j s) (hu : s.u = .finished) :
    s.g = .exited ∧ s.c = .exited ∧ j = s.d.length ∧ s.queue = [] := by
  have hdc := h.uinv hu
  have hg : s.g = .exited := by
    have := h.ginv
    cases hg : s.g <;> simp only [hg, gOk, hdc] at this <;> first | rfl | simp at this
  have := h.cinv
  rw [hg] at this
  obtain ⟨h1, h2, h3⟩ := c_of_class this (by simp [gClass])
  exact ⟨hg, h1, h2, h3⟩

theorem inv_order_final {num n s} (h : Inv num n [] s) (hu : s.u = .finished) : s.delivered = List.range n := by
  obtain ⟨j, h⟩ := h
  obtain ⟨hg, hc, hj, _⟩ := inv_finished h hu
  have hbad := h.hbad
  have hskip : s.skip = false := by
    cases hs : s.skip
    · rfl
    · obtain ⟨b, hb⟩ := h.skipBad hs; rw [hbad] at hb; simp at hb
  have herr : s.err = false := by
    cases hs : s.err
    · rfl
    · obtain ⟨b, hb⟩ := h.errBad hs; rw [hbad] at hb; simp at hb
  have hlen := (h.delSkip hskip).1
  rw [hc] at hlen; simp only [dlen] at hlen
  have hm : s.d.length = s.n := by
    have := h.ginv
    rw [hg, herr] at this; simp only [gOk] at this
    rcases this.2.1 with h1 | h1
    · exact h1
    · simp at h1
  rw [h.delEq, hlen, hj, hm, h.hn]

theorem inv_error_latched {num n bad s} (h : Inv num n bad s) (k : Nat) (hk : s.d[k]? = some .failed) : s.err = true := by
  obtain ⟨j, h⟩ := h
  have := h.dinv k _ hk
  simp only [dOk] at this
  exact this.2

theorem inv_noleak {num n bad s} (h : Inv num n bad s) (hu : s.u = .finished) :
    s.g = .exited ∧ s.c = .exited ∧ s.queue = [] ∧
      ∀ k, k < s.d.length → (s.d[k]? = some .done ∨ s.d[k]? = some .failed) := by
  obtain ⟨j, h⟩ := h
  obtain ⟨hg, hc, hj, hq⟩ := inv_finished h hu
  refine ⟨hg, hc, hq, fun k hk => ?_⟩
  have hget : s.d[k]? = some s.d[k] := by simp [hk]
  have := h.dinv k _ hget
  rw [hc] at this; simp only [rcvR] at this
  cases hx : s.d[k] <;> rw [hx] at this hget <;> simp only [dOk] at this
  · omega
  · omega
  · right; exact hget
  · left; exact hget

theorem inv_progress {num n bad s} (hnum : 0 < num) (h : Inv num n bad s) (hu : s.u ≠ .finished) :
    ∃ a, (step s a).isSome := by
  obtain ⟨j, h⟩ := h
  have hci := h.cinv; have hgi := h.ginv
  have hnum' : 0 < s.num := by rw [h.hnum]; exact hnum
  have hur : s.u = .receiving := by
    cases hu' : s.u with
    | receiving => rfl
    | finished => exact absurd hu' hu
  cases hc : s.c with
  | idle =>
    rw [hc] at hci; simp only [cOk] at hci
    cases hq : s.queue with
    | cons i rest => exact ⟨.collector, by simp [step, hc, hq]⟩
    | nil =>
      refine ⟨.reader, ?_⟩
      rw [hq] at hci
      have hne : gClass s.g ≠ 1 := by
        intro h1
        have := congrArg List.length hci.2.1
        simp [qB, h1] at this
      cases hg : s.g with
      | read k =>
        simp only [step, hg]
        split
        · simp
        · simp [hq, hnum']
      | sentEnq => simp [step, hg, hq, hnum']
      | sentSend => rw [hg] at hne; simp [gClass] at hne
      | sentWait => have := hci.2.2; rw [hg] at this; simp [gClass] at this
      | closeData => have := hci.2.2; rw [hg] at this; simp [gClass] at this
      | exited => have := hci.2.2; rw [hg] at this; simp [gClass] at this
  | recv i =>
    rw [hc] at hci; simp only [cOk] at hci
    by_cases hin : i < s.n
    · obtain ⟨h1, h2, h3, h4⟩ := hci.1 hin
      subst h1
      have hget : s.d[i]? = some s.d[i] := by simp [h2]
      have hd := h.dinv i _ hget
      rw [hc] at hd; simp only [rcvR] at hd
      cases hx : s.d[i] <;> rw [hx] at hd hget <;> simp only [dOk] at hd
      · refine ⟨.decoder i, ?_⟩
        simp only [step, hget]; split <;> simp
      · exact ⟨.collector, by simp [step, hc, hin, hget]⟩
      · exact ⟨.collector, by simp [step, hc, hin, hget]⟩
      · omega
    · obtain ⟨h1, h2, h3, h4⟩ := hci.2 hin
      have hg : s.g = .sentSend := by
        cases hg : s.g <;> rw [hg] at h4 <;> simp [gClass] at h4
      exact ⟨.collector, by simp [step, hc, hin, hg]⟩
  | deliver i => exact ⟨.collector, by simp [step, hc, hur]⟩
  | closing i => exact ⟨.collector, by simp [step, hc]⟩
  | exited =>
    rw [hc] at hci; simp only [cOk] at hci
    have hcl : s.n ∈ s.closed := h.nclosed.2 hc
    cases hg : s.g with
    | read k => have := hci.2.2; rw [hg] at this; simp [gClass] at this
    | sentEnq => have := hci.2.2; rw [hg] at this; simp [gClass] at this
    | sentSend => have := hci.2.2; rw [hg] at this; simp [gClass] at this
    | sentWait => exact ⟨.reader, by simp [step, hg, hcl]⟩
    | closeData => exact ⟨.reader, by simp [step, hg]⟩
    | exited =>
      rw [hg] at hgi; simp only [gOk] at hgi
      exact ⟨.consumer, by simp [step, hur, hgi.2.2]⟩

/-! ## termination measure -/

def dW : DPc → Nat
  | .decoding => 2 | .sending => 1 | .failed => 0 | .done => 0
def cW : CPc → Nat
  | .idle => 0 | .recv _ => 3 | .deliver _ => 2 | .closing _ => 1 | .exited => 0
def gW (n : Nat) : GPc → Nat
  | .read k => 7 * (n - k) + 15 | .sentEnq => 8 | .sentSend => 3 | .sentWait => 2 | .closeData => 1 | .exited => 0
def uW : UPc → Nat
  | .receiving => 1 | .finished => 0

/-- weighted sum of the remaining pc distances of all actors plus four per queued item -/
def measure (s : State) : Nat := gW s.n s.g + cW s.c + 4 * s.queue.length + (s.d.map dW).sum + uW s.u

theorem sum_map_set {α} (f : α → Nat) (l : List α) (i : Nat) (x v : α) (h : l[i]? = some x) :
    ((l.set i v).map f).sum + f x = (l.map f).sum + f v := by
  induction l generalizing i with
  | nil => simp at h
  | cons a l ih =>
    cases i with
    | zero => simp at h; subst h; simp only [List.set_cons_zero, List.map_cons, List.sum_cons]; omega
    | succ i =>
      simp at h; have := ih i h
      simp only [List.set_cons_succ, List.map_cons, List.sum_cons]; omega

theorem measure_step {s s'} (a : Actor) (hs : step s a = some s') : measure s' < measure s := by
  cases a with
  | reader =>
    simp only [step] at hs
    split at hs
    · rename_i k hg
      split at hs
      · injection hs with hs; subst hs
        simp only [measure, hg, gW]; omega
      · split at hs
        · injection hs with hs; subst hs
          by_cases hk : k + 1 < s.n <;>
            simp only [measure, hg, hk, if_true, if_false, gW, List.length_append, List.map_append, List.sum_append,
              List.length_singleton, List.map_cons, List.map_nil, List.sum_cons, List.sum_nil, dW] <;> omega
        · simp at hs
    · rename_i hg
      split at hs
      · injection hs with hs; subst hs
        simp only [measure, hg, gW, List.length_append, List.length_singleton]; omega
      · simp at hs
    · simp at hs
    · rename_i hg
      split at hs
      · injection hs with hs; subst hs
        simp only [measure, hg, gW]; omega
      · simp at hs
    · rename_i hg
      injection hs with hs; subst hs
      simp only [measure, hg, gW]; omega
    · simp at hs
  | collector =>
    simp only [step] at hs
    split at hs
    · rename_i hc
      split at hs
      · simp at hs
      · rename_i i rest hq
        injection hs with hs; subst hs
        simp only [measure, hc, hq, cW, List.length_cons]; omega
    · rename_i i hc
      split at hs
      · split at hs
        · rename_i hd
          injection hs with hs; subst hs
          have := sum_map_set dW s.d i _ .done hd
          simp only [dW] at this
          by_cases hsk : s.skip = true
          · rw [if_pos hsk]; simp only [measure, hc, cW]; omega
          · rw [if_neg hsk]; simp only [measure, hc, cW]; omega
        · injection hs with hs; subst hs
          simp only [measure, hc, cW]; omega
        · simp at hs
      · split at hs
        · rename_i hg
          injection hs with hs; subst hs
          simp only [measure, hc, hg, cW, gW]; omega
        · simp at hs
    · rename_i i hc
      split at hs
      · injection hs with hs; subst hs
        simp only [measure, hc, cW]; omega
      · simp at hs
    · rename_i i hc
      injection hs with hs; subst hs
      by_cases hi : i = s.n <;> simp only [measure, hc, hi, if_true, if_false, cW] <;> omega
    · simp at hs
  | decoder k =>
    simp only [step] at hs
    split at hs
    · rename_i hd
      split at hs
      · injection hs with hs; subst hs
        have := sum_map_set dW s.d k _ .failed hd
        simp only [dW] at this
        simp only [measure]; omega
      · injection hs with hs; subst hs
        have := sum_map_set dW s.d k _ .sending hd
        simp only [dW] at this
        simp only [measure]; omega
    · simp at hs
  | consumer =>
    simp only [step] at hs
    split at hs
    · rename_i hu
      split at hs
      · injection hs with hs; subst hs
        simp only [measure, hu, uW]; omega
      · simp at hs
    · simp at hs

/-! ## the latched error always has a witness (independent little invariant) -/

def ErrInv (s : State) : Prop := s.err = true → ∃ k : Nat, s.d[k]? = some DPc.failed

theorem failed_set {d : List DPc} {k i : Nat} {x v : DPc} (hk : d[k]? = some DPc.failed) (hi : d[i]? = some x)
    (hx : x ≠ DPc.failed) : (d.set i v)[k]? = some DPc.failed := by
  rw [List.getElem?_set]
  split
  · rename_i h; subst h; rw [hk] at hi; injection hi with hi; exact absurd hi.symm hx
  · exact hk

theorem errInv_step {s s'} (a : Actor) (h : ErrInv s) (hs : step s a = some s') : ErrInv s' := by
  cases a with
  | reader =>
    simp only [step] at hs
    split at hs
    · split at hs
      · injection hs with hs; subst hs; exact h
      · split at hs
        · injection hs with hs; subst hs
          intro he
          obtain ⟨k, hk⟩ := h he
          refine ⟨k, ?_⟩
          have := (List.getElem?_eq_some_iff.1 hk).1
          dsimp only
          rw [List.getElem?_append_left this]; exact hk
        · simp at hs
    · split at hs
      · injection hs with hs; subst hs; exact h
      · simp at hs
    · simp at hs
    · split at hs
      · injection hs with hs; subst hs; exact h
      · simp at hs
    · injection hs with hs; subst hs; exact h
    · simp at hs
  | collector =>
    simp only [step] at hs
    split at hs
    · split at hs
      · simp at hs
      · injection hs with hs; subst hs; exact h
    · split at hs
      · split at hs
        · rename_i hd
          injection hs with hs; subst hs
          intro he
          obtain ⟨k, hk⟩ := h he
          exact ⟨k, failed_set hk hd (by simp)⟩
        · injection hs with hs; subst hs; exact h
        · simp at hs
      · split at hs
        · injection hs with hs; subst hs; exact h
        · simp at hs
    · split at hs
      · injection hs with hs; subst hs; exact h
      · simp at hs
    · injection hs with hs; subst hs; exact h
    · simp at hs
  | decoder k =>
    simp only [step] at hs
    split at hs
    · rename_i hd
      split at hs
      · injection hs with hs; subst hs
        intro _
        refine ⟨k, ?_⟩
        have := (List.getElem?_eq_some_iff.1 hd).1
        dsimp only
        rw [List.getElem?_set]; simp [this]
      · injection hs with hs; subst hs
        intro he
        obtain ⟨k', hk'⟩ := h he
        exact ⟨k', failed_set hk' hd (by simp)⟩
    · simp at hs
  | consumer =>
    simp only [step] at hs
    split at hs
    · split at hs
      · injection hs with hs; subst hs; exact h
      · simp at hs
    · simp at hs

theorem errInv_run (sched : List Actor) : ∀ s, ErrInv s → ErrInv (run s sched) := by
  induction sched with
  | nil => intro s h; exact h
  | cons a as ih =>
    intro s h
    simp only [run]
    apply ih
    cases hs : step s a with
    | none => exact h
    | some s' => exact errInv_step a h hs

theorem errInv_reach {num n bad s} (h : ∃ sched, s = run (init num n bad) sched) : ErrInv s := by
  obtain ⟨sched, rfl⟩ := h
  exact errInv_run sched _ (by intro he; simp [init] at he)

/-! ## schedules compose -/

theorem run_append (s : State) (l1 l2 : List Actor) : run s (l1 ++ l2) = run (run s l1) l2 := by
  induction l1 generalizing s with
  | nil => rfl
  | cons a as ih => simp only [List.cons_append, run]; exact ih _

/-- every reachable state that is not final can be driven to a final one: no schedule prefix can paint the
pipeline into a corner -/
theorem inv_can_finish {num n bad} (hnum : 0 < num) :
    ∀ (m : Nat) (s : State), measure s ≤ m → Inv num n bad s → ∃ sched, (run s sched).u = .finished := by
  intro m
  induction m with
  | zero =>
    intro s hm h
    by_cases hu : s.u = .finished
    · exact ⟨[], hu⟩
    · obtain ⟨a, ha⟩ := inv_progress hnum h hu
      obtain ⟨s', hs'⟩ := Option.isSome_iff_exists.1 ha
      have := measure_step a hs'
      omega
  | succ m ih =>
    intro s hm h
    by_cases hu : s.u = .finished
    · exact ⟨[], hu⟩
    · obtain ⟨a, ha⟩ := inv_progress hnum h hu
      obtain ⟨s', hs'⟩ := Option.isSome_iff_exists.1 ha
      have hlt := measure_step a hs'
      obtain ⟨sched, hsched⟩ := ih s' (by omega) (inv_step a h hs')
      refine ⟨a :: sched, ?_⟩
      simp only [run, hs', Option.getD_some]; exact hsched

end Lz4V.Proofs.PipeR
