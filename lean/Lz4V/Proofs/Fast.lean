import Lz4V.Model.Fast
import Lz4V.Proofs.FastBits
import Lz4V.Proofs.FastEmit
/-!
# Proofs.Fast — the fast block compressor model emits a strictly valid block that decodes to the source
-/
namespace Lz4V.Proofs.Fast
open Lz4V Lz4V.Go Lz4V.Gen Lz4V.Model.Emit Lz4V.Model.Fast Lz4V.Proofs.FastBits Lz4V.Proofs.FastEmit
open Lz4V.Proofs.BlockSpec2

def TInv (t : Table) (b : Nat) : Prop := ∀ (h v : Nat), t[h]! = some v → b ≤ 65536 → v < b

theorem TInv.mono {t : Table} {b b' : Nat} (h : TInv t b) (hb : b ≤ b') : TInv t b' := by
  intro i v hv hb'
  have := h i v hv (by omega)
  omega

theorem getElem!_set! (t : Table) (h h' : Nat) (x : Option Nat) :
    (t.set! h x)[h']! = if h = h' ∧ h < t.size then x else t[h']! := by
  show (t.setIfInBounds h x)[h']! = _
  rw [getElem!_def, getElem!_def, Array.getElem?_setIfInBounds]
  by_cases e : h = h'
  · subst e
    by_cases l : h < t.size
    · simp [l]
    · simp [l]
  · simp [e]

theorem TInv.put {t : Table} {b : Nat} (h : TInv t b) (i p : Nat) (hp : p < b) : TInv (put t i p) b := by
  intro j v hv hb
  unfold Model.Fast.put at hv
  rw [getElem!_set!] at hv
  split at hv
  · simp only [Option.some.injEq] at hv; omega
  · exact h j v hv hb

theorem replicate_none (n i : Nat) : (Array.replicate n (none : Option Nat))[i]! = none := by
  rw [getElem!_def, Array.getElem?_replicate]
  split <;> rename_i h
  · split at h <;> simp_all
  · rfl

theorem TInv.empty (b : Nat) : TInv emptyTable b := by
  intro i v hv
  unfold emptyTable at hv
  rw [replicate_none] at hv
  simp at hv

def tv (t : Table) (h : Nat) : Nat := match t[h]! with | some v => v | none => 0

theorem get_eq (t : Table) (h si : Nat) : Model.Fast.get t h si =
    if (tv t h : Int) + ((si - si % 65536 : Nat) : Int) ≥ (si : Int)
    then (tv t h : Int) + ((si - si % 65536 : Nat) : Int) - 65536
    else (tv t h : Int) + ((si - si % 65536 : Nat) : Int) := rfl

theorem get_nonneg (t : Table) (h si : Nat) (hT : ∀ v, t[h]! = some v → si ≤ 65536 → v < si)
    (h1 : 0 < (si : Int) - Model.Fast.get t h si) (h2 : (si : Int) - Model.Fast.get t h si < 65536) :
    0 ≤ Model.Fast.get t h si := by
  rw [get_eq] at *
  have key : (si ≤ 65536 → tv t h < si ∨ tv t h = 0) := by
    unfold tv
    cases hv : t[h]! with
    | none => exact fun _ => Or.inr rfl
    | some v => exact fun hh => Or.inl (hT v hv hh)
  generalize tv t h = v at *
  by_cases c : (v : Int) + ((si - si % 65536 : Nat) : Int) ≥ (si : Int)
  · rw [if_pos c] at h1 h2 ⊢
    omega
  · rw [if_neg c] at h1 h2 ⊢
    omega

theorem stage (src : Array UInt8) (A : UInt64) (s : Nat) (ref : Int)
    (hnn : 0 < (s:Int) - ref → (s:Int) - ref < 65536 → 0 ≤ ref)
    (hc : ¬ ((s:Int) - ref ≤ 0 ∨ (s:Int) - ref ≥ (winSize : Nat) ∨ (A != le32 src ref.toNat) = true)) :
    1 ≤ ((s:Int) - ref).toNat ∧ ((s:Int) - ref).toNat < 65536 ∧ ((s:Int) - ref).toNat ≤ s ∧
      A = le32 src (s - ((s:Int) - ref).toNat) := by
  simp only [Gen.winSize, not_or, bne_iff_ne, ne_eq, Decidable.not_not] at hc
  obtain ⟨c1, c2, c3⟩ := hc
  have := hnn (by omega) (by omega)
  refine ⟨by omega, by omega, by omega, ?_⟩
  have e : s - ((s:Int) - ref).toNat = ref.toNat := by omega
  rw [e]; exact c3

theorem probe_spec (src : Array UInt8) (t : Table) (si anchor : Nat) (hT : TInv t si) :
    match probe src t si anchor with
    | none => False
    | some (t', none, si') => TInv t' si' ∧ si < si'
    | some (t', some (s1, off), _) => TInv t' (si+3) ∧ si ≤ s1 ∧ s1 ≤ si+2 ∧ 1 ≤ off ∧ off < 65536 ∧ off ≤ s1 ∧
        ∀ j, j < 4 → src[s1+j]! = src[s1-off+j]! := by
  unfold probe
  simp only []
  have hT1 : TInv (put (put t (hashIdx (le64 src si)) si) (hashIdx (le64 src si >>> 8)) (si + 1)) (si+2) :=
    ((hT.mono (by omega : si ≤ si + 2)).put _ si (by omega)).put _ (si+1) (by omega)
  have hT2 := (hT1.mono (by omega : si + 2 ≤ si + 1 + 1 + 1)).put (hashIdx (le64 src si >>> 16)) (si+1+1) (by omega)
  have g1 := get_nonneg t (hashIdx (le64 src si)) si (fun v hv hs => hT _ v hv hs)
  have g2 := get_nonneg t (hashIdx (le64 src si >>> 8)) (si+1)
    (fun v hv hs => by have := hT _ v hv (by omega); omega)
  have g3 := get_nonneg (put (put t (hashIdx (le64 src si)) si) (hashIdx (le64 src si >>> 8)) (si + 1))
    (hashIdx (le64 src si >>> 16)) (si+2) (fun v hv hs => hT1 _ v hv hs)
  generalize Model.Fast.get t (hashIdx (le64 src si)) si = ref1 at *
  generalize Model.Fast.get t (hashIdx (le64 src si >>> 8)) (si+1) = ref2 at *
  generalize Model.Fast.get (put (put t (hashIdx (le64 src si)) si) (hashIdx (le64 src si >>> 8)) (si + 1))
    (hashIdx (le64 src si >>> 16)) (si+2) = ref3 at *
  generalize put (put t (hashIdx (le64 src si)) si) (hashIdx (le64 src si >>> 8)) (si + 1) = t1 at *
  generalize hashIdx (le64 src si >>> 16) = h3 at *
  have e11 : ((si + 1 + 1 : Nat) : Int) = ((si + 2 : Nat) : Int) := rfl
  by_cases p1 : ¬((si:Int) - ref1 ≤ 0 ∨ (si:Int) - ref1 ≥ (winSize:Nat)) ∧ ref1 < 0
  · exfalso; simp only [Gen.winSize] at p1; omega
  rw [if_neg p1]
  by_cases c1 : (si:Int) - ref1 ≤ 0 ∨ (si:Int) - ref1 ≥ (winSize:Nat) ∨
      (le64 src si &&& 4294967295 != le32 src ref1.toNat) = true
  · rw [if_pos c1]
    by_cases p2 : ¬(((si+1:Nat):Int) - ref2 ≤ 0 ∨ ((si+1:Nat):Int) - ref2 ≥ (winSize:Nat)) ∧ ref2 < 0
    · exfalso; simp only [Gen.winSize] at p2; omega
    rw [if_neg p2]
    by_cases c2 : ((si+1:Nat):Int) - ref2 ≤ 0 ∨ ((si+1:Nat):Int) - ref2 ≥ (winSize:Nat) ∨
        (le64 src si >>> 8 &&& 4294967295 != le32 src ref2.toNat) = true
    · rw [if_pos c2]
      by_cases p3 : ¬(((si+1+1:Nat):Int) - ref3 ≤ 0 ∨ ((si+1+1:Nat):Int) - ref3 ≥ (winSize:Nat)) ∧ ref3 < 0
      · exfalso; simp only [Gen.winSize] at p3; omega
      rw [if_neg p3]
      by_cases c3 : ((si+1+1:Nat):Int) - ref3 ≤ 0 ∨ ((si+1+1:Nat):Int) - ref3 ≥ (winSize:Nat) ∨
          (le64 src si >>> 16 &&& 4294967295 != le32 src ref3.toNat) = true
      · rw [if_pos c3]
        simp only
        generalize (si + 1 + 1 - anchor) / 2 ^ adaptSkipLogFast = q
        exact ⟨hT2.mono (by omega), by omega⟩
      · rw [if_neg c3]
        simp only
        obtain ⟨a1, a2, a3, a4⟩ := stage src _ (si+1+1) ref3 g3 c3
        rw [le64_shr16_and] at a4
        refine ⟨hT2.mono (by omega), by omega, by omega, a1, a2, a3, ?_⟩
        have := le32_bytes src _ _ a4
        intro j hj
        have e : si + 1 + 1 + j = si + 2 + j := by omega
        rw [e]; exact this j hj
    · rw [if_neg c2]
      simp only
      obtain ⟨a1, a2, a3, a4⟩ := stage src _ (si+1) ref2 g2 c2
      rw [le64_shr8_and] at a4
      exact ⟨hT1.mono (by omega), by omega, by omega, a1, a2, a3, le32_bytes src _ _ a4⟩
  · rw [if_neg c1]
    simp only
    obtain ⟨a1, a2, a3, a4⟩ := stage src _ si ref1 g1 c1
    rw [le64_and] at a4
    exact ⟨hT1.mono (by omega), by omega, by omega, a1, a2, a3, le32_bytes src _ _ a4⟩

theorem backExt_spec (src : Array UInt8) (si off lLen k : Nat)
    (hk : ∀ j, j < k → src[si-j-1]! = src[si-j-off-1]!) (hoff : off + k ≤ si) :
    k ≤ backExt src si off lLen k ∧ backExt src si off lLen k ≤ k + lLen ∧
    off + backExt src si off lLen k ≤ si ∧
    ∀ j, j < backExt src si off lLen k → src[si-j-1]! = src[si-j-off-1]! := by
  induction lLen generalizing k with
  | zero => simp only [backExt]; exact ⟨by omega, by omega, hoff, hk⟩
  | succ n ih =>
    simp only [backExt]
    split
    · rename_i h
      have := ih (k+1) (by
        intro j hj
        by_cases e : j = k
        · subst e; exact h.2
        · exact hk j (by omega)) (by omega)
      exact ⟨by omega, by omega, this.2.2.1, this.2.2.2⟩
    · exact ⟨by omega, by omega, hoff, hk⟩

theorem fwdExt_spec (src : Array UInt8) (off sn fuel si : Nat) (hoff : off ≤ si) :
    si ≤ fwdExt src off sn fuel si ∧ (fwdExt src off sn fuel si ≤ sn ∨ fwdExt src off sn fuel si = si) ∧
    ∀ k, si ≤ k → k < fwdExt src off sn fuel si → src[k]! = src[k-off]! := by
  induction fuel generalizing si with
  | zero => simp only [fwdExt]; exact ⟨Nat.le_refl _, Or.inr trivial, fun k h1 h2 => by omega⟩
  | succ n ih =>
    simp only [fwdExt]
    split
    · rename_i h8
      split
      · rename_i hx
        have hb := le64_bytes src si (si - off) (UInt64.xor_eq_zero_iff.mp hx)
        obtain ⟨i1, i2, i3⟩ := ih (si + 8) (by omega)
        refine ⟨by omega, by omega, ?_⟩
        intro k hk1 hk2
        by_cases hk : k < si + 8
        · have := hb (k - si) (by omega)
          have e1 : si + (k - si) = k := by omega
          have e2 : si - off + (k - si) = k - off := by omega
          rw [e1, e2] at this; exact this
        · exact i3 k (by omega) hk2
      · have hle := tzBytes_le (le64 src si ^^^ le64 src (si - off))
        refine ⟨by omega, by omega, ?_⟩
        intro k hk1 hk2
        have := tzBytes_bytes src si (si - off) (k - si) (by omega)
        have e1 : si + (k - si) = k := by omega
        have e2 : si - off + (k - si) = k - off := by omega
        rw [e1, e2] at this; exact this
    · exact ⟨Nat.le_refl _, Or.inr rfl, fun k h1 h2 => by omega⟩

theorem copyMatch_src (src : Array UInt8) (s off n : Nat) (h1 : 1 ≤ off) (h2 : off ≤ s)
    (h3 : s + n ≤ src.size) (hb : ∀ k, s ≤ k → k < s + n → src[k]! = src[k-off]!) :
    Spec.Block.copyMatch (src.extract 0 s) off n = src.extract 0 (s+n) := by
  induction n generalizing s with
  | zero => simp [Spec.Block.copyMatch]
  | succ n ih =>
    simp only [Spec.Block.copyMatch]
    have hsz : (src.extract 0 s).size = s := by rw [Array.size_extract]; omega
    have hget : (src.extract 0 s).getD ((src.extract 0 s).size - off) 0 = src[s]'(by omega) := by
      rw [hsz, Array.getD_eq_getD_getElem?, Array.getElem?_eq_getElem (by rw [hsz]; omega),
        Option.getD_some, Array.getElem_extract]
      have := hb s (by omega) (by omega)
      rw [getElem!_pos src s (by omega), getElem!_pos src (s - off) (by omega)] at this
      rw [this]; congr 1; omega
    rw [hget, Array.push_extract_getElem]
    have := ih (s+1) (by omega) (by omega) (fun k hk1 hk2 => hb k (by omega) (by omega))
    have e : s + 1 + n = s + (n + 1) := by omega
    rw [e] at this
    simpa using this

theorem seq_cost (ll ml : Nat) :
    255 * (1 + (Spec.Block.ext ll).length + ll + 2 + (Spec.Block.ext ml).length) ≤ 256 * (ll + ml + 4) := by
  rw [ext_length, ext_length]
  split <;> split <;> omega

theorem bound_eq (n : Nat) : bound n = n + n / 255 + 16 := by
  unfold bound CompressBlockBound
  omega

open Lz4V.Spec.Block (emitAll expand WF offsetsOk seqsLen lastMatchStart)

def Good (src : Array UInt8) (D : Nat) (pre : List UInt8) (anchor n : Nat) (d : Array UInt8) : Prop :=
  ∃ ss l, d.size = D ∧ n ≤ D ∧ pre.length < n ∧ d.toList.take n = pre ++ emitAll ss l ∧
    expand (src.extract 0 anchor) ss l = src ∧ WF (src.extract 0 anchor) ss ∧ offsetsOk anchor ss = true ∧
    anchor + seqsLen ss + l.length = src.size ∧ 5 ≤ l.length ∧
    (∀ st, lastMatchStart anchor ss = some st → st + 12 ≤ src.size)

def Post (src dst : Array UInt8) (di anchor : Nat) (notComp : Bool) (r : Ret) : Prop :=
  match r with
  | .ok n d => Good src dst.size (dst.toList.take di) anchor n d
  | .zero => notComp = true
  | .err => notComp = true
  | .panic => False

theorem take_length' (d : Array UInt8) (di : Nat) (h : di ≤ d.size) : (d.toList.take di).length = di := by
  rw [List.length_take, Array.length_toList]; omega

theorem lastLiterals_post (src dst : Array UInt8) (di anchor : Nat) (notComp : Bool)
    (ha : anchor + 5 ≤ src.size) (hdi : di ≤ dst.size) (hacc : 255 * di ≤ 256 * anchor)
    (hnc : notComp = false → bound src.size ≤ dst.size) :
    Post src dst di anchor notComp (lastLiterals src dst di anchor notComp) := by
  have h := lastLiterals_spec src dst di anchor notComp (by omega)
  have hlen := slice_length src anchor (src.size - anchor) (by omega)
  unfold Post
  generalize lastLiterals src dst di anchor notComp = r at h ⊢
  cases r with
  | ok n d =>
    simp only at h ⊢
    obtain ⟨w1, w2, w3, w4⟩ := h
    refine ⟨[], slice src anchor (src.size - anchor), w1, w3, ?_, ?_, ?_, trivial, rfl, ?_, ?_, ?_⟩
    · rw [take_length' dst di hdi, w2]; simp [Spec.Block.emitLast]
    · rw [w4]; rfl
    · simp only [expand]; exact extract_append_slice_all src anchor (by omega)
    · simp only [seqsLen, hlen]; omega
    · rw [hlen]; omega
    · intro st hst; simp [lastMatchStart] at hst
  | zero => exact h
  | err =>
    simp only at h ⊢
    cases notComp with
    | true => rfl
    | false =>
      exfalso
      have hb := hnc rfl
      rw [bound_eq] at hb
      simp only [Spec.Block.emitLast, List.length_cons, List.length_append, hlen, ext_length] at h
      split at h <;> omega
  | panic => exact h

theorem Good_cons (src dst d' : Array UInt8) (di di' anchor s e off n : Nat) (d : Array UInt8)
    (hW : Wr dst di d' di' (Spec.Block.emitSeq ⟨slice src anchor (s - anchor), off, e - (s + 4)⟩))
    (ha : anchor ≤ s) (hs : s + 4 ≤ e) (he : e ≤ src.size) (hoff1 : 1 ≤ off) (hoff2 : off < 65536)
    (hoff3 : off ≤ s) (hs12 : s + 12 ≤ src.size)
    (hb : ∀ k, s ≤ k → k < e → src[k]! = src[k-off]!) (hdi : di ≤ dst.size)
    (hG : Good src d'.size (d'.toList.take di') e n d) :
    Good src dst.size (dst.toList.take di) anchor n d := by
  obtain ⟨ss, l, g1, g2, g3, g4, g5, g6, g7, g8, g9, g10⟩ := hG
  obtain ⟨w1, w2, w3, w4⟩ := hW
  have hlen := slice_length src anchor (s - anchor) (by omega)
  have hsz : (src.extract 0 anchor).size = anchor := by rw [Array.size_extract]; omega
  have hcm : Spec.Block.copyMatch (src.extract 0 anchor ++ slice src anchor (s - anchor)) off (e - (s + 4) + 4)
      = src.extract 0 e := by
    rw [extract_append_slice]
    have e1 : anchor + (s - anchor) = s := by omega
    have e2 : e - (s + 4) + 4 = e - s := by omega
    rw [e1, e2]
    have := copyMatch_src src s off (e - s) hoff1 hoff3 (by omega) (fun k hk1 hk2 => hb k hk1 (by omega))
    have e3 : s + (e - s) = e := by omega
    rw [e3] at this; exact this
  refine ⟨⟨slice src anchor (s - anchor), off, e - (s + 4)⟩ :: ss, l, by omega, by omega, ?_, ?_, ?_, ?_, ?_, ?_, g9, ?_⟩
  · rw [take_length' dst di hdi]
    rw [take_length' d' di' (by omega)] at g3
    omega
  · rw [g4, w4]; simp only [emitAll, List.append_assoc]
  · simp only [expand]; rw [hcm]; exact g5
  · simp only [WF]
    refine ⟨hoff1, hoff2, ?_, ?_⟩
    · rw [hsz, hlen]; omega
    · rw [hcm]; exact g6
  · simp only [offsetsOk, hlen, Bool.and_eq_true, decide_eq_true_eq]
    refine ⟨⟨⟨hoff1, by omega⟩, by omega⟩, ?_⟩
    have e1 : anchor + (s - anchor) + (e - (s + 4)) + 4 = e := by omega
    rw [e1]; exact g7
  · simp only [seqsLen, hlen]; omega
  · intro st hst
    cases ss with
    | nil =>
      simp only [lastMatchStart, hlen, Option.some.injEq] at hst
      omega
    | cons s2 rest =>
      simp only [lastMatchStart, hlen] at hst
      have e1 : anchor + (s - anchor) + (e - (s + 4)) + 4 = e := by omega
      rw [e1] at hst
      exact g10 st hst

theorem Post_cons (src dst d' : Array UInt8) (di di' anchor s e off : Nat) (notComp : Bool) (r : Ret)
    (hW : Wr dst di d' di' (Spec.Block.emitSeq ⟨slice src anchor (s - anchor), off, e - (s + 4)⟩))
    (ha : anchor ≤ s) (hs : s + 4 ≤ e) (he : e ≤ src.size) (hoff1 : 1 ≤ off) (hoff2 : off < 65536)
    (hoff3 : off ≤ s) (hs12 : s + 12 ≤ src.size)
    (hb : ∀ k, s ≤ k → k < e → src[k]! = src[k-off]!) (hdi : di ≤ dst.size)
    (hP : Post src d' di' e notComp r) : Post src dst di anchor notComp r := by
  unfold Post at *
  cases r with
  | ok n d => exact Good_cons src dst d' di di' anchor s e off n d hW ha hs he hoff1 hoff2 hoff3 hs12 hb hdi hP
  | zero => exact hP
  | err => exact hP
  | panic => exact hP

theorem mainLoop_spec (src : Array UInt8) (sn : Nat) (notComp : Bool) (D : Nat) (hsn : sn + 14 = src.size)
    (hnc : notComp = false → bound src.size ≤ D) :
    ∀ (fuel : Nat) (t : Table) (dst : Array UInt8) (di si anchor : Nat), dst.size = D → TInv t si → anchor ≤ si →
      anchor + 9 ≤ src.size → di ≤ dst.size → 255 * di ≤ 256 * anchor → sn - si < fuel →
      Post src dst di anchor notComp (mainLoop src sn notComp fuel t dst di si anchor) := by
  intro fuel
  induction fuel with
  | zero => intro t dst di si anchor _ _ _ _ _ _ hf; omega
  | succ fuel ih =>
    intro t dst di si anchor hD hT has ha9 hdi hacc hf
    rw [mainLoop]
    by_cases hlt : si < sn
    · rw [if_pos hlt]
      have hp := probe_spec src t si anchor hT
      generalize probe src t si anchor = pr at hp ⊢
      match pr with
      | none => exact hp.elim
      | some (t', none, si') =>
        simp only at hp ⊢
        exact ih t' dst di si' anchor hD hp.1 (by omega) ha9 hdi hacc (by omega)
      | some (t', some (s1, off), x) =>
        simp only at hp ⊢
        obtain ⟨hT', p1, p2, o1, o2, o3, hb4⟩ := hp
        have hbk := backExt_spec src s1 off (s1 - anchor) 0 (by intro j hj; omega) (by omega)
        generalize backExt src s1 off (s1 - anchor) 0 = back at hbk ⊢
        obtain ⟨_, b2, b3, b4⟩ := hbk
        have es : s1 - back + (4 + back) = s1 + 4 := by omega
        rw [es]
        have hfw := fwdExt_spec src off sn sn (s1 + 4) (by omega)
        generalize fwdExt src off sn sn (s1 + 4) = e at hfw ⊢
        obtain ⟨f1, f2, f3⟩ := hfw
        have hbytes : ∀ k, s1 - back ≤ k → k < e → src[k]! = src[k - off]! := by
          intro k hk1 hk2
          by_cases c1 : k < s1
          · have := b4 (s1 - 1 - k) (by omega)
            have e1 : s1 - (s1 - 1 - k) - 1 = k := by omega
            have e2 : s1 - (s1 - 1 - k) - off - 1 = k - off := by omega
            rw [e1, e2] at this; exact this
          · by_cases c2 : k < s1 + 4
            · have := hb4 (k - s1) (by omega)
              have e1 : s1 + (k - s1) = k := by omega
              have e2 : s1 - off + (k - s1) = k - off := by omega
              rw [e1, e2] at this; exact this
            · exact f3 k (by omega) hk2
        have el : s1 - anchor - back = (s1 - back) - anchor := by omega
        have em : s1 - back + minMatch = (s1 - back) + 4 := rfl
        rw [el, em]
        have hes := emitSeq_spec src dst di anchor ((s1 - back) - anchor) off (e - (s1 - back + 4)) (by omega)
        have hcost := seq_cost ((s1 - back) - anchor) (e - (s1 - back + 4))
        have hl := emitSeq_length ⟨slice src anchor ((s1 - back) - anchor), off, e - ((s1 - back) + 4)⟩
        simp only [slice_length src anchor ((s1 - back) - anchor) (by omega)] at hl
        generalize emitSeq src dst di anchor ((s1 - back) - anchor) off (e - (s1 - back + 4)) = r at hes ⊢
        cases r with
        | none =>
          simp only at hes ⊢
          show notComp = true
          cases notComp with
          | true => rfl
          | false =>
            exfalso
            have hbd := hnc rfl
            rw [bound_eq] at hbd
            omega
        | some pq =>
          obtain ⟨d', di'⟩ := pq
          simp only at hes ⊢
          have hW := hes
          obtain ⟨w1, w2, w3, w4⟩ := hes
          by_cases hge : e ≥ sn
          · rw [if_pos hge]
            exact Post_cons src dst d' di di' anchor (s1 - back) e off notComp _ hW (by omega) (by omega) (by omega)
              o1 o2 (by omega) (by omega) hbytes hdi
              (lastLiterals_post src d' di' e notComp (by omega) (by omega) (by omega) (by rw [w1, hD]; exact hnc))
          · rw [if_neg hge]
            exact Post_cons src dst d' di di' anchor (s1 - back) e off notComp _ hW (by omega) (by omega) (by omega)
              o1 o2 (by omega) (by omega) hbytes hdi
              (ih _ d' di' e e (by omega) ((hT'.mono (by omega)).put _ (e - 2) (by omega)) (Nat.le_refl _) (by omega)
                (by omega) (by omega) (by omega))
    · rw [if_neg hlt]
      exact lastLiterals_post src dst di anchor notComp (by omega) hdi hacc (by rw [hD]; exact hnc)

open Lz4V.Spec.Block (decode strictValid decodeAux) in
theorem final_of_parts (src d : Array UInt8) (n D : Nat) (ss : List Spec.Block.Seq) (l : List UInt8)
    (h1 : d.size = D) (h2 : n ≤ D) (h3 : 0 < n) (h4 : d.toList.take n = emitAll ss l)
    (h5 : expand #[] ss l = src) (h6 : WF #[] ss) (h7 : offsetsOk 0 ss = true)
    (h8 : seqsLen ss + l.length = src.size)
    (h9 : ss = [] ∨ (5 ≤ l.length ∧ ∀ st, lastMatchStart 0 ss = some st → st + 12 ≤ src.size)) :
    0 < n ∧ n ≤ D ∧ d.size = D ∧ decode (d.extract 0 n).toList [] src.size = some src ∧
      strictValid (d.extract 0 n).toList = true := by
  refine ⟨h3, h2, h1, ?_, ?_⟩
  · rw [extract_toList, h4]
    unfold Spec.Block.decode
    have := decode_emitAll ss l #[] 0 src.size ((emitAll ss l).length + 1) h6
      (by have := emitAll_length_ge ss l; omega) (by rw [h5]; omega)
    simp only [List.length_nil]
    show Option.map _ (decodeAux _ _ #[] 0 src.size) = _
    rw [this, h5]
    simp
  · rw [extract_toList, h4]
    apply strictValid_emitAll ss l h7
    rcases h9 with h9 | ⟨h9, h10⟩
    · exact Or.inl h9
    · exact Or.inr ⟨h9, by rw [h8]; exact h10⟩

theorem compressBlockFrom_spec (t : Table) (src dst : Array UInt8) (hT : TInv t 0) :
    match compressBlockFrom t src dst with
    | .ok n d => 0 < n ∧ n ≤ dst.size ∧ d.size = dst.size ∧
        Spec.Block.decode (d.extract 0 n).toList [] src.size = some src ∧
        Spec.Block.strictValid (d.extract 0 n).toList = true
    | .zero => dst.size < bound src.size
    | .err => dst.size < bound src.size
    | .panic => False := by
  unfold compressBlockFrom
  simp only []
  have hm : mfLimit = 14 := rfl
  by_cases hs : src.size ≤ mfLimit
  · rw [if_pos hs]
    rw [hm] at hs
    have h := lastLiterals_spec src dst 0 0 (decide (dst.size < bound src.size)) (by omega)
    have hlen := slice_length src 0 (src.size - 0) (by omega)
    generalize lastLiterals src dst 0 0 (decide (dst.size < bound src.size)) = r at h ⊢
    cases r with
    | ok n d =>
      simp only at h ⊢
      obtain ⟨w1, w2, w3, w4⟩ := h
      refine final_of_parts src d n dst.size [] (slice src 0 (src.size - 0)) w1 w3 ?_ ?_ ?_ trivial rfl ?_ (Or.inl rfl)
      · rw [w2]; simp [Spec.Block.emitLast]
      · rw [w4]; simp [emitAll]
      · simp only [expand]
        have := extract_append_slice_all src 0 (by omega)
        simpa using this
      · simp only [seqsLen, hlen]; omega
    | zero => simpa using h
    | err =>
      simp only at h ⊢
      rw [bound_eq]
      simp only [Spec.Block.emitLast, List.length_cons, List.length_append, hlen, ext_length] at h
      split at h <;> omega
    | panic => exact h
  · rw [if_neg hs]
    rw [hm] at hs
    have h := mainLoop_spec src (src.size - mfLimit) (decide (dst.size < bound src.size)) dst.size (by omega)
      (by intro hh; simpa using hh) (src.size + 1) t dst 0 0 0 rfl hT (by omega) (by omega) (by omega) (by omega) (by omega)
    unfold Post at h
    generalize mainLoop src (src.size - mfLimit) (decide (dst.size < bound src.size)) (src.size + 1) t dst 0 0 0 = r at h ⊢
    cases r with
    | ok n d =>
      simp only at h ⊢
      obtain ⟨ss, l, g1, g2, g3, g4, g5, g6, g7, g8, g9, g10⟩ := h
      simp only [List.take_zero, List.nil_append, Array.extract_zero] at g4 g5 g6
      exact final_of_parts src d n dst.size ss l g1 g2 (by omega) g4 g5 g6 g7 (by omega) (Or.inr ⟨g9, g10⟩)
    | zero => simpa using h
    | err => simpa using h
    | panic => exact h

end Lz4V.Proofs.Fast
