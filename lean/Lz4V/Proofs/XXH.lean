import Lz4V.Spec.XXH32
import Lz4V.Model.XXH
/-!
# Proofs.XXH — the Go XXH32 model equals the reference specification
-/
namespace Lz4V.Proofs.XXH
open Lz4V
open Lz4V.Model.XXH

/-! ## constants and leaf functions -/

theorem p1_eq : p1 = Spec.XXH32.PRIME32_1 := by decide
theorem p2_eq : p2 = Spec.XXH32.PRIME32_2 := by decide
theorem p3_eq : p3 = Spec.XXH32.PRIME32_3 := by decide
theorem p4_eq : p4 = Spec.XXH32.PRIME32_4 := by decide
theorem p5_eq : p5 = Spec.XXH32.PRIME32_5 := by decide

theorem rol1_eq (u : UInt32) : Gen.rol1 u = Spec.XXH32.rotl u 1 := rfl
theorem rol7_eq (u : UInt32) : Gen.rol7 u = Spec.XXH32.rotl u 7 := rfl
theorem rol11_eq (u : UInt32) : Gen.rol11 u = Spec.XXH32.rotl u 11 := rfl
theorem rol12_eq (u : UInt32) : Gen.rol12 u = Spec.XXH32.rotl u 12 := rfl
theorem rol13_eq (u : UInt32) : Gen.rol13 u = Spec.XXH32.rotl u 13 := rfl
theorem rol17_eq (u : UInt32) : Gen.rol17 u = Spec.XXH32.rotl u 17 := rfl
theorem rol18_eq (u : UInt32) : Gen.rol18 u = Spec.XXH32.rotl u 18 := rfl

theorem le32_eq (a b c d : UInt8) : le32 a b c d = Spec.XXH32.le32 a b c d := rfl

theorem rnd_eq (v x : UInt32) : rnd v x = Spec.XXH32.round v x := by
  unfold rnd Spec.XXH32.round
  rw [rol13_eq, p1_eq, p2_eq]

/-- lanes of the spec as lanes of the model -/
def toV (l : Spec.XXH32.Lanes) : V4 := ⟨l.v1, l.v2, l.v3, l.v4⟩

theorem initV_eq : initV = toV Spec.XXH32.init := by decide

theorem finalMix_eq (h : UInt32) : finalMix h = Spec.XXH32.avalanche h := by
  unfold finalMix Spec.XXH32.avalanche
  rw [p2_eq, p3_eq]

theorem tailLoop_eq (h : UInt32) (bs : List UInt8) : tailLoop h bs = Spec.XXH32.tail h bs := by
  fun_induction tailLoop h bs with
  | case1 h a b c d rest ih =>
    rw [Spec.XXH32.tail, ih, rol17_eq, le32_eq, p3_eq, p4_eq]
  | case2 h rest hne =>
    rw [Spec.XXH32.tail.eq_2 _ _ hne, p5_eq, p1_eq]
    rfl

theorem stripeLoop_eq (l : Spec.XXH32.Lanes) (bs : List UInt8) :
    stripeLoop (toV l) bs = (toV (Spec.XXH32.stripes l bs).1, (Spec.XXH32.stripes l bs).2) := by
  fun_induction Spec.XXH32.stripes l bs with
  | case1 v1 v2 v3 v4 a0 a1 a2 a3 b0 b1 b2 b3 c0 c1 c2 c3 d0 d1 d2 d3 rest ih =>
    rw [← ih]
    simp only [toV, stripeLoop.eq_1, rnd_eq, le32_eq]
  | case2 v tl hne =>
    rw [stripeLoop.eq_2]
    intro v1 v2 v3 v4 a0 a1 a2 a3 b0 b1 b2 b3 c0 c1 c2 c3 d0 d1 d2 d3 rest _ h2
    exact hne v.v1 v.v2 v.v3 v.v4 a0 a1 a2 a3 b0 b1 b2 b3 c0 c1 c2 c3 d0 d1 d2 d3 rest rfl h2

/-- one-shot checksum = reference -/
theorem checksumZero_eq (bs : List UInt8) : checksumZero bs = Spec.XXH32.xxh32 bs := by
  unfold checksumZero Spec.XXH32.xxh32
  simp only []
  split
  · rw [finalMix_eq, tailLoop_eq, p5_eq, UInt32.add_comm]
  · rw [finalMix_eq, tailLoop_eq, initV_eq, stripeLoop_eq]
    simp only [rol1_eq, rol7_eq, rol12_eq, rol18_eq, toV, Spec.XXH32.converge]
    rw [UInt32.add_comm]

/-! ## list structure of `stripeLoop` -/

theorem exists_cons_of_le_length {α} (a : List α) (n : Nat) (h : n + 1 ≤ a.length) :
    ∃ x r, a = x :: r ∧ n ≤ r.length := by
  cases a with
  | nil => simp at h
  | cons x r => exact ⟨x, r, rfl, by simpa using h⟩

theorem exists_cons16 {α} (a : List α) (h : 16 ≤ a.length) :
    ∃ x0 x1 x2 x3 x4 x5 x6 x7 x8 x9 x10 x11 x12 x13 x14 x15 r,
      a = x0 :: x1 :: x2 :: x3 :: x4 :: x5 :: x6 :: x7 :: x8 :: x9 :: x10 :: x11 :: x12 :: x13 ::
        x14 :: x15 :: r := by
  obtain ⟨x0, r, rfl, h0⟩ := exists_cons_of_le_length a 15 h
  obtain ⟨x1, r, rfl, h1⟩ := exists_cons_of_le_length r 14 h0
  obtain ⟨x2, r, rfl, h2⟩ := exists_cons_of_le_length r 13 h1
  obtain ⟨x3, r, rfl, h3⟩ := exists_cons_of_le_length r 12 h2
  obtain ⟨x4, r, rfl, h4⟩ := exists_cons_of_le_length r 11 h3
  obtain ⟨x5, r, rfl, h5⟩ := exists_cons_of_le_length r 10 h4
  obtain ⟨x6, r, rfl, h6⟩ := exists_cons_of_le_length r 9 h5
  obtain ⟨x7, r, rfl, h7⟩ := exists_cons_of_le_length r 8 h6
  obtain ⟨x8, r, rfl, h8⟩ := exists_cons_of_le_length r 7 h7
  obtain ⟨x9, r, rfl, h9⟩ := exists_cons_of_le_length r 6 h8
  obtain ⟨x10, r, rfl, h10⟩ := exists_cons_of_le_length r 5 h9
  obtain ⟨x11, r, rfl, h11⟩ := exists_cons_of_le_length r 4 h10
  obtain ⟨x12, r, rfl, h12⟩ := exists_cons_of_le_length r 3 h11
  obtain ⟨x13, r, rfl, h13⟩ := exists_cons_of_le_length r 2 h12
  obtain ⟨x14, r, rfl, h14⟩ := exists_cons_of_le_length r 1 h13
  obtain ⟨x15, r, rfl, h15⟩ := exists_cons_of_le_length r 0 h14
  exact ⟨x0, x1, x2, x3, x4, x5, x6, x7, x8, x9, x10, x11, x12, x13, x14, x15, r, rfl⟩

/-- the fall-through case of `stripeLoop` is exactly "fewer than 16 bytes" -/
theorem length_lt_of_no_stripe {v : V4} {a : List UInt8}
    (hne : ∀ (v1 v2 v3 v4 : UInt32) (a0 a1 a2 a3 b0 b1 b2 b3 c0 c1 c2 c3 d0 d1 d2 d3 : UInt8)
      (rest : List UInt8), v = ⟨v1, v2, v3, v4⟩ →
      a = a0 :: a1 :: a2 :: a3 :: b0 :: b1 :: b2 :: b3 :: c0 :: c1 :: c2 :: c3 :: d0 :: d1 :: d2 ::
        d3 :: rest → False) : a.length < 16 := by
  apply Nat.lt_of_not_le
  intro h
  obtain ⟨x0, x1, x2, x3, x4, x5, x6, x7, x8, x9, x10, x11, x12, x13, x14, x15, r, rfl⟩ :=
    exists_cons16 a h
  exact hne v.v1 v.v2 v.v3 v.v4 _ _ _ _ _ _ _ _ _ _ _ _ _ _ _ _ _ rfl rfl

theorem stripeLoop_short (v : V4) (a : List UInt8) (h : a.length < 16) : stripeLoop v a = (v, a) := by
  apply stripeLoop.eq_2
  intro v1 v2 v3 v4 a0 a1 a2 a3 b0 b1 b2 b3 c0 c1 c2 c3 d0 d1 d2 d3 rest _ h2
  subst h2
  simp only [List.length_cons] at h
  omega

/-- the unconsumed rest is the last `|a| % 16` bytes -/
theorem stripeLoop_snd (v : V4) (a : List UInt8) :
    (stripeLoop v a).2 = a.drop (a.length - a.length % 16) := by
  fun_induction stripeLoop v a with
  | case1 v1 v2 v3 v4 a0 a1 a2 a3 b0 b1 b2 b3 c0 c1 c2 c3 d0 d1 d2 d3 rest ih =>
    rw [ih]
    simp only [List.length_cons]
    have e : rest.length + 1 + 1 + 1 + 1 + 1 + 1 + 1 + 1 + 1 + 1 + 1 + 1 + 1 + 1 + 1 + 1 -
        (rest.length + 1 + 1 + 1 + 1 + 1 + 1 + 1 + 1 + 1 + 1 + 1 + 1 + 1 + 1 + 1 + 1) % 16
        = (rest.length - rest.length % 16) + 1 + 1 + 1 + 1 + 1 + 1 + 1 + 1 + 1 + 1 + 1 + 1 + 1 + 1 + 1 + 1 := by
      omega
    rw [e]
    simp only [List.drop_succ_cons]
  | case2 v a hne =>
    have h := length_lt_of_no_stripe hne
    have e : a.length - a.length % 16 = 0 := by omega
    rw [e]
    rfl

theorem stripeLoop_snd_length (v : V4) (a : List UInt8) : (stripeLoop v a).2.length < 16 := by
  rw [stripeLoop_snd, List.length_drop]
  omega

theorem stripeLoop_append (v : V4) (a b : List UInt8) :
    stripeLoop v (a ++ b) = stripeLoop (stripeLoop v a).1 ((stripeLoop v a).2 ++ b) := by
  fun_induction stripeLoop v a with
  | case1 v1 v2 v3 v4 a0 a1 a2 a3 b0 b1 b2 b3 c0 c1 c2 c3 d0 d1 d2 d3 rest ih =>
    rw [← ih]
    simp only [List.cons_append, stripeLoop.eq_1]
  | case2 v a hne => rfl

/-! ## streaming -/

/-- the state after at least one `Write`: `p` is everything written so far -/
def Strong (s : State) (p : List UInt8) : Prop :=
  s.totalLen = p.length.toUInt64 ∧ stripeLoop initV p = (s.v, s.buf)

/-- the state invariant including fresh (`zero` / `reset`) states -/
def Inv (s : State) (p : List UInt8) : Prop :=
  (s.totalLen = 0 ∧ s.buf = [] ∧ p = []) ∨ Strong s p

theorem inv_zero : Inv zero [] := Or.inl ⟨rfl, rfl, rfl⟩
theorem inv_reset (s : State) : Inv (reset s) [] := Or.inl ⟨rfl, rfl, rfl⟩

theorem strong_reset_nil (s : State) : Strong (reset s) [] := ⟨rfl, rfl⟩

theorem toUInt64_eq_zero {n : Nat} (hn : n < 2 ^ 64) (h : n.toUInt64 = 0) : n = 0 := by
  have h2 := congrArg UInt64.toNat h
  rw [Nat.toUInt64_eq, UInt64.toNat_ofNat'] at h2
  have : (0 : UInt64).toNat = 0 := rfl
  omega

/-- everything of `write` after the lazy `Reset` -/
def writeCore (s : State) (input : Bytes) : State :=
  let n := input.length
  let m := s.buf.length
  let s := { s with totalLen := s.totalLen + n.toUInt64 }
  let r := 16 - m
  if n < r then
    { s with buf := s.buf ++ input }
  else
    let c := if m != 0 then r else 0
    let v := if m != 0 then (stripeLoop s.v (s.buf ++ input.take c)).1 else s.v
    let input := input.drop c
    let res := stripeLoop v input
    { s with v := res.1, buf := input.drop (input.length - input.length % 16) }

theorem write_eq (s : State) (c : Bytes) :
    write s c = writeCore (if s.totalLen == 0 then reset s else s) c := rfl

theorem strong_lazy_reset (s : State) (p : List UInt8) (hp : p.length < 2 ^ 64) (h : Inv s p) :
    Strong (if s.totalLen == 0 then reset s else s) p := by
  rcases h with ⟨h0, _, rfl⟩ | h
  · simp only [h0, beq_self_eq_true, if_true]
    exact strong_reset_nil s
  · by_cases h0 : s.totalLen = 0
    · simp only [h0, beq_self_eq_true, if_true]
      have : p.length = 0 := toUInt64_eq_zero hp (h.1 ▸ h0)
      have : p = [] := List.eq_nil_of_length_eq_zero this
      subst this
      exact strong_reset_nil s
    · have : (s.totalLen == 0) = false := by simpa using h0
      simp only [this]
      exact h

theorem strong_writeCore (s : State) (p c : List UInt8) (h : Strong s p) :
    Strong (writeCore s c) (p ++ c) := by
  obtain ⟨hlen, hst⟩ := h
  have hbuf : s.buf = (stripeLoop initV p).2 := by rw [hst]
  have hv : s.v = (stripeLoop initV p).1 := by rw [hst]
  have hm : s.buf.length < 16 := by rw [hbuf]; exact stripeLoop_snd_length _ _
  have htot : s.totalLen + c.length.toUInt64 = (p ++ c).length.toUInt64 := by
    rw [hlen, List.length_append]
    simp only [Nat.toUInt64_eq, UInt64.ofNat_add]
  have happ : stripeLoop initV (p ++ c) = stripeLoop s.v (s.buf ++ c) := by
    rw [stripeLoop_append, ← hbuf, ← hv]
  unfold writeCore
  simp only []
  split
  · -- just buffered
    next hn =>
    refine ⟨htot, ?_⟩
    rw [happ]
    apply stripeLoop_short
    rw [List.length_append]
    omega
  · next hn =>
    refine ⟨htot, ?_⟩
    simp only []
    rw [happ]
    by_cases hm0 : s.buf.length = 0
    · have hb : s.buf = [] := List.eq_nil_of_length_eq_zero hm0
      simp only [hb, List.length_nil, bne_self_eq_false, Bool.false_eq_true, if_false,
        List.drop_zero, List.nil_append]
      rw [← stripeLoop_snd s.v c]
    · have hne : (s.buf.length != 0) = true := by simpa using hm0
      simp only [hne, if_true]
      have hsplit : s.buf ++ c = (s.buf ++ c.take (16 - s.buf.length)) ++ c.drop (16 - s.buf.length) := by
        rw [List.append_assoc, List.take_append_drop]
      have hl16 : (s.buf ++ c.take (16 - s.buf.length)).length = 16 := by
        rw [List.length_append, List.length_take]
        omega
      have hnil : (stripeLoop s.v (s.buf ++ c.take (16 - s.buf.length))).2 = [] := by
        rw [stripeLoop_snd, hl16]
        apply List.eq_nil_of_length_eq_zero
        rw [List.length_drop, hl16]
      rw [← stripeLoop_snd (stripeLoop s.v (s.buf ++ c.take (16 - s.buf.length))).1
        (c.drop (16 - s.buf.length))]
      conv => lhs; rw [hsplit, stripeLoop_append, hnil, List.nil_append]

theorem inv_write (s : State) (p c : List UInt8) (hp : p.length < 2 ^ 64) (h : Inv s p) :
    Inv (write s c) (p ++ c) := by
  rw [write_eq]
  exact Or.inr (strong_writeCore _ p c (strong_lazy_reset s p hp h))

theorem inv_foldl (chunks : List (List UInt8)) (s : State) (p : List UInt8) (h : Inv s p)
    (hlen : (p ++ chunks.flatten).length < 2 ^ 64) :
    Inv (chunks.foldl write s) (p ++ chunks.flatten) := by
  induction chunks generalizing s p with
  | nil => simpa using h
  | cons c cs ih =>
    simp only [List.foldl_cons, List.flatten_cons]
    rw [← List.append_assoc]
    apply ih
    · apply inv_write _ _ _ _ h
      simp only [List.flatten_cons, List.length_append] at hlen
      omega
    · simpa [List.append_assoc] using hlen

theorem sum32_of_strong (s : State) (p : List UInt8) (hp : p.length < 2 ^ 64) (h : Strong s p) :
    sum32 s = checksumZero p := by
  obtain ⟨hlen, hst⟩ := h
  have h32 : s.totalLen.toUInt32 = p.length.toUInt32 := by
    rw [hlen, Nat.toUInt64_eq, Nat.toUInt32_eq, UInt64.toUInt32_ofNat']
  have hge : s.totalLen ≥ 16 ↔ ¬ p.length < 16 := by
    rw [hlen, ge_iff_le, UInt64.le_iff_toNat_le, Nat.toUInt64_eq, UInt64.toNat_ofNat']
    have : (16 : UInt64).toNat = 16 := rfl
    rw [this, Nat.mod_eq_of_lt hp]
    omega
  unfold sum32 checksumZero
  simp only []
  by_cases hlt : p.length < 16
  · have hn : ¬ s.totalLen ≥ 16 := fun hh => hge.1 hh hlt
    rw [stripeLoop_short _ _ hlt] at hst
    have hb : s.buf = p := by
      have := congrArg Prod.snd hst
      exact this.symm
    simp only [hn, hlt, if_true, if_false, h32, hb]
  · have hn : s.totalLen ≥ 16 := hge.2 hlt
    simp only [hn, hlt, if_true, if_false, h32, hst]

theorem sum32_of_inv (s : State) (p : List UInt8) (hp : p.length < 2 ^ 64) (h : Inv s p) :
    sum32 s = checksumZero p := by
  rcases h with ⟨h0, hb, rfl⟩ | h
  · unfold sum32 checksumZero
    rw [h0, hb]
    rfl
  · exact sum32_of_strong s p hp h

end Lz4V.Proofs.XXH
