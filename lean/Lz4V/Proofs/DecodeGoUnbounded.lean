import Lz4V.Proofs.DecodeGo
/-!
# Proofs.DecodeGoUnbounded — why `dst.size < 2^63` is needed in C04 for the portable decoder

The model's doubling copy has a fuel of 64 iterations.  With mathematically unbounded arrays
(a destination of `2^63` bytes and an overlapping match of `2^63` bytes with offset 1) the fuel
runs out and the model answers `.err`, while the specification defines an output.
-/
namespace Lz4V.Proofs.DecodeGoUnbounded
open Lz4V.Go Lz4V.Gen Lz4V.Spec.Block Lz4V.Model.DecodeGo Lz4V.Proofs.Slice Lz4V.Proofs.BlockSpec
open Lz4V.Proofs.DecodeGo

theorem doubling_false (a : Array UInt8) (base lim n fuel : Nat)
    (h : fuel = 0 ∨ n * 2 ^ (fuel - 1) ≤ lim) : (doubling a base lim n fuel).1 = false := by
  induction fuel generalizing a n with
  | zero => rfl
  | succ f ih =>
    have h' : n * 2 ^ f ≤ lim := by
      rcases h with h | h
      · omega
      · simpa using h
    have hn : n ≤ lim := Nat.le_trans (Nat.le_mul_of_pos_right n (Nat.pow_pos (by omega))) h'
    rw [doubling]
    simp only [hn, if_true]
    split
    · rfl
    · apply ih
      cases f with
      | zero => left; rfl
      | succ f' =>
        right
        simp only [Nat.add_sub_cancel]
        rw [Nat.pow_succ] at h'
        have : 2 * n * 2 ^ f' = n * (2 ^ f' * 2) := by
          rw [Nat.mul_comm (2 ^ f') 2, ← Nat.mul_assoc, Nat.mul_comm n 2]
        omega

theorem readLen_replicate (K acc : Nat) (x : UInt8) (hx : x.toNat ≠ 255) :
    readLen acc (List.replicate K 255 ++ [x]) = some (acc + 255 * K + x.toNat, []) := by
  induction K generalizing acc with
  | zero => simp [readLen, hx]
  | succ K ih =>
    rw [List.replicate_succ, List.cons_append, readLen]
    have : (255 : UInt8).toNat = 255 := by decide
    simp only [this, if_true, ih]
    congr 2; omega

/-- the witness block: token `0x0F` (no literals, match-length nibble 15), offset 1, `K` extension
bytes `0xFF` and a final extension byte `x` -/
def wsrc (K : Nat) (x : UInt8) : Array UInt8 :=
  ((0x0F : UInt8) :: 1 :: 0 :: (List.replicate K 255 ++ [x])).toArray

theorem wsrc_size (K : Nat) (x : UInt8) : (wsrc K x).size = K + 4 := by
  simp [wsrc]

theorem wsrc_spec (K : Nat) (x : UInt8) (hx : x.toNat ≠ 255) (dst : Array UInt8)
    (hN : 15 + 255 * K + x.toNat + 4 ≤ dst.size) :
    decode (wsrc K x).toList [0] dst.size ≠ none := by
  unfold decode wsrc
  simp only []
  rw [decodeAux_cons]
  have e1 : (0x0F : UInt8).toNat / 16 = 0 := by decide
  have e2 : (0x0F : UInt8).toNat % 16 = 15 := by decide
  have e3 : (1 : UInt8).toNat + 256 * (0 : UInt8).toNat = 1 := by decide
  simp only [e1, e2, readField]
  simp [takeLits, specMatch, readField, readLen_replicate K 15 x hx]
  exact hN

theorem wsrc_lenLoop (K : Nat) (x : UInt8) (hx : x.toNat ≠ 255) :
    ∃ si', lenLoop (wsrc K x) 3 15 = some (15 + 255 * K + x.toNat, si') := by
  have h := lenLoop_spec (wsrc K x) 3 15
  have hd : (wsrc K x).toList.drop 3 = List.replicate K 255 ++ [x] := by simp [wsrc]
  rw [hd, readLen_replicate K 15 x hx] at h
  cases hl : lenLoop (wsrc K x) 3 15 with
  | none => rw [hl] at h; simp at h
  | some p =>
    rw [hl] at h
    simp only [Option.map_some, Option.some.injEq, Prod.mk.injEq] at h
    exact ⟨p.2, by rw [h.1]⟩

theorem wsrc_model (K : Nat) (x : UInt8) (hx : x.toNat ≠ 255) (dst : Array UInt8)
    (hbig : 2 ^ 63 ≤ 15 + 255 * K + x.toNat + 4) (hN : 15 + 255 * K + x.toNat + 4 ≤ dst.size) :
    ∃ d', decodeBlock dst (wsrc K x) #[0] = .err d' := by
  obtain ⟨si', hl⟩ := wsrc_lenLoop K x hx
  have hsz := wsrc_size K x
  have hstep : ∃ d', step (wsrc K x) #[0] dst 0 0 = .inl (.err d') := by
    unfold step
    have b0 : (wsrc K x)[0]!.toNat = 15 := by simp [wsrc]
    simp only [b0]
    have : ¬ (15 / 16 > 0) := by decide
    simp only [this, if_false]
    rw [matchPart_eq]
    have c1 : ¬ (0 + 1 = (wsrc K x).size ∧ 15 % 16 = 0) := by omega
    have c2 : ¬ (0 + 1 ≥ (wsrc K x).size) := by omega
    have c3 : ¬ (0 + 1 + 2 > (wsrc K x).size) := by omega
    have c4 : le16 (wsrc K x) (0 + 1) = 1 := by simp [le16, wsrc]
    have c5 : fieldM (wsrc K x) (15 % 16) (0 + 1 + 2) = some (15 + 255 * K + x.toNat, si') := by
      unfold fieldM; simpa using hl
    simp only [c1, c2, c3, c4, c5, if_false]
    generalize 15 + 255 * K + x.toNat + 4 = m at hbig hN
    have d0 : ¬ (1 = 0) := by decide
    simp only [d0, if_false]
    unfold matchCopy
    have d1 : (0 : Nat) < 1 := by decide
    have d2 : ¬ ((#[0] : Array UInt8).size + 0 < 1) := by decide
    have d3 : ¬ (0 + m > dst.size) := by omega
    have d4 : min m ((#[0] : Array UInt8).size - ((#[0] : Array UInt8).size + 0 - 1)) = 1 := by
      have : (#[0] : Array UInt8).size = 1 := rfl
      rw [this]; omega
    have d5 : ¬ (m - 1 = 0) := by omega
    simp only [d1, d2, d3, d4, d5, if_true, if_false]
    unfold matchPart.matchTail
    have e2 : m - 1 > 1 := by omega
    simp only [e2, if_true]
    have hf := doubling_false (blit dst 0 #[0] ((#[0] : Array UInt8).size + 0 - 1) 1) (0 + 1 - 1) (1 * ((m - 1) / 1) + 1) 1 64
      (by right; simp only [Nat.div_one]; omega)
    generalize doubling (blit dst 0 #[0] ((#[0] : Array UInt8).size + 0 - 1) 1) (0 + 1 - 1) (1 * ((m - 1) / 1) + 1) 1 64 = r at hf
    obtain ⟨flag, a⟩ := r
    simp only at hf
    subst hf
    split
    · exact ⟨_, rfl⟩
    · exact ⟨a, rfl⟩
  obtain ⟨d', hd'⟩ := hstep
  refine ⟨d', ?_⟩
  unfold decodeBlock
  have s0 : ¬ ((wsrc K x).size = 0) := by omega
  have s1 : 0 < (wsrc K x).size := by omega
  simp only [s0, if_false]
  rw [loop]
  simp only [s1, if_true, hd']

theorem wsrc_disagree (K : Nat) (x : UInt8) (hx : x.toNat ≠ 255) (dst : Array UInt8)
    (hbig : 2 ^ 63 ≤ 15 + 255 * K + x.toNat + 4) (hN : 15 + 255 * K + x.toNat + 4 ≤ dst.size) :
    ¬ (match decodeBlock dst (wsrc K x) #[0] with
      | .ok di d => decode (wsrc K x).toList (#[0] : Array UInt8).toList dst.size = some (d.extract 0 di)
      | .err _ => decode (wsrc K x).toList (#[0] : Array UInt8).toList dst.size = none) := by
  obtain ⟨d', hd'⟩ := wsrc_model K x hx dst hbig hN
  have hs := wsrc_spec K x hx dst hN
  rw [hd']
  exact hs

/-- The agreement statement without a bound on `dst.size` is false: witness `src = 0F 01 00 FF^K 6D`
with `K = 36170086419038336` (a match of exactly `2^63` bytes at offset 1 from a one-byte dictionary)
and a destination of `2^63` bytes. -/
theorem decodeBlock_spec_unbounded_false :
    ¬ (∀ (src dst dict : Array UInt8), src.size ≠ 0 →
      match decodeBlock dst src dict with
      | .ok di d => decode src.toList dict.toList dst.size = some (d.extract 0 di)
      | .err _ => decode src.toList dict.toList dst.size = none) := by
  intro h
  have hx : (109 : UInt8).toNat ≠ 255 := by decide
  have hK : 15 + 255 * 36170086419038336 + (109 : UInt8).toNat + 4 = 2 ^ 63 := by decide
  have hsz : (Array.replicate (2 ^ 63) (0 : UInt8)).size = 2 ^ 63 := Array.size_replicate
  generalize Array.replicate (2 ^ 63) (0 : UInt8) = dst at hsz
  generalize 36170086419038336 = K at hK
  refine wsrc_disagree K 109 hx dst (by omega) (by omega) (h (wsrc K 109) dst #[0] ?_)
  rw [wsrc_size]; omega

end Lz4V.Proofs.DecodeGoUnbounded
