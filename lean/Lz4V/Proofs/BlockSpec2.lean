import Lz4V.Spec.Block
/-!
# Proofs.BlockSpec2 — spec-side lemmas about the canonical serialiser

* `decode_emitAll`: `emitAll ss l` decodes (under `Spec.Block.decodeAux`) to `expand hist ss l`;
* `parseAux_emitAll`: `emitAll ss l` parses back to `(ss, l)`;
* `strictValid_emitAll`: characterisation of `strictValid` on serialised sequences.
-/
namespace Lz4V.Proofs.BlockSpec2
open Lz4V.Spec.Block

theorem size_appendList (h : Array UInt8) (l : List UInt8) : (h ++ l).size = h.size + l.length := by
  rw [← Array.length_toList, Array.toList_appendList]; simp

theorem readLen_emitLen (n acc : Nat) (rest : Bytes) :
    readLen acc (emitLen n ++ rest) = some (acc + n, rest) := by
  induction n using Nat.strongRecOn generalizing acc with
  | _ n ih =>
    rw [emitLen]
    split
    · rename_i h
      have hn : n.toUInt8.toNat = n := by
        rw [Nat.toUInt8_eq, UInt8.toNat_ofNat']; omega
      have : ¬ (n = 255) := by omega
      simp only [List.cons_append, List.nil_append, readLen, hn, this, if_false]
    · rename_i h
      have h255 : (255 : UInt8).toNat = 255 := rfl
      simp only [List.cons_append, readLen, h255, if_true]
      rw [ih (n - 255) (by omega)]
      have : acc + 255 + (n - 255) = acc + n := by omega
      rw [this]

theorem emitLen_length (n : Nat) : (emitLen n).length = n / 255 + 1 := by
  induction n using Nat.strongRecOn with
  | _ n ih =>
    rw [emitLen]
    split
    · rename_i h
      simp only [List.length_cons, List.length_nil]; omega
    · rename_i h
      simp only [List.length_cons]
      rw [ih (n - 255) (by omega)]; omega

theorem ext_length (n : Nat) : (ext n).length = if n < 15 then 0 else (n - 15) / 255 + 1 := by
  unfold ext
  split
  · rfl
  · exact emitLen_length _

theorem token_hi (ll ml : Nat) : (token ll ml).toNat / 16 = min ll 15 := by
  unfold token; rw [Nat.toUInt8_eq, UInt8.toNat_ofNat']; omega
theorem token_lo (ll ml : Nat) : (token ll ml).toNat % 16 = min ml 15 := by
  unfold token; rw [Nat.toUInt8_eq, UInt8.toNat_ofNat']; omega

theorem readField_ext (n : Nat) (rest : Bytes) :
    readField (min n 15) (ext n ++ rest) = some (n, rest) := by
  unfold readField ext
  by_cases h : n < 15
  · have h1 : min n 15 = n := by omega
    have h2 : ¬ (n = 15) := by omega
    simp only [h1, h2, h, if_true, if_false, List.nil_append]
  · have h1 : min n 15 = 15 := by omega
    simp only [h1, if_true, h, if_false]
    rw [readLen_emitLen]
    have : 15 + (n - 15) = n := by omega
    rw [this]

theorem takeLits_append (l r : Bytes) (h : Array UInt8) :
    takeLits l.length (l ++ r) h = some (h ++ l, r) := by
  induction l generalizing h with
  | nil => simp [takeLits]
  | cons b l ih =>
    simp only [List.length_cons, List.cons_append, takeLits]
    rw [ih, Array.appendList_cons]

theorem copyMatch_size (h : Array UInt8) (off n : Nat) : (copyMatch h off n).size = h.size + n := by
  induction n generalizing h with
  | zero => simp [copyMatch]
  | succ n ih => simp only [copyMatch, ih, Array.size_push]; omega

theorem expand_size_ge (hist : Array UInt8) (ss : List Seq) (l : Bytes) :
    hist.size ≤ (expand hist ss l).size := by
  induction ss generalizing hist with
  | nil => simp [expand, size_appendList]
  | cons s ss ih =>
    simp only [expand]
    refine Nat.le_trans ?_ (ih _)
    rw [copyMatch_size]; simp only [size_appendList]; omega

theorem lo_toNat (off : Nat) : (off % 256).toUInt8.toNat = off % 256 := by
  rw [Nat.toUInt8_eq, UInt8.toNat_ofNat']; omega
theorem hi_toNat (off : Nat) (h : off < 65536) : (off / 256).toUInt8.toNat = off / 256 := by
  rw [Nat.toUInt8_eq, UInt8.toNat_ofNat']; omega

theorem emitAll_ne_nil (ss : List Seq) (l : Bytes) : emitAll ss l ≠ [] := by
  cases ss <;> simp [emitAll, emitLast, emitSeq]

theorem decode_last (fuel : Nat) (l : Bytes) (hist : Array UInt8) (dl maxOut : Nat)
    (hmax : (hist ++ l).size - dl ≤ maxOut) :
    decodeAux (fuel+1) (emitLast l) hist dl maxOut = some (hist ++ l) := by
  unfold emitLast decodeAux
  simp only [token_hi, token_lo]
  have h := readField_ext l.length (l ++ [])
  rw [List.append_nil] at h
  rw [h]
  simp only []
  simp only [size_appendList] at hmax
  have h1 : ¬ (hist.size + l.length - dl > maxOut) := by omega
  rw [if_neg h1]
  have h2 := takeLits_append l [] hist
  rw [List.append_nil] at h2
  rw [h2]
  simp

/-- serialised sequences decode, under the independent spec, to their expansion -/
theorem decode_emitAll (ss : List Seq) (l : List UInt8) (hist : Array UInt8) (dl maxOut fuel : Nat)
    (hwf : WF hist ss) (hfuel : ss.length < fuel)
    (hmax : (expand hist ss l).size - dl ≤ maxOut) :
    decodeAux fuel (emitAll ss l) hist dl maxOut = some (expand hist ss l) := by
  induction ss generalizing hist fuel with
  | nil =>
    cases fuel with
    | zero => simp at hfuel
    | succ f => simp only [emitAll, expand]; exact decode_last f l hist dl maxOut (by simpa [expand] using hmax)
  | cons s ss ih =>
    cases fuel with
    | zero => simp at hfuel
    | succ f =>
      obtain ⟨ho1, ho2, ho3, hwf'⟩ := hwf
      simp only [emitAll, expand, emitSeq, List.cons_append]
      unfold decodeAux
      simp only [token_hi, token_lo, List.append_assoc]
      rw [readField_ext]
      simp only []
      have hlen2 := expand_size_ge (copyMatch (hist ++ s.lits) s.off (s.ml + 4)) ss l
      rw [copyMatch_size] at hlen2
      simp only [expand] at hmax
      simp only [size_appendList] at hlen2
      have h1 : ¬ (hist.size + s.lits.length - dl > maxOut) := by omega
      rw [if_neg h1, takeLits_append]
      simp only [List.cons_append, lo_toNat, hi_toNat s.off ho2]
      have hoff : s.off % 256 + 256 * (s.off / 256) = s.off := by omega
      rw [hoff]
      have h2 : ¬ (s.off = 0) := by omega
      have h3 : ¬ (s.off > (hist ++ s.lits).size) := by
        simp only [size_appendList]; omega
      rw [if_neg h2, if_neg h3, readField_ext]
      simp only []
      have h4 : ¬ ((hist ++ s.lits).size + (s.ml + 4) - dl > maxOut) := by
        simp only [size_appendList]; omega
      rw [if_neg h4]
      have hne : emitAll ss l ≠ [] := emitAll_ne_nil ss l
      rw [ih _ f hwf' (by simp at hfuel; omega) hmax]
      split
      · contradiction
      · rfl

theorem emitSeq_length (s : Seq) :
    (emitSeq s).length = 1 + (ext s.lits.length).length + s.lits.length + 2 + (ext s.ml).length := by
  simp only [emitSeq, List.length_cons, List.length_append]; omega

theorem emitAll_length_ge (ss : List Seq) (l : Bytes) : ss.length < (emitAll ss l).length := by
  induction ss with
  | nil => simp [emitAll, emitLast]
  | cons s ss ih =>
    simp only [emitAll, List.length_append, List.length_cons, emitSeq_length]; omega

/-- the strict parser inverts the serialiser -/
theorem parseAux_emitAll (ss : List Seq) (l : Bytes) (fuel : Nat)
    (hoff : ∀ s ∈ ss, s.off < 65536) (hfuel : ss.length < fuel) :
    parseAux fuel (emitAll ss l) = some (ss, l) := by
  induction ss generalizing fuel with
  | nil =>
    cases fuel with
    | zero => simp at hfuel
    | succ f =>
      simp only [emitAll]
      unfold emitLast parseAux
      simp only [token_hi, token_lo]
      have h := readField_ext l.length (l ++ [])
      rw [List.append_nil] at h
      rw [h]
      simp only []
      have h2 := takeLits_append l [] #[]
      rw [List.append_nil] at h2
      rw [h2]
      simp
  | cons s ss ih =>
    cases fuel with
    | zero => simp at hfuel
    | succ f =>
      have ho2 : s.off < 65536 := hoff s (by simp)
      simp only [emitAll, emitSeq, List.cons_append]
      unfold parseAux
      simp only [token_hi, token_lo, List.append_assoc]
      rw [readField_ext]
      simp only []
      rw [takeLits_append]
      simp only [List.cons_append, lo_toNat, hi_toNat s.off ho2]
      rw [readField_ext]
      simp only []
      rw [ih f (fun s hs => hoff s (by simp [hs])) (by simp at hfuel; omega)]
      have hoff' : s.off % 256 + 256 * (s.off / 256) = s.off := by omega
      simp [hoff']

theorem parse_emitAll (ss : List Seq) (l : Bytes) (hoff : ∀ s ∈ ss, s.off < 65536) :
    parse (emitAll ss l) = some (ss, l) := by
  unfold parse
  exact parseAux_emitAll ss l _ hoff (by have := emitAll_length_ge ss l; omega)

theorem offsetsOk_off_lt (pos : Nat) (ss : List Seq) (h : offsetsOk pos ss = true) :
    ∀ s ∈ ss, s.off < 65536 := by
  induction ss generalizing pos with
  | nil => simp
  | cons s ss ih =>
    simp only [offsetsOk, Bool.and_eq_true, decide_eq_true_eq] at h
    intro x hx
    simp only [List.mem_cons] at hx
    rcases hx with rfl | hx
    · omega
    · exact ih _ h.2 x hx

/-- `strictValid` of a serialised sequence list, in terms of the sequences -/
theorem strictValid_emitAll (ss : List Seq) (l : Bytes) (hok : offsetsOk 0 ss = true)
    (hlast : ss = [] ∨ (5 ≤ l.length ∧ ∀ st, lastMatchStart 0 ss = some st → st + 12 ≤ seqsLen ss + l.length)) :
    strictValid (emitAll ss l) = true := by
  unfold strictValid
  rw [parse_emitAll ss l (offsetsOk_off_lt 0 ss hok)]
  simp only [hok, Bool.true_and]
  rcases hlast with rfl | ⟨h5, hst⟩
  · simp
  · simp only [Bool.or_eq_true, Bool.and_eq_true, decide_eq_true_eq]
    right
    refine ⟨h5, ?_⟩
    split
    · rfl
    · rename_i st hs
      simp only [decide_eq_true_eq]
      exact hst st hs

end Lz4V.Proofs.BlockSpec2
