import Lz4V.Model.HC
import Lz4V.Proofs.Fast
/-!
# Proofs.HC — the high-compression block compressor model emits a strictly valid block that decodes
to the source.  Reuses the emission lemmas (`FastEmit`), the byte lemmas (`FastBits`) and the
`Good`/`Post` accounting of `Proofs.Fast`.
-/
namespace Lz4V.Proofs.HC
open Lz4V Lz4V.Go Lz4V.Gen Lz4V.Model.Emit Lz4V.Model.HC Lz4V.Proofs.FastBits Lz4V.Proofs.FastEmit
open Lz4V.Proofs.BlockSpec2
open Lz4V.Proofs.Fast (Good Post Post_cons lastLiterals_post final_of_parts seq_cost bound_eq take_length')

/-! ## Tables -/

/-- every entry of a table is `0` (empty) or a position `< b` -/
def TI (t : Array Nat) (b : Nat) : Prop := ∀ i : Nat, t[i]! = 0 ∨ t[i]! < b

theorem TI.mono {t : Array Nat} {b b' : Nat} (h : TI t b) (hb : b ≤ b') : TI t b' := by
  intro i
  rcases h i with h | h
  · exact Or.inl h
  · exact Or.inr (by omega)

theorem getElem!_set! (t : Array Nat) (h h' : Nat) (x : Nat) :
    (t.set! h x)[h']! = if h = h' ∧ h < t.size then x else t[h']! := by
  show (t.setIfInBounds h x)[h']! = _
  rw [getElem!_def, getElem!_def, Array.getElem?_setIfInBounds]
  by_cases e : h = h'
  · subst e
    by_cases l : h < t.size
    · simp [l]
    · simp [l]
  · simp [e]

theorem TI.set {t : Array Nat} {b : Nat} (h : TI t b) (i v : Nat) (hv : v = 0 ∨ v < b) :
    TI (t.set! i v) b := by
  intro j
  rw [getElem!_set!]
  split
  · exact hv
  · exact h j

theorem replicate_zero (n i : Nat) : (Array.replicate n (0 : Nat))[i]! = 0 := by
  rw [getElem!_def, Array.getElem?_replicate]
  split <;> rename_i h
  · split at h <;> simp_all
  · rfl

theorem TI.zero (b : Nat) : TI zeroTable b := by
  intro i
  unfold zeroTable
  exact Or.inl (replicate_zero _ _)

/-! ## Side conditions on the regenerated constants and hash function

The Go tables have `htSize = 1 << hashLog` entries; `blockHashHC` is used unmasked as an index into
`hashTable` and `si & winMask` as an index into `chainTable`.  The two facts below (computed on the
regenerated `Gen` values) are exactly what makes those indices fit. -/

/-- a 32-bit value shifted right by 16 is `< 2^16 = htSize` -/
theorem hash_in_range (x : UInt32) : (Gen.blockHashHC x).toNat < Gen.htSize := by
  unfold Gen.blockHashHC Gen.htSize
  rw [UInt32.toNat_shiftRight, Nat.shiftRight_eq_div_pow]
  have h := (x * 2654435761).toNat_lt
  have e : (16 : UInt32).toNat % 32 = 16 := by decide
  rw [e]
  omega

theorem win_le_ht : Gen.winSize ≤ Gen.htSize := by decide

theorem win_pos : 0 < Gen.winSize := by decide

theorem hashIdx_lt (x : UInt32) : hashIdx x < htSize := hash_in_range x

theorem winIdx_lt (i : Nat) : i % winSize < htSize :=
  Nat.lt_of_lt_of_le (Nat.mod_lt _ win_pos) win_le_ht

theorem size_set! (t : Array Nat) (i v : Nat) : (t.set! i v).size = t.size := by
  show (t.setIfInBounds i v).size = _
  exact Array.size_setIfInBounds ..

theorem zeroTable_size : zeroTable.size = htSize := by
  unfold zeroTable; exact Array.size_replicate ..

theorem rehash_spec (src : Array UInt8) (b : Nat) :
    ∀ (n s : Nat) (m : UInt32) (ht ct : Array Nat), TI ht b → TI ct b → s + n ≤ b →
      ht.size = htSize → ct.size = htSize →
      ∃ ht' ct', rehash src n s m ht ct = some (ht', ct') ∧ TI ht' b ∧ TI ct' b ∧
        ht'.size = htSize ∧ ct'.size = htSize := by
  intro n
  induction n with
  | zero => intro s m ht ct h1 h2 _ z1 z2; exact ⟨ht, ct, rfl, h1, h2, z1, z2⟩
  | succ n ih =>
    intro s m ht ct h1 h2 hs z1 z2
    simp only [rehash]
    have c : ¬ (hashIdx (m >>> 8 ||| src[s + 3]!.toUInt32 <<< 24) ≥ ht.size ∨ s % winSize ≥ ct.size) := by
      have a1 := hashIdx_lt (m >>> 8 ||| src[s + 3]!.toUInt32 <<< 24)
      have a2 := winIdx_lt s
      omega
    rw [if_neg c]
    exact ih (s+1) _ _ _ (h1.set _ s (Or.inr (by omega))) (h2.set _ _ (h1 _)) (by omega)
      (by rw [size_set!]; exact z1) (by rw [size_set!]; exact z2)

/-! ## The match search -/

theorem commonLen_spec (src : Array UInt8) (next si sn : Nat) :
    ∀ (fuel ml : Nat), (∀ k, k < ml → src[next+k]! = src[si+k]!) →
      ml ≤ commonLen src next si sn fuel ml ∧
      (commonLen src next si sn fuel ml ≤ ml ∨ commonLen src next si sn fuel ml ≤ sn - si + 7) ∧
      ∀ k, k < commonLen src next si sn fuel ml → src[next+k]! = src[si+k]! := by
  intro fuel
  induction fuel with
  | zero => intro ml hpre; simp only [commonLen]; exact ⟨Nat.le_refl _, Or.inl (Nat.le_refl _), hpre⟩
  | succ fuel ih =>
    intro ml hpre
    simp only [commonLen]
    split
    · rename_i hlt
      split
      · rename_i hx
        have hb := le64_bytes src (next + ml) (si + ml) (UInt64.xor_eq_zero_iff.mp hx)
        obtain ⟨i1, i2, i3⟩ := ih (ml + 8) (by
          intro k hk
          by_cases c : k < ml
          · exact hpre k c
          · have := hb (k - ml) (by omega)
            have e1 : next + ml + (k - ml) = next + k := by omega
            have e2 : si + ml + (k - ml) = si + k := by omega
            rw [e1, e2] at this; exact this)
        exact ⟨by omega, by omega, i3⟩
      · have hle := tzBytes_le (le64 src (next + ml) ^^^ le64 src (si + ml))
        refine ⟨by omega, by omega, ?_⟩
        intro k hk
        by_cases c : k < ml
        · exact hpre k c
        · have := tzBytes_bytes src (next + ml) (si + ml) (k - ml) (by omega)
          have e1 : next + ml + (k - ml) = next + k := by omega
          have e2 : si + ml + (k - ml) = si + k := by omega
          rw [e1, e2] at this; exact this
    · exact ⟨Nat.le_refl _, Or.inl (Nat.le_refl _), hpre⟩

/-- the state `(mLen, offset)` of the chain walk: no match yet, or a genuine match of `mLen ≥ 4` bytes
`offset` back, ending at most 7 bytes past `sn` -/
def CW (src : Array UInt8) (si sn mLen offset : Nat) : Prop :=
  mLen = 0 ∨ (4 ≤ mLen ∧ 1 ≤ offset ∧ offset < 65536 ∧ offset ≤ si ∧ mLen ≤ sn - si + 7 ∧
    ∀ k, k < mLen → src[si - offset + k]! = src[si + k]!)

theorem CW.le {src : Array UInt8} {si sn mLen offset : Nat} (h : CW src si sn mLen offset) :
    mLen ≤ sn - si + 7 := by
  rcases h with h | h
  · omega
  · exact h.2.2.2.2.1

theorem chainWalk_spec (src : Array UInt8) (ct : Array Nat) (si sn : Nat) (hsn : sn + 14 = src.size)
    (hsi : si < sn) (hct : TI ct si) (zct : ct.size = htSize) :
    ∀ (try_ next mLen offset : Nat), (next = 0 ∨ next < si) → CW src si sn mLen offset →
      ∃ m o, chainWalk src ct si sn try_ next mLen offset = some (m, o) ∧ CW src si sn m o := by
  intro try_
  induction try_ with
  | zero => intro next mLen offset _ h; exact ⟨mLen, offset, rfl, h⟩
  | succ t ih =>
    intro next mLen offset hn hcw
    rw [chainWalk]
    have hle := hcw.le
    by_cases c1 : next > 0 ∧ (si : Int) - next < winSize
    · rw [if_pos c1]
      have hlt : next < si := by omega
      have c2 : ¬ (next + mLen ≥ src.size ∨ si + mLen ≥ src.size) := by omega
      rw [if_neg c2]
      have c2' : ¬ next % winSize ≥ ct.size := by
        have := winIdx_lt next
        omega
      rw [if_neg c2']
      simp only []
      have hnn := hct (next % winSize)
      by_cases c3 : src[next + mLen]! ≠ src[si + mLen]!
      · rw [if_pos c3]; exact ih _ _ _ hnn hcw
      · rw [if_neg c3]
        have c4 : ¬ next ≥ si := by omega
        rw [if_neg c4]
        have hcl := commonLen_spec src next si sn (sn - si + 1) 0 (by intro k hk; omega)
        generalize commonLen src next si sn (sn - si + 1) 0 = ml at hcl ⊢
        obtain ⟨_, l2, l3⟩ := hcl
        by_cases c5 : ml < minMatch ∨ ml ≤ mLen
        · rw [if_pos c5]; exact ih _ _ _ hnn hcw
        · rw [if_neg c5]
          apply ih _ _ _ hnn
          have hm : minMatch = 4 := rfl
          have hw : winSize = 65536 := rfl
          rw [hm] at c5
          rw [hw] at c1
          refine Or.inr ⟨by omega, by omega, by omega, by omega, by omega, ?_⟩
          intro k hk
          have e : si - (si - next) + k = next + k := by omega
          rw [e]; exact l3 k hk
    · rw [if_neg c1]; exact ⟨mLen, offset, rfl, hcw⟩

/-! ## The main loop -/

theorem bound_fast (n : Nat) : Model.HC.bound n = Model.Fast.bound n := rfl

theorem mainLoop_spec (src : Array UInt8) (sn depth : Nat) (notComp : Bool) (D : Nat) (hsn : sn + 14 = src.size)
    (hnc : notComp = false → Model.Fast.bound src.size ≤ D) :
    ∀ (fuel : Nat) (ht ct : Array Nat) (dst : Array UInt8) (di si anchor : Nat), dst.size = D →
      TI ht si → TI ct si → ht.size = htSize → ct.size = htSize → anchor ≤ si → anchor + 7 ≤ src.size → di ≤ dst.size → 255 * di ≤ 256 * anchor →
      sn - si < fuel →
      Post src dst di anchor notComp (mainLoop src sn depth notComp fuel ht ct dst di si anchor) := by
  intro fuel
  induction fuel with
  | zero => intro ht ct dst di si anchor _ _ _ _ _ _ _ _ _ hf; omega
  | succ fuel ih =>
    intro ht ct dst di si anchor hD hht hct zht zct has ha7 hdi hacc hf
    rw [mainLoop]
    by_cases hlt : si < sn
    · rw [if_pos hlt]
      simp only []
      have cidx : ¬ (hashIdx (ld32 src si) ≥ ht.size ∨ si % winSize ≥ ct.size) := by
        have a1 := hashIdx_lt (ld32 src si)
        have a2 := winIdx_lt si
        omega
      rw [if_neg cidx]
      obtain ⟨m, o, hcw, hCW⟩ := chainWalk_spec src ct si sn hsn hlt hct zct depth
        (ht[hashIdx (ld32 src si)]!) 0 0 (hht _) (Or.inl rfl)
      rw [hcw]
      simp only []
      have hct1 : TI (ct.set! (si % winSize) ht[hashIdx (ld32 src si)]!) (si + 1) :=
        (hct.mono (by omega)).set _ _ (by rcases hht (hashIdx (ld32 src si)) with h | h; exact Or.inl h; exact Or.inr (by omega))
      have hht1 : TI (ht.set! (hashIdx (ld32 src si)) si) (si + 1) :=
        (hht.mono (by omega)).set _ _ (Or.inr (by omega))
      by_cases hm0 : m = 0
      · rw [if_pos hm0]
        generalize (si - anchor) / 2 ^ adaptSkipLogHC = q
        exact ih _ _ dst di _ anchor hD (hht1.mono (by omega)) (hct1.mono (by omega))
          (by rw [size_set!]; exact zht) (by rw [size_set!]; exact zct) (by omega) ha7 hdi hacc (by omega)
      · rw [if_neg hm0]
        rcases hCW with hCW | ⟨m4, o1, o2, o3, mle, hbytes⟩
        · exact (hm0 hCW).elim
        have hws : (if si + m > winSize + (si + 1) then si + m - winSize else si + 1) +
            (si + m - (if si + m > winSize + (si + 1) then si + m - winSize else si + 1)) ≤ si + m := by
          split <;> omega
        obtain ⟨ht', ct', hrr, hrh1, hrh2, zht', zct'⟩ := rehash_spec src (si + m) _ _ (ld32 src si) _ _
          (hht1.mono (by omega)) (hct1.mono (by omega)) hws
          (by rw [size_set!]; exact zht) (by rw [size_set!]; exact zct)
        rw [hrr]
        simp only []
        have em : m - minMatch = si + m - (si + 4) := by show m - 4 = _; omega
        rw [em]
        have hes := emitSeq_spec src dst di anchor (si - anchor) o (si + m - (si + 4)) (by omega)
        have hcost := seq_cost (si - anchor) (si + m - (si + 4))
        have hl := emitSeq_length ⟨slice src anchor (si - anchor), o, si + m - (si + 4)⟩
        simp only [slice_length src anchor (si - anchor) (by omega)] at hl
        generalize emitSeq src dst di anchor (si - anchor) o (si + m - (si + 4)) = r at hes ⊢
        cases r with
        | none =>
          simp only at hes ⊢
          show notComp = true
          cases notComp with
          | true => rfl
          | false =>
            exfalso
            have hbd := hnc rfl
            rw [bound_eq] at hbd
            omega
        | some pq =>
          obtain ⟨d', di'⟩ := pq
          simp only at hes ⊢
          have hW := hes
          obtain ⟨w1, w2, w3, w4⟩ := hes
          have hb : ∀ k, si ≤ k → k < si + m → src[k]! = src[k - o]! := by
            intro k hk1 hk2
            have := hbytes (k - si) (by omega)
            have e1 : si - o + (k - si) = k - o := by omega
            have e2 : si + (k - si) = k := by omega
            rw [e1, e2] at this; exact this.symm
          exact Post_cons src dst d' di di' anchor si (si + m) o notComp _ hW has (by omega) (by omega)
            o1 o2 o3 (by omega) hb hdi
            (ih ht' ct' d' di' (si + m) (si + m) (by omega) hrh1 hrh2 zht' zct' (Nat.le_refl _) (by omega)
              (by omega) (by omega) (by omega))
    · rw [if_neg hlt]
      exact lastLiterals_post src dst di anchor notComp (by omega) hdi hacc (by rw [hD]; exact hnc)

/-! ## The whole function -/

/-- `lastLiterals_spec` for either value of `first` (the HC `goto lastLiterals` of short inputs skips
the first "incompressible" test) -/
theorem lastLiterals_spec' (src dst : Array UInt8) (di anchor : Nat) (notComp first : Bool)
    (ha : anchor ≤ src.size) :
    match lastLiterals src dst di anchor notComp first with
    | .ok n d => Wr dst di d n (Spec.Block.emitLast (slice src anchor (src.size - anchor)))
    | .zero => notComp = true
    | .err => dst.size < di + (Spec.Block.emitLast (slice src anchor (src.size - anchor))).length
    | .panic => False := by
  cases first with
  | true => exact lastLiterals_spec src dst di anchor notComp ha
  | false =>
    rw [lastLiterals_eq]
    have hlen := slice_length src anchor (src.size - anchor) (by omega)
    unfold Spec.Block.emitLast
    simp only [List.length_cons, List.length_append, hlen]
    have h0 : ¬ ((false : Bool) = true ∧ notComp = true ∧ anchor = 0) := by simp
    rw [if_neg h0]
    by_cases h1 : di ≥ dst.size
    · simp only [h1, if_true]; omega
    simp only [h1, if_false]
    have hh := hdr_spec dst di (src.size - anchor) ((src.size - anchor) * 16).toUInt8 0xF0 (by omega)
    rw [token_last] at hh
    generalize hdr dst di (src.size - anchor) _ _ = r at hh
    cases r with
    | none => simp only at hh ⊢; omega
    | some p =>
      obtain ⟨d1, di1⟩ := p
      simp only at hh ⊢
      by_cases h2 : notComp = true ∧ di1 + 1 ≥ anchor
      · rw [if_pos h2]; exact h2.1
      rw [if_neg h2]
      have hl := hh.2.1
      simp only [List.length_cons] at hl
      by_cases h3 : di1 + 1 + src.size - anchor > d1.size
      · simp only [h3, if_true]
        rw [hh.1] at h3; omega
      simp only [h3, if_false]
      rw [hh.1] at h3
      have hb := Wr.blit d1 (di1+1) src anchor (src.size - anchor) (by rw [hh.1]; omega) (by omega)
      have := hh.trans hb
      simpa [List.append_assoc] using this

open Lz4V.Spec.Block (emitAll expand WF offsetsOk seqsLen lastMatchStart) in
theorem compressBlock_spec (src dst : Array UInt8) (depth : Nat) :
    match compressBlock src dst depth with
    | .ok n d => 0 < n ∧ n ≤ dst.size ∧ d.size = dst.size ∧
        Spec.Block.decode (d.extract 0 n).toList [] src.size = some src ∧
        Spec.Block.strictValid (d.extract 0 n).toList = true
    | .zero => dst.size < bound src.size
    | .err => dst.size < bound src.size
    | .panic => False := by
  unfold compressBlock
  simp only []
  have hm : mfLimit = 14 := rfl
  by_cases hs : src.size ≤ mfLimit
  · rw [if_pos hs]
    rw [hm] at hs
    have h := lastLiterals_spec' src dst 0 0 (decide (dst.size < bound src.size)) false (by omega)
    have hlen := slice_length src 0 (src.size - 0) (by omega)
    generalize lastLiterals src dst 0 0 (decide (dst.size < bound src.size)) false = r at h ⊢
    cases r with
    | ok n d =>
      simp only at h ⊢
      obtain ⟨w1, w2, w3, w4⟩ := h
      refine final_of_parts src d n dst.size [] (slice src 0 (src.size - 0)) w1 w3 ?_ ?_ ?_ trivial rfl ?_ (Or.inl rfl)
      · rw [w2]; simp [Spec.Block.emitLast]
      · rw [w4]; simp [emitAll]
      · simp only [expand]
        have := extract_append_slice_all src 0 (by omega)
        simpa using this
      · simp only [seqsLen, hlen]; omega
    | zero => simpa using h
    | err =>
      simp only at h ⊢
      rw [bound_fast, bound_eq]
      simp only [Spec.Block.emitLast, List.length_cons, List.length_append, hlen, ext_length] at h
      split at h <;> omega
    | panic => exact h
  · rw [if_neg hs]
    rw [hm] at hs
    have h := mainLoop_spec src (src.size - mfLimit) (if depth = 0 then winSize else depth)
      (decide (dst.size < bound src.size)) dst.size (by omega)
      (by intro hh; rw [← bound_fast]; simpa using hh) (src.size + 1) zeroTable zeroTable dst 0 0 0 rfl
      (TI.zero 0) (TI.zero 0) zeroTable_size zeroTable_size (by omega) (by omega) (by omega) (by omega) (by omega)
    unfold Post at h
    generalize mainLoop src (src.size - mfLimit) (if depth = 0 then winSize else depth)
      (decide (dst.size < bound src.size)) (src.size + 1) zeroTable zeroTable dst 0 0 0 = r at h ⊢
    cases r with
    | ok n d =>
      simp only at h ⊢
      obtain ⟨ss, l, g1, g2, g3, g4, g5, g6, g7, g8, g9, g10⟩ := h
      simp only [List.take_zero, List.nil_append, Array.extract_zero] at g4 g5 g6
      exact final_of_parts src d n dst.size ss l g1 g2 (by omega) g4 g5 g6 g7 (by omega) (Or.inr ⟨g9, g10⟩)
    | zero => simpa using h
    | err => simpa using h
    | panic => exact h

end Lz4V.Proofs.HC
