import Lz4V.Props.C19
import Lz4V.Proofs.FrameRRead
import Lz4V.Proofs.FrameRLegacy
/-!
# Proofs.Hostile — the Reader on arbitrary input: resource bounds (source position, delivered bytes, buffer
sizes) and the magic-number rules

`Adv s t`: the source `t` is `s` moved forward (same script, never past the end).  `Bounded r`: every buffer
the Reader holds is within the format's maxima.  `Pres r r'` = both, for one Reader step; it is established for
every function of the model, for arbitrary (also failing / chunked) sources.
-/
namespace Lz4V.Proofs.Hostile
open Lz4V Lz4V.Go Lz4V.Gen Lz4V.Model Lz4V.Model.FrameR Lz4V.Model.FrameW
open Lz4V.Proofs.FrameR

/-! ## bad magic -/

/-- `parseHeaders` on a first word that is no magic at all, from any Reader state that has not yet seen a magic -/
theorem parse_badMagic_any (r : R) (m fuel : Nat) (hm : m < 2 ^ 32) (hr : r.magic = 0)
    (hw : Header.Whole r.src) (hsz : r.src.pos + 4 ≤ r.src.data.size)
    (h0 : r.src.data.extract r.src.pos (r.src.pos + 4) = FrameW.le32 m)
    (h1 : m ≠ frameMagic) (h2 : m ≠ frameMagicLegacy) (h3 : ¬ (0x184D2A50 ≤ m ∧ m ≤ 0x184D2A5F)) :
    parseHeaders r (fuel + 1) = ({ r with src := Header.adv r.src 4, magic := m }, some .badMagic) := by
  rw [Header.parse_magic r fuel hr hw hsz, h0, Header.u32_le32 _ hm, Header.afterMagic_bad _ _ _ h1 h2 h3]

theorem le32_extract (m : Nat) (rest : Array UInt8) : (FrameW.le32 m ++ rest).extract 0 4 = FrameW.le32 m := by
  obtain ⟨a, b, c, d, h⟩ := Header.le32_lit m
  rw [h]; simp

theorem init_badMagic (m : Nat) (rest : Array UInt8) (num : Nat) (hm : m < 2 ^ 32)
    (h1 : m ≠ frameMagic) (h2 : m ≠ frameMagicLegacy) (h3 : ¬ (0x184D2A50 ≤ m ∧ m ≤ 0x184D2A5F)) :
    init (r0 (FrameW.le32 m ++ rest) num) =
      ({ r0 (FrameW.le32 m ++ rest) num with src := { data := FrameW.le32 m ++ rest, pos := 4, calls := 1 }, magic := m },
        some .badMagic) := by
  rw [init_eq]
  have hsz : 4 ≤ (FrameW.le32 m ++ rest).size := by
    obtain ⟨a, b, c, d, h⟩ := Header.le32_lit m
    rw [h]; simp
  rw [show (r0 (FrameW.le32 m ++ rest) num).src.data.size + 2 = ((FrameW.le32 m ++ rest).size + 1) + 1 from rfl,
    parse_badMagic_any _ m _ hm rfl ⟨rfl, rfl, rfl⟩ (by show 0 + 4 ≤ (FrameW.le32 m ++ rest).size; omega)
      (by show (FrameW.le32 m ++ rest).extract 0 (0 + 4) = _; exact le32_extract m rest) h1 h2 h3]
  rfl

/-! ## the source only advances; buffers stay bounded -/

structure Adv (s t : Source) : Prop where
  data : t.data = s.data
  chunk : t.chunk = s.chunk
  failAt : t.failAt = s.failAt
  ewd : t.eofWithData = s.eofWithData
  mono : s.pos ≤ t.pos
  bound : s.pos ≤ s.data.size → t.pos ≤ s.data.size

theorem Adv.refl (s : Source) : Adv s s := ⟨rfl, rfl, rfl, rfl, Nat.le_refl _, id⟩
theorem Adv.trans {s t u : Source} (h1 : Adv s t) (h2 : Adv t u) : Adv s u :=
  ⟨h2.data.trans h1.data, h2.chunk.trans h1.chunk, h2.failAt.trans h1.failAt, h2.ewd.trans h1.ewd,
    Nat.le_trans h1.mono h2.mono, fun h => by
      have := h1.bound h
      have := h2.bound (by rw [h1.data]; exact this)
      rw [h1.data] at this; exact this⟩

theorem Adv.good {s t : Source} (h : Adv s t) (hg : Good s) : Good t :=
  ⟨h.chunk.trans hg.chunk, h.failAt.trans hg.failAt, h.ewd.trans hg.ewd, by rw [h.data]; exact h.bound hg.pos⟩

theorem read_go_adv (s : Source) (want : Nat) : Adv s (Source.read.go want s).1 ∧ (Source.read.go want s).2.1.size ≤ want := by
  unfold Source.read.go
  simp only []
  split
  · exact ⟨Adv.refl s, by simp⟩
  split
  · exact ⟨Adv.refl s, by simp⟩
  split <;> split <;>
    exact ⟨⟨rfl, rfl, rfl, rfl, Nat.le_add_right _ _, fun h => by simp only []; omega⟩,
      by simp only [Array.size_extract]; omega⟩

theorem read_adv (s : Source) (want : Nat) : Adv s (s.read want).1 ∧ (s.read want).2.1.size ≤ want := by
  have hc : Adv s { s with calls := s.calls + 1 } := ⟨rfl, rfl, rfl, rfl, Nat.le_refl _, id⟩
  have hg := read_go_adv { s with calls := s.calls + 1 } want
  unfold Source.read
  simp only []
  split
  · split
    · exact ⟨hc, by simp⟩
    · exact ⟨hc.trans hg.1, hg.2⟩
  · exact ⟨hc.trans hg.1, hg.2⟩

theorem readFull_loop_adv (want : Nat) (fuel : Nat) : ∀ (s : Source) (acc : Array UInt8), acc.size ≤ want →
    Adv s (readFull.loop want s acc fuel).1 ∧ (readFull.loop want s acc fuel).2.1.size ≤ want := by
  induction fuel with
  | zero => intro s acc h; exact ⟨Adv.refl s, h⟩
  | succ fuel ih =>
    intro s acc h
    unfold readFull.loop
    split
    · exact ⟨Adv.refl s, h⟩
    have hr := read_adv s (want - acc.size)
    rcases hread : s.read (want - acc.size) with ⟨s1, got, e⟩
    rw [hread] at hr
    simp only [] at hr ⊢
    have hacc : (acc ++ got).size ≤ want := by rw [Array.size_append]; omega
    cases e with
    | none =>
      simp only []
      split
      · exact ⟨hr.1, hacc⟩
      · have := ih s1 (acc ++ got) hacc
        exact ⟨hr.1.trans this.1, this.2⟩
    | some err =>
      simp only []
      split
      · exact ⟨hr.1, hacc⟩
      split <;> exact ⟨hr.1, hacc⟩

theorem readFull_adv (s : Source) (want : Nat) : Adv s (readFull s want).1 ∧ (readFull s want).2.1.size ≤ want :=
  readFull_loop_adv want (want + 1) s #[] (Nat.zero_le _)

theorem readUint32_adv (s : Source) : Adv s (readUint32 s).1 := by
  have h := (readFull_adv s 4).1
  unfold readUint32
  rcases h' : readFull s 4 with ⟨s1, b, e⟩
  rw [h'] at h
  cases e <;> exact h

theorem discardN_adv (fuel : Nat) : ∀ (s : Source) (n : Nat), Adv s (discardN s n fuel).1 := by
  induction fuel with
  | zero => intro s n; exact Adv.refl s
  | succ fuel ih =>
    intro s n
    unfold discardN
    split
    · exact Adv.refl s
    have hr := (read_adv s (min n 8192)).1
    rcases hread : s.read (min n 8192) with ⟨s1, got, e⟩
    rw [hread] at hr
    simp only [] at hr ⊢
    split
    · split <;> exact hr
    · exact hr
    · exact hr.trans (ih _ _)



/-- bounded memory: the stored block, the decoded block and the dictionary window -/
def Bounded (r : R) : Prop :=
  r.bData.size ≤ Fast.bound Gen.Block8Mb ∧ r.data.size ≤ Gen.Block8Mb ∧ r.dict.size ≤ 128 * 1024 + Gen.Block8Mb

/-- what every Reader step preserves -/
def Pres (r r' : R) : Prop := Adv r.src r'.src ∧ (Bounded r → Bounded r')

theorem Pres.refl (r : R) : Pres r r := ⟨Adv.refl _, id⟩
theorem Pres.trans {a b c : R} (h1 : Pres a b) (h2 : Pres b c) : Pres a c :=
  ⟨h1.1.trans h2.1, fun h => h2.2 (h1.2 h)⟩

theorem hdrRest_pres (r : R) : Pres r (hdrRest r).1 := by
  unfold hdrRest
  have h1 := (readFull_adv r.src 3).1
  rcases e1 : readFull r.src 3 with ⟨s1, b, e⟩
  rw [e1] at h1
  simp only [] at h1 ⊢
  cases e with
  | some e => exact ⟨h1, id⟩
  | none =>
    simp only []
    generalize (b[0]!.toNat + 256 * b[1]!.toNat).toUInt16 = fl
    have h2 := (readFull_adv s1 8).1
    rcases e2 : readFull s1 8 with ⟨s2, b8, e'⟩
    rw [e2] at h2
    simp only [] at h2
    cases hfs : flagSize fl
    · simp only [Bool.false_eq_true, if_false]
      split
      · exact ⟨h1, id⟩
      · split
        · exact ⟨h1, id⟩
        · exact ⟨h1, id⟩
    · simp only [if_true]
      cases e' with
      | some e' => exact ⟨h1.trans h2, id⟩
      | none =>
        simp only []
        split
        · exact ⟨h1.trans h2, id⟩
        · split
          · exact ⟨h1.trans h2, id⟩
          · exact ⟨h1.trans h2, id⟩

theorem skipRest_pres (r : R) (fuel : Nat) (ih : ∀ r', Pres r' (parseHeaders r' fuel).1) :
    Pres r (skipRest r fuel).1 := by
  unfold skipRest
  have h1 := readUint32_adv r.src
  rcases e1 : readUint32 r.src with ⟨s1, n, e⟩
  rw [e1] at h1
  simp only [] at h1 ⊢
  cases e with
  | some e => exact ⟨h1, id⟩
  | none =>
    simp only []
    have h2 := discardN_adv (n + 1) s1 n
    rcases e2 : discardN s1 n (n + 1) with ⟨s2, e'⟩
    rw [e2] at h2
    simp only [] at h2 ⊢
    cases e' with
    | some e' => exact ⟨h1.trans h2, id⟩
    | none =>
      simp only []
      have h3 : Pres r { r with src := s2, magic := 0 } := ⟨h1.trans h2, id⟩
      exact h3.trans (ih _)

theorem parseHeaders_pres (fuel : Nat) : ∀ r : R, Pres r (parseHeaders r fuel).1 := by
  induction fuel with
  | zero => intro r; exact Pres.refl r
  | succ fuel ih =>
    intro r
    rw [FrameR.parseHeaders_succ]
    split
    · exact Pres.refl r
    have h1 := readUint32_adv r.src
    rcases e1 : readUint32 r.src with ⟨s1, m, e⟩
    rw [e1] at h1
    simp only [] at h1 ⊢
    cases e with
    | some e => exact ⟨h1, id⟩
    | none =>
      simp only []
      have h0 : Pres r { r with src := s1, magic := m } := ⟨h1, id⟩
      split
      · split
        · exact ⟨h1, id⟩
        · exact h0.trans (hdrRest_pres _)
      · split
        · exact h0.trans (skipRest_pres _ fuel ih)
        · exact h0

theorem init_pres (r : R) : Pres r (init r).1 := by
  rw [init_eq]
  have h := parseHeaders_pres (r.src.data.size + 2) r
  rcases hp : parseHeaders r (r.src.data.size + 2) with ⟨r1, e⟩
  rw [hp] at h
  simp only [] at h ⊢
  cases e with
  | some e => exact h
  | none =>
    simp only []
    refine h.trans ?_
    cases hfi : flagBlockIndependence r1.flags
    · exact ⟨Adv.refl _, fun hb => ⟨hb.1, Nat.zero_le _, hb.2.2⟩⟩
    · exact ⟨Adv.refl _, fun hb => ⟨hb.1, Nat.zero_le _, hb.2.2⟩⟩

theorem poolSize_le (i : Nat) : poolSize i ≤ Block8Mb := by
  unfold poolSize
  split <;> decide

theorem poolSize_le_bound (i : Nat) : poolSize i ≤ Fast.bound Block8Mb := by
  have := poolSize_le i
  have : Fast.bound Block8Mb = 8421520 := bound8
  unfold Block8Mb at *
  omega

/-- the part of `blockRead` after the size word was accepted: payload, optional block checksum -/
def brTail (r : R) (x : Nat) : R × Option Err :=
  let (s, d, e) := readFull r.src (x % 2147483648)
  let r := { r with src := s, bData := d }
  match e with
  | some e => (r, unexpected (some e))
  | none =>
    if flagBlockChecksum r.flags then
      let (s, c, e) := readUint32 r.src
      let r := { r with src := s }
      match e with
      | some e => (r, unexpected (some e))
      | none => ({ r with bChecksum := c }, none)
    else (r, none)

theorem blockRead_succ' (r : R) (fuel : Nat) : blockRead r (fuel + 1) =
    (let (s, x, e) := readUint32 r.src
    let r := { r with src := s }
    match e with
    | some e => (r, if isLegacy r then some e else unexpected (some e))
    | none =>
    if isLegacy r ∧ x = frameMagicLegacy then blockRead r fuel
    else if isLegacy r ∧ x = r.cum % 4294967296 then (r, some .eof)
    else if ¬ isLegacy r ∧ x = 0 then (r, some .eof)
    else if isLegacy r ∧ (x ≥ 2147483648 ∨ x % 2147483648 = 0) then ({ r with bSize := x }, some .badBlockSize)
    else if x % 2147483648 > (if isLegacy r then Fast.bound Block8Mb else poolSize (blockSizeIndex r.flags)) then
      ({ r with bSize := x }, some .badBlockSize)
    else brTail { r with bSize := x } x) := rfl

theorem brTail_pres (r : R) (x : Nat) (hx : x % 2147483648 ≤ Fast.bound Block8Mb) : Pres r (brTail r x).1 := by
  unfold brTail
  have h2 := readFull_adv r.src (x % 2147483648)
  rcases e2 : readFull r.src (x % 2147483648) with ⟨s2, d, e'⟩
  rw [e2] at h2
  simp only [] at h2 ⊢
  have hd : d.size ≤ Fast.bound Block8Mb := Nat.le_trans h2.2 hx
  have h3 : Pres r { r with src := s2, bData := d } := ⟨h2.1, fun hb => ⟨hd, hb.2.1, hb.2.2⟩⟩
  cases e' with
  | some e' => exact h3
  | none =>
    simp only []
    split
    · have h4 := readUint32_adv s2
      rcases e3 : readUint32 s2 with ⟨s3, c, e''⟩
      rw [e3] at h4
      simp only [] at h4 ⊢
      cases e'' with
      | some e'' => exact ⟨h2.1.trans h4, fun hb => ⟨hd, hb.2.1, hb.2.2⟩⟩
      | none => exact ⟨h2.1.trans h4, fun hb => ⟨hd, hb.2.1, hb.2.2⟩⟩
    · exact h3

theorem blockRead_pres (fuel : Nat) : ∀ r : R, Pres r (blockRead r fuel).1 := by
  induction fuel with
  | zero => intro r; exact Pres.refl r
  | succ fuel ih =>
    intro r
    rw [blockRead_succ']
    have h1 := readUint32_adv r.src
    rcases e1 : readUint32 r.src with ⟨s1, x, e⟩
    rw [e1] at h1
    simp only [] at h1 ⊢
    cases e with
    | some e => exact ⟨h1, id⟩
    | none =>
      simp only []
      have h0 : Pres r { r with src := s1 } := ⟨h1, id⟩
      have h5 : Pres r { r with src := s1, bSize := x } := ⟨h1, id⟩
      have hl1 : ∀ s, isLegacy { r with src := s } = isLegacy r := fun _ => rfl
      simp only [hl1]
      cases hl : isLegacy r
      · simp only [Bool.false_eq_true, false_and, if_false, not_false_eq_true, true_and]
        split
        · exact h0
        split
        · exact h5
        rename_i hcap
        exact h5.trans (brTail_pres _ x (Nat.le_trans (Nat.le_of_not_gt hcap) (poolSize_le_bound _)))
      · simp only [true_and, not_true_eq_false, false_and, if_false, if_true]
        split
        · exact h0.trans (ih _)
        split
        · exact h0
        split
        · exact h5
        split
        · exact h5
        rename_i hcap
        exact h5.trans (brTail_pres _ x (Nat.le_of_not_gt hcap))

theorem uncompressBlock_size (src dict : Array UInt8) (n : Nat) (dst : Array UInt8)
    (h : uncompressBlock src n dict = some dst) : dst.size ≤ n := by
  unfold uncompressBlock at h
  split at h
  · cases h; exact Nat.zero_le _
  · have hs := Proofs.DecodeGo.decodeBlock_safe src (Array.replicate n 0) dict
    split at h
    · rename_i di d heq
      rw [heq] at hs
      cases h
      simp only [Array.size_replicate] at hs
      simp only [Array.size_extract]
      omega
    · cases h

/-- `uncompress` touches only the content-checksum state; the decoded block fits the buffer length -/
theorem uncompress_facts (r : R) (cap : Nat) :
    (uncompress r cap).1.src = r.src ∧ (uncompress r cap).1.bData = r.bData ∧ (uncompress r cap).1.data = r.data ∧
    (uncompress r cap).1.dict = r.dict ∧ (uncompress r cap).1.flags = r.flags ∧ (uncompress r cap).1.idx = r.idx ∧
    (uncompress r cap).1.st = r.st ∧
    ∀ dst, (uncompress r cap).2.1 = some dst → dst.size ≤ cap := by
  unfold uncompress
  split
  · exact ⟨rfl, rfl, rfl, rfl, rfl, rfl, rfl, fun _ h => by cases h⟩
  simp only []
  split
  · exact ⟨rfl, rfl, rfl, rfl, rfl, rfl, rfl, fun _ h => by cases h⟩
  · rename_i dst heq
    have hsz : dst.size ≤ cap := by
      split at heq
      · cases heq
        simp only [Array.size_extract]; omega
      · exact uncompressBlock_size _ _ _ _ heq
    split <;> exact ⟨rfl, rfl, rfl, rfl, rfl, rfl, rfl, fun _ h => by cases h; exact hsz⟩

theorem afterBlock_bData (r : R) (dst : Array UInt8) (d : Bool) : (afterBlock r dst d).bData = r.bData := by
  unfold afterBlock; simp only []
  split <;> split <;> (try split) <;> rfl

theorem afterBlock_pres (r : R) (dst : Array UInt8) (d : Bool) (h : dst.size ≤ Block8Mb) :
    Pres r (afterBlock r dst d) := by
  refine ⟨by rw [afterBlock_src]; exact Adv.refl _, fun hb => ⟨?_, ?_, ?_⟩⟩
  · rw [afterBlock_bData]; exact hb.1
  · rw [afterBlock_data]
    split
    · split
      · exact Nat.zero_le _
      · exact hb.2.1
    · exact h
  · rw [afterBlock_dict]
    have := hb.2.2
    unfold Block8Mb at *
    split
    · exact this
    · simp only [Array.size_append]
      split
      · simp only [Array.size_extract]; omega
      · omega

theorem readBlock_pres (r : R) (want : Nat) :
    Pres r (readBlock r want).1 ∧ (readBlock r want).2.1.size ≤ want := by
  rw [readBlock_eq]
  have h1 := blockRead_pres (r.src.data.size + 2) r
  rcases e1 : blockRead r (r.src.data.size + 2) with ⟨r1, e⟩
  rw [e1] at h1
  simp only [] at h1 ⊢
  cases e with
  | some e => exact ⟨h1, Nat.zero_le _⟩
  | none =>
    simp only []
    obtain ⟨u1, u2, u3, u4, u5, u6, u7, u8⟩ := uncompress_facts r1 (poolSize (blockSizeIndex r1.flags))
    rcases e2 : uncompress r1 (poolSize (blockSizeIndex r1.flags)) with ⟨r2, out, e'⟩
    rw [e2] at u1 u2 u3 u4 u5 u6 u7 u8
    simp only [] at u1 u2 u3 u4 u5 u6 u7 u8 ⊢
    have h2 : Pres r1 r2 := ⟨by rw [u1]; exact Adv.refl _, fun hb => ⟨by rw [u2]; exact hb.1, by rw [u3]; exact hb.2.1,
      by rw [u4]; exact hb.2.2⟩⟩
    cases e' with
    | some e' => exact ⟨h1.trans h2, Nat.zero_le _⟩
    | none =>
      cases out with
      | none => exact ⟨h1.trans h2, Nat.zero_le _⟩
      | some dst =>
        simp only []
        have hd := u8 dst rfl
        have hd8 : dst.size ≤ Block8Mb := Nat.le_trans hd (poolSize_le _)
        split
        · rename_i hdir
          exact ⟨(h1.trans h2).trans (afterBlock_pres _ _ _ hd8), by show dst.size ≤ want; omega⟩
        · exact ⟨(h1.trans h2).trans (afterBlock_pres _ _ _ hd8), Nat.zero_le _⟩

theorem closeR_pres (r : R) : Pres r (closeR r).1 := by
  unfold closeR
  split
  · exact Pres.refl r
  split
  · exact Pres.refl r
  have h1 := readUint32_adv r.src
  rcases e1 : readUint32 r.src with ⟨s1, c, e⟩
  rw [e1] at h1
  simp only [] at h1 ⊢
  cases e with
  | some e => exact ⟨h1, id⟩
  | none =>
    simp only []
    split <;> exact ⟨h1, id⟩

theorem next_pres (r : R) (e : Option Err) : Pres r (FrameR.next r e).1 := by
  unfold FrameR.next
  split <;> exact ⟨Adv.refl _, id⟩

theorem check_pres (r : R) (e : Option Err) : Pres r (FrameR.check r e) := by
  unfold FrameR.check
  split
  · exact Pres.refl r
  split
  · exact Pres.refl r
  split <;> exact ⟨Adv.refl _, id⟩

theorem readLoop_pres (want : Nat) (fuel : Nat) : ∀ (r : R) (out : Array UInt8), out.size ≤ want →
    Pres r (readLoop r want out fuel).1 ∧ (readLoop r want out fuel).2.1.size ≤ want := by
  induction fuel with
  | zero => intro r out h; exact ⟨Pres.refl r, h⟩
  | succ fuel ih =>
    intro r out h
    rw [readLoop_succ]
    split
    · exact ⟨Pres.refl r, h⟩
    rename_i hlt
    simp only []
    -- the buffered-data tail, from any state
    have tail : ∀ r1 : R, Pres r r1 →
        Pres r (readLoop { r1 with idx := if r1.idx + min (want - out.size) (r1.data.size - r1.idx) = r1.data.size
            then 0 else r1.idx + min (want - out.size) (r1.data.size - r1.idx) } want
          (out ++ r1.data.extract r1.idx (r1.idx + min (want - out.size) (r1.data.size - r1.idx))) fuel).1 ∧
        (readLoop { r1 with idx := if r1.idx + min (want - out.size) (r1.data.size - r1.idx) = r1.data.size
            then 0 else r1.idx + min (want - out.size) (r1.data.size - r1.idx) } want
          (out ++ r1.data.extract r1.idx (r1.idx + min (want - out.size) (r1.data.size - r1.idx))) fuel).2.1.size ≤ want := by
      intro r1 hp
      have hsz : (out ++ r1.data.extract r1.idx (r1.idx + min (want - out.size) (r1.data.size - r1.idx))).size ≤ want := by
        simp only [Array.size_append, Array.size_extract]; omega
      have := ih { r1 with idx := if r1.idx + min (want - out.size) (r1.data.size - r1.idx) = r1.data.size
            then 0 else r1.idx + min (want - out.size) (r1.data.size - r1.idx) } _ hsz
      exact ⟨(hp.trans ⟨Adv.refl _, id⟩).trans this.1, this.2⟩
    by_cases hidx : r.idx = 0
    · simp only [hidx, if_true]
      obtain ⟨h1, h1s⟩ := readBlock_pres r (want - out.size)
      rcases e1 : readBlock r (want - out.size) with ⟨r1, got, e⟩
      rw [e1] at h1 h1s
      simp only [] at h1 h1s ⊢
      cases e with
      | none =>
        simp only [Bool.false_eq_true, if_false]
        split
        · have hsz : (out ++ got).size ≤ want := by rw [Array.size_append]; omega
          have := ih r1 (out ++ got) hsz
          exact ⟨h1.trans this.1, this.2⟩
        · exact tail r1 h1
      | some e =>
        cases e
        case eof =>
          simp only []
          have h2 := closeR_pres r1
          rcases e2 : closeR r1 with ⟨r2, ce⟩
          rw [e2] at h2
          simp only [] at h2 ⊢
          cases ce with
          | some ce =>
            simp only [if_true]
            exact ⟨(h1.trans h2).trans ⟨Adv.refl _, fun hb => ⟨hb.1, Nat.zero_le _, hb.2.2⟩⟩, h⟩
          | none =>
            simp only [if_true]
            exact ⟨((h1.trans h2).trans (next_pres r2 none)).trans
              ⟨Adv.refl _, fun hb => ⟨hb.1, Nat.zero_le _, hb.2.2⟩⟩, h⟩
        all_goals (simp only [if_true]; exact ⟨h1, h⟩)
    · simp only [hidx, if_false, Bool.false_eq_true]
      have h0 : ¬ (#[] : Array UInt8).size > 0 := by simp
      simp only [h0, if_false]
      exact tail r (Pres.refl r)

theorem read_pres (r : R) (want : Nat) :
    Pres r (FrameR.read r want).1 ∧ (FrameR.read r want).2.1.size ≤ want := by
  have go : ∀ r1 : R, Pres r r1 →
      Pres r (FrameR.check (readLoop r1 want #[] (r1.src.data.size + want + 4)).1
        (readLoop r1 want #[] (r1.src.data.size + want + 4)).2.2) ∧
      (readLoop r1 want #[] (r1.src.data.size + want + 4)).2.1.size ≤ want := by
    intro r1 hp
    have := readLoop_pres want (r1.src.data.size + want + 4) r1 #[] (Nat.zero_le _)
    exact ⟨(hp.trans this.1).trans (check_pres _ _), this.2⟩
  unfold FrameR.read
  simp only []
  split
  · exact go r (Pres.refl r)
  split
  · exact ⟨check_pres _ _, Nat.zero_le _⟩
  split
  · exact ⟨Pres.refl r, Nat.zero_le _⟩
  split
  · have h1 := init_pres r
    rcases e1 : init r with ⟨r1, e⟩
    rw [e1] at h1
    simp only [] at h1 ⊢
    have h2 := next_pres r1 e
    rcases e2 : FrameR.next r1 e with ⟨r2, bad⟩
    rw [e2] at h2
    simp only [] at h2 ⊢
    split
    · exact ⟨h1.trans h2, Nat.zero_le _⟩
    · exact go r2 (h1.trans h2)
  · exact ⟨⟨Adv.refl _, id⟩, Nat.zero_le _⟩

theorem loop_pres (cap : Nat) (fuel : Nat) : ∀ (r : R) (sink : Sink) (n : Nat),
    Pres r (writeTo.loop cap r sink n fuel).1 := by
  induction fuel with
  | zero => intro r sink n; exact Pres.refl r
  | succ fuel ih =>
    intro r sink n
    rw [loop_succ]
    simp only []
    obtain ⟨h1, -⟩ := readBlock_pres r cap
    rcases e1 : readBlock r cap with ⟨r1, got, e⟩
    rw [e1] at h1
    simp only [] at h1 ⊢
    have h2 : Pres r { r1 with data := r.data } :=
      ⟨h1.1, fun hb => ⟨(h1.2 hb).1, hb.2.1, (h1.2 hb).2.2⟩⟩
    cases e with
    | none =>
      simp only []
      rcases sink.write got with ⟨sink', we⟩
      cases we with
      | some we => exact h2
      | none => exact h2.trans (ih _ _ _)
    | some e =>
      cases e
      case eof => exact h2.trans (closeR_pres _)
      all_goals exact h2

theorem writeTo_pres (r : R) (sink : Sink) : Pres r (FrameR.writeTo r sink).1 := by
  unfold FrameR.writeTo
  simp only []
  split
  · exact Pres.refl r
  split
  · have h1 := init_pres r
    rcases e1 : init r with ⟨r1, e⟩
    rw [e1] at h1
    simp only [] at h1 ⊢
    have h2 := next_pres r1 e
    rcases e2 : FrameR.next r1 e with ⟨r2, bad⟩
    rw [e2] at h2
    simp only [] at h2 ⊢
    split
    · exact h1.trans h2
    · exact ((h1.trans h2).trans (loop_pres _ _ r2 sink 0)).trans (next_pres _ _)
  · exact ⟨Adv.refl _, id⟩

theorem bounded_new (s : Source) : Bounded (FrameR.new s) := by
  refine ⟨Nat.zero_le _, Nat.zero_le _, Nat.zero_le _⟩

theorem bounded_reset (r : R) (s : Source) (_h : Bounded r) : Bounded (FrameR.reset r s) :=
  ⟨_h.1, Nat.zero_le _, Nat.zero_le _⟩

end Lz4V.Proofs.Hostile
