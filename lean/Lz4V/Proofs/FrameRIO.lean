import Lz4V.Model.FrameR
import Lz4V.Spec.Frame
/-!
# Proofs.FrameRIO — the scripted source read whole (`chunk = 0`, no injected failure, no
`eofWithData`): complete characterisation of `Source.read`, `readFull`, `readUint32`, `discardN`,
and the list-level views of the byte segments (`Spec.Frame.u32`, `splitN`, `dropN`).
-/
namespace Lz4V.Proofs.FrameR
open Lz4V Lz4V.Go Lz4V.Gen Lz4V.Model Lz4V.Model.FrameR

/-- a source that hands out whatever is requested, and whose cursor is inside the data -/
structure Good (s : Source) : Prop where
  chunk : s.chunk = 0
  failAt : s.failAt = none
  ewd : s.eofWithData = false
  pos : s.pos ≤ s.data.size

/-- the error `io.ReadFull` reports when the source runs dry -/
def shortErr (s : Source) : Err := if s.pos = s.data.size then .eof else .unexpectedEOF

theorem read_eof (s : Source) (hg : Good s) (want : Nat) (hw : 0 < want) (he : s.pos = s.data.size) :
    s.read want = ({ s with calls := s.calls + 1 }, #[], some .eof) := by
  obtain ⟨h1, h2, h3, h4⟩ := hg
  unfold Source.read Source.read.go
  simp only [h2]
  have : ¬ want = 0 := by omega
  simp [this, he]

theorem read_some (s : Source) (hg : Good s) (want : Nat) (hw : 0 < want) (he : s.pos < s.data.size) :
    s.read want = ({ s with calls := s.calls + 1, pos := s.pos + min want (s.data.size - s.pos) },
      s.data.extract s.pos (s.pos + min want (s.data.size - s.pos)), none) := by
  obtain ⟨h1, h2, h3, h4⟩ := hg
  unfold Source.read Source.read.go
  simp only [h2]
  have : ¬ want = 0 := by omega
  have h5 : ¬ s.data.size - s.pos = 0 := by omega
  simp [this, h5, h1, h3]

theorem readFull_zero (s : Source) : readFull s 0 = (s, #[], none) := by
  unfold readFull readFull.loop
  simp

theorem readFull_ok (s : Source) (hg : Good s) (n : Nat) (h : s.pos + n ≤ s.data.size) :
    ∃ s', Good s' ∧ s'.data = s.data ∧ s'.pos = s.pos + n ∧
      readFull s n = (s', s.data.extract s.pos (s.pos + n), none) := by
  by_cases hn : n = 0
  · subst hn
    exact ⟨s, hg, rfl, rfl, by rw [readFull_zero]; simp; exact Nat.min_le_left _ _⟩
  · have hlt : s.pos < s.data.size := by omega
    refine ⟨{ s with calls := s.calls + 1, pos := s.pos + n }, ⟨hg.chunk, hg.failAt, hg.ewd, h⟩, rfl, rfl, ?_⟩
    unfold readFull readFull.loop
    have h0 : ¬ (#[] : Array UInt8).size ≥ n := by simp; omega
    simp only [h0, if_false]
    have hsz : (#[] : Array UInt8).size = 0 := rfl
    rw [hsz, Nat.sub_zero, read_some s hg n (by omega) hlt]
    have hm : min n (s.data.size - s.pos) = n := by omega
    simp only [hm]
    have h1 : ¬ (s.data.extract s.pos (s.pos + n)).size = 0 := by
      simp only [Array.size_extract]; omega
    have h2 : (#[] ++ s.data.extract s.pos (s.pos + n) : Array UInt8).size ≥ n := by
      simp only [Array.size_append, Array.size_extract]; simp; omega
    simp only [h1, if_false]
    unfold readFull.loop
    simp only [h2, if_true]
    split <;> simp

theorem readFull_short (s : Source) (hg : Good s) (n : Nat) (h : s.data.size < s.pos + n) :
    ∃ s', Good s' ∧ s'.data = s.data ∧ s'.pos = s.data.size ∧
      readFull s n = (s', s.data.extract s.pos s.data.size, some (shortErr s)) := by
  have hn : 0 < n := by have := hg.pos; omega
  by_cases he : s.pos = s.data.size
  · refine ⟨{ s with calls := s.calls + 1 }, ⟨hg.chunk, hg.failAt, hg.ewd, hg.pos⟩, rfl, he, ?_⟩
    unfold readFull readFull.loop
    have h0 : ¬ (#[] : Array UInt8).size ≥ n := by simp; omega
    simp only [h0, if_false]
    have hsz : (#[] : Array UInt8).size = 0 := rfl
    rw [hsz, Nat.sub_zero, read_eof s hg n hn he]
    simp [shortErr, he]
    omega
  · have hlt : s.pos < s.data.size := by have := hg.pos; omega
    let s1 : Source := { s with calls := s.calls + 1, pos := s.pos + min n (s.data.size - s.pos) }
    have hm : min n (s.data.size - s.pos) = s.data.size - s.pos := by omega
    have hg1 : Good s1 := ⟨hg.chunk, hg.failAt, hg.ewd, by simp only [s1, hm]; omega⟩
    have hp1 : s1.pos = s1.data.size := by simp only [s1, hm]; omega
    refine ⟨{ s1 with calls := s1.calls + 1 }, ⟨hg.chunk, hg.failAt, hg.ewd, hg1.pos⟩, rfl, hp1, ?_⟩
    unfold readFull readFull.loop
    have h0 : ¬ (#[] : Array UInt8).size ≥ n := by simp; omega
    simp only [h0, if_false]
    have hsz : (#[] : Array UInt8).size = 0 := rfl
    rw [hsz, Nat.sub_zero, read_some s hg n hn hlt]
    have h1 : ¬ (s.data.extract s.pos (s.pos + min n (s.data.size - s.pos))).size = 0 := by
      simp only [Array.size_extract]; omega
    simp only [h1, if_false]
    have hn' : n + 1 = (n - 1) + 1 + 1 := by omega
    unfold readFull.loop
    have h2 : ¬ (#[] ++ s.data.extract s.pos (s.pos + min n (s.data.size - s.pos)) : Array UInt8).size ≥ n := by
      simp only [Array.size_append, Array.size_extract]; simp; omega
    have h3 : (#[] ++ s.data.extract s.pos (s.pos + min n (s.data.size - s.pos)) : Array UInt8).size
        = s.data.size - s.pos := by
      simp only [Array.size_append, Array.size_extract]; simp; omega
    have hn2 : n = (n - 1) + 1 := by omega
    rw [hn2]
    simp only []
    rw [← hn2]
    simp only [h2, if_false]
    rw [read_eof s1 hg1 _ (by rw [h3]; omega) hp1]
    simp only [Array.append_empty, h2, if_false]
    have h4 : (#[] ++ s.data.extract s.pos (s.pos + min n (s.data.size - s.pos)) : Array UInt8).size > 0 := by
      rw [h3]; omega
    simp only [h4, and_self, if_true, shortErr, he, if_false]
    have h5 : s.pos + min n (s.data.size - s.pos) = s.data.size := by omega
    simp only [h5, Array.empty_append]

theorem readUint32_ok (s : Source) (hg : Good s) (h : s.pos + 4 ≤ s.data.size) :
    ∃ s', Good s' ∧ s'.data = s.data ∧ s'.pos = s.pos + 4 ∧
      readUint32 s = (s', u32 (s.data.extract s.pos (s.pos + 4)), none) := by
  obtain ⟨s', h1, h2, h3, h4⟩ := readFull_ok s hg 4 h
  exact ⟨s', h1, h2, h3, by unfold readUint32; rw [h4]⟩

theorem readUint32_short (s : Source) (hg : Good s) (h : s.data.size < s.pos + 4) :
    ∃ s', Good s' ∧ s'.data = s.data ∧ s'.pos = s.data.size ∧
      readUint32 s = (s', 0, some (shortErr s)) := by
  obtain ⟨s', h1, h2, h3, h4⟩ := readFull_short s hg 4 h
  exact ⟨s', h1, h2, h3, by unfold readUint32; rw [h4]⟩

theorem shortErr_ne_none (s : Source) : some (shortErr s) ≠ none := by simp

theorem unexpected_shortErr (s : Source) : unexpected (some (shortErr s)) = some .unexpectedEOF := by
  unfold shortErr; split <;> rfl

theorem discardN_ok (s : Source) (hg : Good s) (n fuel : Nat) (hf : n < fuel) (h : s.pos + n ≤ s.data.size) :
    ∃ s', Good s' ∧ s'.data = s.data ∧ s'.pos = s.pos + n ∧ discardN s n fuel = (s', none) := by
  induction fuel generalizing s n with
  | zero => omega
  | succ fuel ih =>
    unfold discardN
    by_cases hn : n = 0
    · subst hn; exact ⟨s, hg, rfl, rfl, by simp⟩
    · simp only [hn, if_false]
      have hlt : s.pos < s.data.size := by omega
      rw [read_some s hg (min n 8192) (by omega) hlt]
      simp only []
      let m := min (min n 8192) (s.data.size - s.pos)
      have hm : (s.data.extract s.pos (s.pos + m)).size = m := by
        simp only [Array.size_extract]; omega
      have hm1 : 0 < m := by omega
      have hm2 : m ≤ n := by omega
      obtain ⟨s', g1, g2, g3, g4⟩ := ih { s with calls := s.calls + 1, pos := s.pos + m }
        ⟨hg.chunk, hg.failAt, hg.ewd, by simp only []; omega⟩ (n - m) (by omega) (by simp only []; omega)
      refine ⟨s', g1, g2, by rw [g3]; simp only []; omega, ?_⟩
      show discardN _ (n - (s.data.extract s.pos (s.pos + m)).size) fuel = _
      rw [hm]; exact g4

theorem discardN_short (s : Source) (hg : Good s) (n fuel : Nat) (hf : n < fuel) (h : s.data.size < s.pos + n) :
    ∃ s', Good s' ∧ s'.data = s.data ∧ s'.pos = s.data.size ∧ discardN s n fuel = (s', some .eof) := by
  induction fuel generalizing s n with
  | zero => omega
  | succ fuel ih =>
    unfold discardN
    have hn : ¬ n = 0 := by have := hg.pos; omega
    simp only [hn, if_false]
    by_cases he : s.pos = s.data.size
    · rw [read_eof s hg (min n 8192) (by omega) he]
      simp only []
      have : ¬ n - (#[] : Array UInt8).size = 0 := by simp; omega
      simp only [this, if_false]
      exact ⟨{ s with calls := s.calls + 1 }, ⟨hg.chunk, hg.failAt, hg.ewd, hg.pos⟩, rfl, he, rfl⟩
    · have hlt : s.pos < s.data.size := by have := hg.pos; omega
      rw [read_some s hg (min n 8192) (by omega) hlt]
      simp only []
      let m := min (min n 8192) (s.data.size - s.pos)
      have hm : (s.data.extract s.pos (s.pos + m)).size = m := by
        simp only [Array.size_extract]; omega
      have hm1 : 0 < m := by omega
      have hm2 : m ≤ n := by omega
      obtain ⟨s', g1, g2, g3, g4⟩ := ih { s with calls := s.calls + 1, pos := s.pos + m }
        ⟨hg.chunk, hg.failAt, hg.ewd, by simp only []; omega⟩ (n - m) (by omega) (by simp only []; omega)
      refine ⟨s', g1, g2, g3, ?_⟩
      show discardN _ (n - (s.data.extract s.pos (s.pos + m)).size) fuel = _
      rw [hm]; exact g4

/-! ## list-level views -/

theorem u32_toList (b : Array UInt8) (hb : b.size = 4) (T : List UInt8) :
    Spec.Frame.u32 (b.toList ++ T) = some (u32 b, T) := by
  obtain ⟨l⟩ := b
  match l, hb with
  | [a, b, c, d], _ => rfl

theorem splitN_toList (b : Array UInt8) (T : List UInt8) (acc : Array UInt8) :
    Spec.Frame.splitN b.size (b.toList ++ T) acc = some (acc ++ b, T) := by
  obtain ⟨l⟩ := b
  induction l generalizing acc with
  | nil => simp [Spec.Frame.splitN]
  | cons x l ih =>
    simp only [List.size_toArray, List.length_cons, List.cons_append, Spec.Frame.splitN]
    have := ih (acc.push x)
    simp only [List.size_toArray] at this
    rw [this]
    simp

theorem dropN_append (l T : List UInt8) : Spec.Frame.dropN l.length (l ++ T) = some T := by
  induction l with
  | nil => simp [Spec.Frame.dropN]
  | cons x l ih => simpa [Spec.Frame.dropN] using ih

theorem extract_split (a : Array UInt8) (i j k : Nat) (h1 : i ≤ j) (h2 : j ≤ k) :
    a.extract i k = a.extract i j ++ a.extract j k := by
  rw [Array.extract_append_extract]
  congr 1 <;> omega

end Lz4V.Proofs.FrameR
