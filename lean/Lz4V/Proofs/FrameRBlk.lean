import Lz4V.Proofs.FrameRHdr
import Lz4V.Proofs.FrameRWindow
import Lz4V.Props.C04go
/-!
# Proofs.FrameRBlk — one data block: `blockRead` / `uncompress` / `readBlock` against one iteration
of `Spec.Frame.blocks` (current format)
-/
set_option linter.unusedSimpArgs false
namespace Lz4V.Proofs.FrameR
open Lz4V Lz4V.Go Lz4V.Gen Lz4V.Model Lz4V.Model.FrameR Lz4V.Model.FrameW

/-! ## the block decoder as called by the Reader -/

theorem uncompressBlock_eq (src dict : Array UInt8) (n : Nat) (hs : src.size ≠ 0) (hn : n < 2 ^ 63) :
    uncompressBlock src n dict = Spec.Block.decode src.toList dict.toList n := by
  unfold uncompressBlock
  simp only [hs, if_false]
  have h := Props.C04go.c04_go_partial src (Array.replicate n 0) dict hs (by simpa using hn)
  cases hr : DecodeGo.decodeBlock (Array.replicate n 0) src dict with
  | ok di d =>
    rw [hr] at h
    simp only [Array.size_replicate] at h
    simp only [h]
  | err d =>
    rw [hr] at h
    simp only [Array.size_replicate] at h
    simp only [h]

/-! ## dictionaries: the model's window against the specification's `lastN content 65536` -/

theorem decode_lastN (blk : List UInt8) (c : Array UInt8) (m : Nat) :
    Spec.Block.decode blk (Spec.Frame.lastN c 65536).toList m = Spec.Block.decode blk c.toList m := by
  unfold Spec.Frame.lastN
  have hsplit : c.toList = (c.extract 0 (c.size - 65536)).toList ++ (c.extract (c.size - 65536) c.size).toList := by
    rw [← Array.toList_append, ← extract_split c 0 (c.size - 65536) c.size (by omega) (by omega)]
    simp
  by_cases hc : 65536 ≤ c.size
  · conv => rhs; rw [hsplit]
    rw [decode_prefix]
    left
    simp only [Array.length_toList, Array.size_extract]; omega
  · have h0 : c.size - 65536 = 0 := by omega
    rw [h0]; simp

theorem decode_suffix (blk : List UInt8) (pre d : Array UInt8) (m : Nat) (h : pre = #[] ∨ 65536 ≤ d.size) :
    Spec.Block.decode blk (pre ++ d).toList m = Spec.Block.decode blk d.toList m := by
  rcases h with h | h
  · subst h; simp
  · rw [Array.toList_append, decode_prefix]
    left; simp only [Array.length_toList]; omega

/-- the Reader's dictionary update keeps a long enough suffix of the content -/
theorem dict_update (content pre dict dst : Array UInt8) (hc : content = pre ++ dict)
    (hp : pre = #[] ∨ 65536 ≤ dict.size) :
    ∃ pre', content ++ dst = pre' ++ ((if dict.size + dst.size > 128 * 1024 then
        dict.extract (dict.size - (64 * 1024 - dst.size)) dict.size else dict) ++ dst) ∧
      (pre' = #[] ∨ 65536 ≤ ((if dict.size + dst.size > 128 * 1024 then
        dict.extract (dict.size - (64 * 1024 - dst.size)) dict.size else dict) ++ dst).size) := by
  by_cases hbig : dict.size + dst.size > 128 * 1024
  · simp only [hbig, if_true]
    refine ⟨pre ++ dict.extract 0 (dict.size - (64 * 1024 - dst.size)), ?_, Or.inr ?_⟩
    · rw [hc]
      have : dict = dict.extract 0 (dict.size - (64 * 1024 - dst.size)) ++
          dict.extract (dict.size - (64 * 1024 - dst.size)) dict.size := by
        rw [← extract_split dict 0 _ dict.size (by omega) (by omega)]; simp
      conv => lhs; rw [this]
      simp only [Array.append_assoc]
    · simp only [Array.size_append, Array.size_extract]
      omega
  · simp only [hbig, if_false]
    refine ⟨pre, by rw [hc, Array.append_assoc], ?_⟩
    rcases hp with hp | hp
    · exact Or.inl hp
    · right; simp only [Array.size_append]; omega

/-! ## one iteration of `Spec.Frame.blocks` -/

theorem blocks_end (info : Spec.Frame.Info) (F : Nat) (W : Array UInt8) (T : List UInt8) (content : Array UInt8)
    (hW : W.size = 4) (hx : u32 W = 0) :
    Spec.Frame.blocks info (F + 1) (W.toList ++ T) content = .ok (content, T) := by
  simp only [Spec.Frame.blocks, u32_toList W hW, hx, if_true]

theorem blocks_step (info : Spec.Frame.Info) (F : Nat) (W P C : Array UInt8) (T : List UInt8)
    (content dst : Array UInt8) (x : Nat) (hW : W.size = 4) (hx : u32 W = x) (hx0 : x ≠ 0)
    (hsz : P.size = x % 2147483648) (hle : x % 2147483648 ≤ info.blockMax)
    (hC : if info.blockChecksum = true then C.size = 4 ∧ u32 C = Spec.Frame.xxh P else C = #[])
    (hdst : if x ≥ 2147483648 then dst = P else
      Spec.Block.decode P.toList (if info.blockIndep = true then [] else (Spec.Frame.lastN content 65536).toList)
        info.blockMax = some dst) :
    Spec.Frame.blocks info (F + 1) (W.toList ++ (P.toList ++ (C.toList ++ T))) content =
      Spec.Frame.blocks info F T (content ++ dst) := by
  have hgt : ¬ x % 2147483648 > info.blockMax := by omega
  have hsp := splitN_toList P (C.toList ++ T) #[]
  rw [hsz] at hsp
  simp only [Spec.Frame.blocks, u32_toList W hW, hx, hx0, if_false, hgt, hsp, Array.empty_append]
  by_cases hb : info.blockChecksum = true
  · simp only [hb, if_true] at hC ⊢
    simp only [u32_toList C hC.1, hC.2, if_true]
    by_cases hraw : x ≥ 2147483648
    · simp only [hraw, if_true] at hdst ⊢
      rw [hdst]
    · simp only [hraw, if_false] at hdst ⊢
      rw [hdst]
  · simp only [hb, if_false] at hC ⊢
    subst hC
    simp only [List.nil_append, Array.toList_empty, Bool.false_eq_true, if_false]
    by_cases hraw : x ≥ 2147483648
    · simp only [hraw, if_true] at hdst ⊢
      rw [hdst]
    · simp only [hraw, if_false] at hdst ⊢
      rw [hdst]

/-! ## `blockRead`, current format -/

theorem blockRead_succ (r : R) (fuel : Nat) : blockRead r (fuel + 1) =
    (let (s, x, e) := readUint32 r.src
    let r := { r with src := s }
    match e with
    | some e => (r, if isLegacy r then some e else unexpected (some e))
    | none =>
    if isLegacy r ∧ x = frameMagicLegacy then blockRead r fuel
    else if isLegacy r ∧ x = r.cum % 4294967296 then (r, some .eof)
    else if ¬ isLegacy r ∧ x = 0 then (r, some .eof)
    else
      let size := x % 2147483648
      let r := { r with bSize := x }
      if isLegacy r ∧ (x ≥ 2147483648 ∨ size = 0) then (r, some .badBlockSize) else
      let cap := if isLegacy r then Fast.bound Block8Mb else poolSize (blockSizeIndex r.flags)
      if size > cap then (r, some .badBlockSize) else
      let (s, d, e) := readFull r.src size
      let r := { r with src := s, bData := d }
      match e with
      | some e => (r, unexpected (some e))
      | none =>
        if flagBlockChecksum r.flags then
          let (s, c, e) := readUint32 r.src
          let r := { r with src := s }
          match e with
          | some e => (r, unexpected (some e))
          | none => ({ r with bChecksum := c }, none)
        else (r, none)) := rfl

theorem blockRead_modern (r : R) (hl : isLegacy r = false) (hg : Good r.src) (f : Nat) :
    (∃ r' e, blockRead r (f + 1) = (r', some e) ∧ e ≠ .eof) ∨
    (∃ s', Good s' ∧ s'.data = r.src.data ∧ r.src.pos + 4 ≤ r.src.data.size ∧
      u32 (r.src.data.extract r.src.pos (r.src.pos + 4)) = 0 ∧ s'.pos = r.src.pos + 4 ∧
      blockRead r (f + 1) = ({ r with src := s' }, some .eof)) ∨
    (∃ s' x c, Good s' ∧ s'.data = r.src.data ∧ r.src.pos + 4 ≤ r.src.data.size ∧
      x = u32 (r.src.data.extract r.src.pos (r.src.pos + 4)) ∧ x ≠ 0 ∧
      x % 2147483648 ≤ poolSize (blockSizeIndex r.flags) ∧
      s'.pos = r.src.pos + 4 + x % 2147483648 + (if flagBlockChecksum r.flags = true then 4 else 0) ∧
      s'.pos ≤ r.src.data.size ∧
      (flagBlockChecksum r.flags = true → c = u32 (r.src.data.extract (r.src.pos + 4 + x % 2147483648)
        (r.src.pos + 4 + x % 2147483648 + 4))) ∧
      blockRead r (f + 1) = ({ r with src := s', bSize := x, bData := r.src.data.extract (r.src.pos + 4) (r.src.pos + 4 + x % 2147483648), bChecksum := c }, none)) := by
  rw [blockRead_succ]
  have hl1 : ∀ s, isLegacy { r with src := s } = false := fun s => hl
  by_cases h4' : r.src.data.size < r.src.pos + 4
  · obtain ⟨s1, g1, d1, p1, e1⟩ := readUint32_short r.src hg h4'
    rw [e1]
    simp only [hl1, Bool.false_eq_true, if_false, unexpected_shortErr]
    exact Or.inl ⟨_, _, rfl, by simp⟩
  have h4 : r.src.pos + 4 ≤ r.src.data.size := by omega
  obtain ⟨s1, g1, d1, p1, e1⟩ := readUint32_ok r.src hg h4
  rw [e1]
  simp only []
  generalize hxv : u32 (r.src.data.extract r.src.pos (r.src.pos + 4)) = x
  have hl2 : ∀ s y, isLegacy { r with src := s, bSize := y } = false := fun s y => hl
  simp only [hl1, hl2, Bool.false_eq_true, false_and, if_false, not_false_eq_true, true_and]
  by_cases hx0 : x = 0
  · simp only [hx0, if_true]
    exact Or.inr (Or.inl ⟨s1, g1, d1, h4, trivial, p1, rfl⟩)
  simp only [hx0, if_false]
  by_cases hcap : x % 2147483648 > poolSize (blockSizeIndex r.flags)
  · simp only [hcap, if_true]
    exact Or.inl ⟨_, _, rfl, by simp⟩
  simp only [hcap, if_false]
  by_cases hp' : s1.data.size < s1.pos + x % 2147483648
  · obtain ⟨s2, g2, d2, p2, e2⟩ := readFull_short s1 g1 _ hp'
    rw [e2]
    simp only [unexpected_shortErr]
    exact Or.inl ⟨_, _, rfl, by simp⟩
  have hp : s1.pos + x % 2147483648 ≤ s1.data.size := by omega
  obtain ⟨s2, g2, d2, p2, e2⟩ := readFull_ok s1 g1 _ hp
  rw [e2]
  simp only []
  by_cases hbc : flagBlockChecksum r.flags = true
  · simp only [hbc, if_true]
    by_cases hc' : s2.data.size < s2.pos + 4
    · obtain ⟨s3, g3, d3, p3, e3⟩ := readUint32_short s2 g2 hc'
      rw [e3]
      simp only [unexpected_shortErr]
      exact Or.inl ⟨_, _, rfl, by simp⟩
    have hc : s2.pos + 4 ≤ s2.data.size := by omega
    obtain ⟨s3, g3, d3, p3, e3⟩ := readUint32_ok s2 g2 hc
    rw [e3]
    simp only []
    refine Or.inr (Or.inr ⟨s3, x, _, g3, by rw [d3, d2, d1], h4, rfl, hx0, by omega, by omega,
      by rw [p3, ← d1, ← d2]; exact hc, fun _ => rfl, ?_⟩)
    rw [d2, d1, p2, p1]
  · simp only [hbc, if_false, Bool.false_eq_true]
    refine Or.inr (Or.inr ⟨s2, x, r.bChecksum, g2, by rw [d2, d1], h4, rfl, hx0, by omega, by omega,
      by rw [p2, ← d1]; exact hp, fun h => h.elim, ?_⟩)
    rw [d1, p1]

/-! ## `uncompress` -/

/-- `uncompress`'s update of the content-checksum state -/
def withCks (r : R) (dst : Array UInt8) : R :=
  if flagContentChecksum r.flags = true then { r with cks := XXH.write r.cks dst.toList } else r


theorem uncompress_spec (r : R) (cap : Nat) (hcap : cap < 2 ^ 63) (hP : r.bSize < 2147483648 → r.bData.size ≠ 0)
    (hle : r.bData.size ≤ cap) :
    (∃ e, uncompress r cap = (r, none, some e) ∧ e ≠ .eof) ∨
    (∃ dst, (flagBlockChecksum r.flags = true → (XXH.checksumZero r.bData.toList).toNat = r.bChecksum) ∧
      (if r.bSize ≥ 2147483648 then dst = r.bData
        else Spec.Block.decode r.bData.toList (if isLegacy r = true then #[] else r.dict).toList cap = some dst) ∧
      uncompress r cap = (withCks r dst, some dst, none)) := by
  unfold uncompress
  by_cases hck : flagBlockChecksum r.flags = true ∧ (XXH.checksumZero r.bData.toList).toNat ≠ r.bChecksum
  · rw [if_pos hck]
    exact Or.inl ⟨_, rfl, by simp⟩
  rw [if_neg hck]
  have hck' : flagBlockChecksum r.flags = true → (XXH.checksumZero r.bData.toList).toNat = r.bChecksum := by
    intro h
    by_cases h2 : (XXH.checksumZero r.bData.toList).toNat = r.bChecksum
    · exact h2
    · exact absurd ⟨h, h2⟩ hck
  by_cases hraw : r.bSize ≥ 2147483648
  · simp only [hraw, if_true]
    have : min cap r.bData.size = r.bData.size := by omega
    rw [this]
    refine Or.inr ⟨r.bData, hck', rfl, ?_⟩
    simp [withCks]
  · simp only [hraw, if_false]
    rw [uncompressBlock_eq _ _ _ (hP (by omega)) hcap]
    cases hd : Spec.Block.decode r.bData.toList (if isLegacy r = true then #[] else r.dict).toList cap with
    | none => exact Or.inl ⟨_, rfl, by simp⟩
    | some dst => exact Or.inr ⟨dst, hck', rfl, rfl⟩

/-! ## the Reader's state after the frame descriptor -/

structure Inv (D : Array UInt8) (info : Spec.Frame.Info) (r : R) (content : Array UInt8) : Prop where
  good : Good r.src
  data : r.src.data = D
  magic : r.magic = frameMagic
  fm : FlagsMatch r.flags info
  cks : info.contentChecksum = true → content.size < 2 ^ 64 → Proofs.XXH.Inv r.cks content.toList
  dictI : info.blockIndep = true → r.dict = #[]
  dictD : info.blockIndep = false → ∃ pre, content = pre ++ r.dict ∧ (pre = #[] ∨ 65536 ≤ r.dict.size)

theorem isLegacy_of_magic (r : R) (h : r.magic = frameMagic) : isLegacy r = false := by
  unfold isLegacy; rw [h]; decide

/-- `readBlock`'s bookkeeping after a block was decoded to `dst` -/
def afterBlock (r : R) (dst : Array UInt8) (direct : Bool) : R :=
  let r := if ¬ flagBlockIndependence r.flags then
      let dict := if r.dict.size + dst.size > 128 * 1024 then
          let preserve := 64 * 1024 - dst.size
          r.dict.extract (r.dict.size - preserve) r.dict.size
        else r.dict
      { r with dict := dict ++ dst }
    else r
  let r := { r with cum := r.cum + dst.size }
  if direct then (if dst.size = 0 then { r with data := #[] } else r) else { r with data := dst }

section fields
variable (r : R) (dst : Array UInt8) (d : Bool)
theorem withCks_src : (withCks r dst).src = r.src := by unfold withCks; split <;> rfl
theorem withCks_magic : (withCks r dst).magic = r.magic := by unfold withCks; split <;> rfl
theorem withCks_flags : (withCks r dst).flags = r.flags := by unfold withCks; split <;> rfl
theorem withCks_dict : (withCks r dst).dict = r.dict := by unfold withCks; split <;> rfl
theorem withCks_idx : (withCks r dst).idx = r.idx := by unfold withCks; split <;> rfl
theorem withCks_st : (withCks r dst).st = r.st := by unfold withCks; split <;> rfl
theorem withCks_num : (withCks r dst).num = r.num := by unfold withCks; split <;> rfl
theorem withCks_err : (withCks r dst).err = r.err := by unfold withCks; split <;> rfl
theorem withCks_data : (withCks r dst).data = r.data := by unfold withCks; split <;> rfl
theorem withCks_cks : (withCks r dst).cks =
    if flagContentChecksum r.flags = true then XXH.write r.cks dst.toList else r.cks := by
  unfold withCks; split <;> rfl
theorem afterBlock_src : (afterBlock r dst d).src = r.src := by
  unfold afterBlock; simp only []; split <;> split <;> (try split) <;> rfl
theorem afterBlock_magic : (afterBlock r dst d).magic = r.magic := by
  unfold afterBlock; simp only []; split <;> split <;> (try split) <;> rfl
theorem afterBlock_flags : (afterBlock r dst d).flags = r.flags := by
  unfold afterBlock; simp only []; split <;> split <;> (try split) <;> rfl
theorem afterBlock_cks : (afterBlock r dst d).cks = r.cks := by
  unfold afterBlock; simp only []; split <;> split <;> (try split) <;> rfl
theorem afterBlock_idx : (afterBlock r dst d).idx = r.idx := by
  unfold afterBlock; simp only []; split <;> split <;> (try split) <;> rfl
theorem afterBlock_st : (afterBlock r dst d).st = r.st := by
  unfold afterBlock; simp only []; split <;> split <;> (try split) <;> rfl
theorem afterBlock_num : (afterBlock r dst d).num = r.num := by
  unfold afterBlock; simp only []; split <;> split <;> (try split) <;> rfl
theorem afterBlock_err : (afterBlock r dst d).err = r.err := by
  unfold afterBlock; simp only []; split <;> split <;> (try split) <;> rfl
theorem afterBlock_dict : (afterBlock r dst d).dict =
    if flagBlockIndependence r.flags = true then r.dict else
      (if r.dict.size + dst.size > 128 * 1024 then
        r.dict.extract (r.dict.size - (64 * 1024 - dst.size)) r.dict.size else r.dict) ++ dst := by
  unfold afterBlock; simp only []
  cases hf : flagBlockIndependence r.flags <;>
    simp only [Bool.false_eq_true, not_false_eq_true, not_true_eq_false, if_true, if_false] <;>
    split <;> (try split) <;> rfl
theorem afterBlock_data : (afterBlock r dst d).data =
    if d = true then (if dst.size = 0 then #[] else r.data) else dst := by
  unfold afterBlock; simp only []
  split <;> split <;> (try split) <;> rfl
end fields

theorem readBlock_eq (r : R) (want : Nat) : readBlock r want =
    (let (r, e) := blockRead r (r.src.data.size + 2)
    match e with
    | some e => (r, #[], some e)
    | none =>
      let cap := poolSize (blockSizeIndex r.flags)
      let direct := want ≥ cap
      let (r, out, e) := uncompress r cap
      match e, out with
      | some e, _ => (r, #[], some e)
      | none, none => (r, #[], some .shortBuffer)
      | none, some dst =>
        if direct then (afterBlock r dst true, dst, none) else (afterBlock r dst false, #[], none)) := rfl

theorem xxh_eq (P : Array UInt8) : (XXH.checksumZero P.toList).toNat = Spec.Frame.xxh P := by
  unfold Spec.Frame.xxh; rw [Props.C13.oneshot]

/-- outcome of `readBlock` from a state that satisfies the invariant -/
theorem readBlock_spec (D : Array UInt8) (info : Spec.Frame.Info) (r : R) (content : Array UInt8) (want : Nat)
    (hinv : Inv D info r content) :
    (∃ r' e, readBlock r want = (r', #[], some e) ∧ e ≠ .eof) ∨
    (∃ s', Good s' ∧ s'.data = D ∧ r.src.pos + 4 ≤ D.size ∧ u32 (D.extract r.src.pos (r.src.pos + 4)) = 0 ∧
      s'.pos = r.src.pos + 4 ∧ readBlock r want = ({ r with src := s' }, #[], some .eof)) ∨
    (∃ r' dst, Inv D info r' (content ++ dst) ∧ r.src.pos + 4 ≤ r'.src.pos ∧ r'.src.pos ≤ D.size ∧
      (∀ T F, Spec.Frame.blocks info (F + 1) ((D.extract r.src.pos r'.src.pos).toList ++ T) content =
        Spec.Frame.blocks info F T (content ++ dst)) ∧
      r'.idx = r.idx ∧ r'.st = r.st ∧ r'.num = r.num ∧ r'.err = r.err ∧
      ((info.blockMax ≤ want ∧ readBlock r want = (r', dst, none) ∧
          r'.data = (if dst.size = 0 then #[] else r.data)) ∨
       (want < info.blockMax ∧ readBlock r want = (r', #[], none) ∧ r'.data = dst))) := by
  obtain ⟨hg, hd, hmag, hfm, hcks, hdI, hdD⟩ := hinv
  subst hd
  rw [readBlock_eq]
  rcases blockRead_modern r (isLegacy_of_magic r hmag) hg (r.src.data.size + 1) with
    ⟨r1, e, h1, hne⟩ | ⟨s1, g1, d1, h4, hz, p1, h1⟩ | ⟨s1, x, c, g1, d1, h4, hx, hx0, hcap, p1, ple, hc, h1⟩
  · rw [h1]; exact Or.inl ⟨r1, e, rfl, hne⟩
  · rw [h1]; exact Or.inr (Or.inl ⟨s1, g1, d1, h4, hz, p1, rfl⟩)
  rw [h1]
  simp only []
  have hbm : poolSize (blockSizeIndex r.flags) = info.blockMax := hfm.bmax
  have hble := hfm.bmax_le
  rw [hbm] at hcap ⊢
  have hPsz : (r.src.data.extract (r.src.pos + 4) (r.src.pos + 4 + x % 2147483648)).size = x % 2147483648 :=
    size_extract_of_le _ _ _ (by split at p1 <;> omega)
  rcases uncompress_spec { r with src := s1, bSize := x, bData := r.src.data.extract (r.src.pos + 4) (r.src.pos + 4 + x % 2147483648), bChecksum := c }
    info.blockMax (by omega) (by simp only []; rw [hPsz]; omega) (by simp only []; rw [hPsz]; exact hcap) with
    ⟨e, hu, hne⟩ | ⟨dst, hbck, hdst, hu⟩
  · rw [hu]; exact Or.inl ⟨_, e, rfl, hne⟩
  rw [hu]
  have hleg1 : isLegacy { r with src := s1, bSize := x, bData := r.src.data.extract (r.src.pos + 4) (r.src.pos + 4 + x % 2147483648), bChecksum := c } = false :=
    isLegacy_of_magic _ hmag
  simp only [hleg1, Bool.false_eq_true, if_false] at hbck hdst ⊢
  -- the specification's iteration
  have hstep : ∀ T F, Spec.Frame.blocks info (F + 1) ((r.src.data.extract r.src.pos s1.pos).toList ++ T) content =
      Spec.Frame.blocks info F T (content ++ dst) := by
    intro T F
    have hW := size_extract_of_le r.src.data r.src.pos 4 h4
    have hdst' : if x ≥ 2147483648 then dst = r.src.data.extract (r.src.pos + 4) (r.src.pos + 4 + x % 2147483648) else
        Spec.Block.decode (r.src.data.extract (r.src.pos + 4) (r.src.pos + 4 + x % 2147483648)).toList
          (if info.blockIndep = true then [] else (Spec.Frame.lastN content 65536).toList) info.blockMax = some dst := by
      by_cases hraw : x ≥ 2147483648
      · simp only [hraw, if_true] at hdst ⊢; exact hdst
      · simp only [hraw, if_false] at hdst ⊢
        by_cases hin : info.blockIndep = true
        · simp only [hin, if_true]
          rw [hdI hin] at hdst
          exact hdst
        · simp only [hin, if_false, Bool.false_eq_true]
          obtain ⟨pre, hpre, hp⟩ := hdD (by simpa using hin)
          rw [decode_lastN, hpre, decode_suffix _ _ _ _ hp]
          exact hdst
    by_cases hb : flagBlockChecksum r.flags = true
    · simp only [hb, if_true] at p1
      have hsplit : r.src.data.extract r.src.pos s1.pos =
          r.src.data.extract r.src.pos (r.src.pos + 4) ++
          (r.src.data.extract (r.src.pos + 4) (r.src.pos + 4 + x % 2147483648) ++
          r.src.data.extract (r.src.pos + 4 + x % 2147483648) (r.src.pos + 4 + x % 2147483648 + 4)) := by
        rw [p1, ← extract_split _ _ _ _ (by omega) (by omega), ← extract_split _ _ _ _ (by omega) (by omega)]
      rw [hsplit]
      simp only [Array.toList_append, List.append_assoc]
      apply blocks_step info F _ _ _ T content dst x hW hx.symm hx0 hPsz hcap _ hdst'
      have hb' : info.blockChecksum = true := by rw [← hfm.bck]; exact hb
      simp only [hb', if_true]
      refine ⟨size_extract_of_le _ _ _ (by omega), ?_⟩
      rw [← hc hb, ← hbck hb, xxh_eq]
    · simp only [hb, if_false, Bool.false_eq_true] at p1
      have hsplit : r.src.data.extract r.src.pos s1.pos =
          r.src.data.extract r.src.pos (r.src.pos + 4) ++
          (r.src.data.extract (r.src.pos + 4) (r.src.pos + 4 + x % 2147483648) ++ #[]) := by
        rw [p1, Array.append_empty, Nat.add_zero, ← extract_split _ _ _ _ (by omega) (by omega)]
      rw [hsplit]
      simp only [Array.toList_append, List.append_assoc]
      apply blocks_step info F _ _ _ T content dst x hW hx.symm hx0 hPsz hcap _ hdst'
      have hb' : ¬ info.blockChecksum = true := by rw [← hfm.bck]; exact hb
      simp only [hb', if_false, Bool.false_eq_true]
  -- the checksum state
  have hcks' : info.contentChecksum = true → (content ++ dst).size < 2 ^ 64 →
      Proofs.XXH.Inv (XXH.write r.cks dst.toList) (content ++ dst).toList := by
    intro h1 h2
    rw [Array.toList_append]
    have h3 : content.size < 2 ^ 64 := by simp only [Array.size_append] at h2; omega
    exact Proofs.XXH.inv_write _ _ _ (by simpa using h3) (hcks h1 h3)
  have hdD' : info.blockIndep = false → ∃ pre, content ++ dst = pre ++
      ((if r.dict.size + dst.size > 128 * 1024 then
        r.dict.extract (r.dict.size - (64 * 1024 - dst.size)) r.dict.size else r.dict) ++ dst) ∧
      (pre = #[] ∨ 65536 ≤ ((if r.dict.size + dst.size > 128 * 1024 then
        r.dict.extract (r.dict.size - (64 * 1024 - dst.size)) r.dict.size else r.dict) ++ dst).size) := by
    intro h
    obtain ⟨pre, hpre, hp⟩ := hdD h
    exact dict_update content pre r.dict dst hpre hp
  have hp4 : r.src.pos + 4 ≤ s1.pos := by omega
  have hinv' : ∀ d, Inv r.src.data info (afterBlock (withCks { r with src := s1, bSize := x, bData := r.src.data.extract (r.src.pos + 4) (r.src.pos + 4 + x % 2147483648), bChecksum := c } dst) dst d) (content ++ dst) := by
    intro d
    refine ⟨?_, ?_, ?_, ?_, ?_, ?_, ?_⟩
    · rw [afterBlock_src, withCks_src]; exact g1
    · rw [afterBlock_src, withCks_src]; exact d1
    · rw [afterBlock_magic, withCks_magic]; exact hmag
    · rw [afterBlock_flags, withCks_flags]; exact hfm
    · intro h1 h2
      rw [afterBlock_cks, withCks_cks]
      have : flagContentChecksum r.flags = true := by rw [hfm.cck]; exact h1
      simp only [this, if_true]
      exact hcks' h1 h2
    · intro h1
      rw [afterBlock_dict, withCks_dict, withCks_flags]
      have : flagBlockIndependence r.flags = true := by rw [hfm.indep]; exact h1
      simp only [this, if_true]
      exact hdI h1
    · intro h1
      rw [afterBlock_dict, withCks_dict, withCks_flags]
      have : ¬ flagBlockIndependence r.flags = true := by rw [hfm.indep, h1]; simp
      simp only [this, if_false]
      exact hdD' h1
  by_cases hdir : want ≥ info.blockMax
  · simp only [hdir, decide_true, if_true]
    refine Or.inr (Or.inr ⟨_, dst, hinv' true, ?_, ?_, ?_, ?_, ?_, ?_, ?_, Or.inl ⟨trivial, rfl, ?_⟩⟩)
    · rw [afterBlock_src, withCks_src]; exact hp4
    · rw [afterBlock_src, withCks_src]; exact ple
    · rw [afterBlock_src, withCks_src]; exact hstep
    · rw [afterBlock_idx, withCks_idx]
    · rw [afterBlock_st, withCks_st]
    · rw [afterBlock_num, withCks_num]
    · rw [afterBlock_err, withCks_err]
    · rw [afterBlock_data, withCks_data]; simp only [if_true]
  · simp only [hdir, decide_false, if_false, Bool.false_eq_true]
    refine Or.inr (Or.inr ⟨_, dst, hinv' false, ?_, ?_, ?_, ?_, ?_, ?_, ?_, Or.inr ⟨by omega, rfl, ?_⟩⟩)
    · rw [afterBlock_src, withCks_src]; exact hp4
    · rw [afterBlock_src, withCks_src]; exact ple
    · rw [afterBlock_src, withCks_src]; exact hstep
    · rw [afterBlock_idx, withCks_idx]
    · rw [afterBlock_st, withCks_st]
    · rw [afterBlock_num, withCks_num]
    · rw [afterBlock_err, withCks_err]
    · rw [afterBlock_data]; simp only [Bool.false_eq_true, if_false]

end Lz4V.Proofs.FrameR
