import Lz4V.Model.DecodeGo
import Lz4V.Proofs.BlockSpec
/-!
# Proofs.DecodeGo — the portable Go block decoder refines the block-format specification
-/
namespace Lz4V.Proofs.DecodeGo
open Lz4V.Go Lz4V.Gen Lz4V.Spec.Block Lz4V.Model.DecodeGo Lz4V.Proofs.Slice Lz4V.Proofs.BlockSpec

/-- the specification's history seen from the model: dictionary ++ the first `di` output bytes -/
def H (dict d : Array UInt8) (di : Nat) : Array UInt8 := dict ++ d.extract 0 di

theorem H_size (dict d : Array UInt8) (di : Nat) (hdi : di ≤ d.size) :
    (H dict d di).size = dict.size + di := by
  simp [H]; omega

theorem H_get (dict d : Array UInt8) (di i : Nat) :
    (H dict d di)[i]! = if i < dict.size then dict[i]! else if i - dict.size < di then d[i - dict.size]! else default := by
  have h2 := extract_get! d 0 di (i - dict.size)
  simp only [H]
  grind

theorem H_zero (dict d : Array UInt8) : H dict d 0 = dict := by
  simp [H]

theorem H_extract (dict d : Array UInt8) (di : Nat) (hdi : di ≤ d.size) :
    (H dict d di).extract dict.size (H dict d di).size = d.extract 0 di := by
  apply ext!
  · simp [H]
  · intro i hi
    rw [extract_get!, H_get, extract_get!, H_size _ _ _ hdi]
    simp [H] at hi
    have : dict.size + i - dict.size = i := by omega
    rw [this]
    grind

/-- a match seen from the model: the first `di` bytes unchanged, the next `n` bytes each equal the
byte `off` back in the (virtual) history -/
theorem H_copyMatch (dict d d' : Array UInt8) (di off n : Nat) (ho : 1 ≤ off) (ho2 : off ≤ dict.size + di)
    (hsz : d'.size = d.size) (hdi : di + n ≤ d.size)
    (hpre : ∀ j, j < di → d'[j]! = d[j]!)
    (hper : ∀ j, di ≤ j → j < di + n →
      d'[j]! = if dict.size + j - off < dict.size then dict[dict.size + j - off]! else d'[j - off]!) :
    H dict d' (di + n) = copyMatch (H dict d di) off n := by
  have hs1 : (H dict d di).size = dict.size + di := H_size _ _ _ (by omega)
  apply copyMatch_unique _ _ _ _ ho (by omega)
  · rw [hs1, H_size _ _ _ (by omega)]; omega
  · intro i hi
    rw [hs1] at hi
    rw [H_get, H_get]
    by_cases hc : i < dict.size
    · simp [hc]
    · have := hpre (i - dict.size) (by omega)
      grind
  · intro i hi hi2
    rw [hs1] at hi hi2
    rw [H_get, H_get]
    have h1 := hper (i - dict.size) (by omega) (by omega)
    have e1 : dict.size + (i - dict.size) - off = i - off := by omega
    rw [e1] at h1
    have hc : ¬ i < dict.size := by omega
    have hc2 : i - dict.size < di + n := by omega
    simp only [hc, hc2, if_true, if_false]
    rw [h1]
    by_cases hc3 : i - off < dict.size
    · simp [hc3]
    · have hc4 : i - off - dict.size < di + n := by omega
      have e2 : i - dict.size - off = i - off - dict.size := by omega
      simp only [hc3, hc4, if_true, if_false, e2]

theorem drop_cons (src : Array UInt8) (si : Nat) (h : si < src.size) :
    src.toList.drop si = src[si]! :: src.toList.drop (si + 1) := by
  rw [getElem!_pos src si h]
  rw [List.drop_eq_getElem_cons (by simpa using h)]
  simp

theorem drop_nil (src : Array UInt8) (si : Nat) (h : src.size ≤ si) : src.toList.drop si = [] := by
  simp [List.drop_eq_nil_iff]; omega

theorem append_toList' (A X : Array UInt8) : A ++ X.toList = A ++ X := by
  apply Array.ext'; simp

theorem take_drop_extract (src : Array UInt8) (si n : Nat) :
    (src.toList.drop si).take n = (src.extract si (si + n)).toList := by
  rw [Array.toList_extract, List.extract_eq_take_drop]
  congr 1; omega

theorem append_get! (A B : Array UInt8) (i : Nat) :
    (A ++ B)[i]! = if i < A.size then A[i]! else B[i - A.size]! := by
  grind

/-- the literals seen from the model -/
theorem H_lits (dict d d' src : Array UInt8) (di si n : Nat)
    (hsz : d'.size = d.size) (hdi : di + n ≤ d.size) (hsi : si + n ≤ src.size)
    (hpre : ∀ j, j < di → d'[j]! = d[j]!)
    (hlit : ∀ j, di ≤ j → j < di + n → d'[j]! = src[si + (j - di)]!) :
    H dict d' (di + n) = H dict d di ++ (src.toList.drop si).take n := by
  rw [take_drop_extract, append_toList']
  have hs := H_size dict d di (by omega)
  have hs' := H_size dict d' (di + n) (by omega)
  apply ext!
  · rw [hs', Array.size_append, hs, Array.size_extract]; omega
  · intro i hi
    rw [hs'] at hi
    rw [append_get!, hs, H_get, H_get, extract_get!]
    by_cases hc : i < dict.size
    · have : i < dict.size + di := by omega
      simp [hc, this]
    · by_cases hc2 : i < dict.size + di
      · have := hpre (i - dict.size) (by omega)
        have h3 : i - dict.size < di + n := by omega
        have h4 : i - dict.size < di := by omega
        simp [hc, hc2, h3, h4, this]
      · have := hlit (i - dict.size) (by omega) (by omega)
        have h3 : i - dict.size < di + n := by omega
        have h4 : si + (i - (dict.size + di)) < si + n := by omega
        have h5 : i - dict.size - di = i - (dict.size + di) := by omega
        simp [hc, hc2, h3, h4, this, h5]

/-! ## lenLoop = readLen -/

theorem lenLoop_spec (src : Array UInt8) (si acc : Nat) :
    readLen acc (src.toList.drop si) =
      (lenLoop src si acc).map (fun p => (p.1, src.toList.drop p.2)) := by
  fun_induction lenLoop src si acc with
  | case1 si acc h x hx ih =>
    rw [drop_cons src si h, getElem!_pos src si h, readLen]
    simp only [x] at hx
    simp [hx, ih]
  | case2 si acc h x hx =>
    rw [drop_cons src si h, getElem!_pos src si h, readLen]
    simp only [x] at hx
    simp [hx, x]
  | case3 si acc h =>
    rw [drop_nil src si (by omega), readLen]
    simp

theorem lenLoop_bounds (src : Array UInt8) (si acc v si' : Nat) (h : lenLoop src si acc = some (v, si')) :
    si < si' ∧ si' ≤ src.size := by
  fun_induction lenLoop src si acc with
  | case1 si acc h x hx ih => have := ih h; omega
  | case2 si acc h x hx => simp at h; omega
  | case3 si acc h => simp at h

theorem lenLoop_shift (src : Array UInt8) (si acc k : Nat) :
    lenLoop src si (acc + k) = (lenLoop src si acc).map (fun p => (p.1 + k, p.2)) := by
  fun_induction lenLoop src si acc with
  | case1 si acc h x hx ih =>
    rw [lenLoop]
    simp only [x] at hx
    have : acc + k + 255 = acc + 255 + k := by omega
    simp [h, hx, this, ih]
  | case2 si acc h x hx =>
    rw [lenLoop]
    simp only [x] at hx
    simp [h, hx, x]; omega
  | case3 si acc h =>
    rw [lenLoop]
    simp [h]

/-- a length field read at index `si` -/
def fieldM (src : Array UInt8) (nib si : Nat) : Option (Nat × Nat) :=
  if nib = 15 then lenLoop src si nib else some (nib, si)

theorem readField_spec (src : Array UInt8) (nib si : Nat) :
    readField nib (src.toList.drop si) =
      (fieldM src nib si).map (fun p => (p.1, src.toList.drop p.2)) := by
  unfold readField fieldM
  by_cases h : nib = 15
  · subst h; simp [lenLoop_spec]
  · simp [h]

theorem fieldM_bounds (src : Array UInt8) (nib si v si' : Nat) (hsi : si ≤ src.size)
    (h : fieldM src nib si = some (v, si')) : si ≤ si' ∧ si' ≤ src.size := by
  unfold fieldM at h
  by_cases hc : nib = 15
  · simp only [hc, if_true] at h
    have := lenLoop_bounds _ _ _ _ _ h; omega
  · simp [hc] at h; omega

theorem matchField (src : Array UInt8) (nib si : Nat) :
    (if nib + minMatch = minMatch + 15 then lenLoop src si (nib + minMatch) else some (nib + minMatch, si)) =
      (fieldM src nib si).map (fun p => (p.1 + 4, p.2)) := by
  unfold fieldM minMatch
  by_cases hc : nib = 15
  · subst hc; simp [lenLoop_shift src si 15 4]
  · have : ¬ nib + 4 = 4 + 15 := by omega
    simp [hc, this]

/-! ## the doubling loop -/

theorem doubling_size (a : Array UInt8) (base lim n fuel : Nat) :
    (doubling a base lim n fuel).2.size = a.size := by
  induction fuel generalizing a n with
  | zero => simp [doubling]
  | succ f ih =>
    simp only [doubling]
    split
    · split
      · rfl
      · rw [ih, copyWithin_size]
    · rfl

/-- the invariant of the doubling loop: `[base, base+n)` is the `offset`-periodic extension of
`[base, base+offset)` of the original array -/
def Dbl (d0 a : Array UInt8) (base offset n : Nat) : Prop :=
  a.size = d0.size ∧ (∀ j, j < base + offset → a[j]! = d0[j]!) ∧
  (∀ j, base ≤ j → j < base + n → j < a.size → a[j]! = d0[base + (j - base) % offset]!)

theorem doubling_spec (d0 : Array UInt8) (base offset lim : Nat) (ho : 1 ≤ offset) (f : Nat) :
    ∀ (a : Array UInt8) (n : Nat), offset ∣ n → offset ≤ n → lim < n * 2 ^ f → base + lim ≤ a.size →
      Dbl d0 a base offset n →
      ∃ a' n', doubling a base lim n (f + 1) = (true, a') ∧ lim < n' ∧ Dbl d0 a' base offset n' := by
  induction f with
  | zero =>
    intro a n hd hn hl hb hP
    refine ⟨a, n, ?_, by omega, hP⟩
    have : ¬ n ≤ lim := by omega
    simp [doubling, this]
  | succ f ih =>
    intro a n hd hn hl hb hP
    by_cases hc : n ≤ lim
    · have hc2 : ¬ base + n > a.size := by omega
      rw [doubling]
      simp only [hc, hc2, if_true, if_false]
      apply ih
      · exact Nat.dvd_trans hd (Nat.dvd_mul_left n 2)
      · omega
      · rw [Nat.pow_succ] at hl
        have : n * (2 ^ f * 2) = 2 * n * 2 ^ f := by
          rw [Nat.mul_comm (2^f) 2, ← Nat.mul_assoc, Nat.mul_comm n 2]
        omega
      · rw [copyWithin_size]; exact hb
      · obtain ⟨hs, hlt, hper⟩ := hP
        refine ⟨by rw [copyWithin_size, hs], ?_, ?_⟩
        · intro j hj
          rw [copyWithin_get]
          have : ¬ (base + n ≤ j) := by omega
          simp [this, hlt j hj]
        · intro j hj1 hj2 hj3
          rw [copyWithin_size] at hj3
          rw [copyWithin_get]
          by_cases hc3 : base + n ≤ j
          · have h1 : j < base + n + min n (a.size - base - n) := by omega
            simp only [hc3, h1, hj3, and_self, if_true]
            rw [hper _ (by omega) (by omega) (by omega)]
            obtain ⟨c, hc⟩ := hd
            have e1 : base + (j - (base + n)) - base = j - base - n := by omega
            have e2 : j - base = (j - base - n) + offset * c := by omega
            rw [e1, e2, Nat.add_mul_mod_self_left]
            have e3 : j - base - n + offset * c - n = j - base - n := by omega
            rw [e3]
          · simp only [hc3, false_and, if_false]
            exact hper j hj1 (by omega) hj3
    · refine ⟨a, n, ?_, by omega, hP⟩
      simp [doubling, hc]

/-! ## matchTail -/

theorem closed_to_hper (dict dst d' : Array UInt8) (di offset n : Nat) (ho : 1 ≤ offset) (hle : offset ≤ di)
    (hcl : ∀ j, di - offset ≤ j → j < di + n → d'[j]! = dst[di - offset + (j - (di - offset)) % offset]!) :
    ∀ j, di ≤ j → j < di + n →
      d'[j]! = if dict.size + j - offset < dict.size then dict[dict.size + j - offset]! else d'[j - offset]! := by
  intro j hj1 hj2
  have hc : ¬ dict.size + j - offset < dict.size := by omega
  simp only [hc, if_false]
  rw [hcl j (by omega) hj2, hcl (j - offset) (by omega) (by omega)]
  have e : j - (di - offset) = (j - offset - (di - offset)) + offset := by omega
  rw [e, Nat.add_mod_right]

theorem matchTail_sim (dict dst : Array UInt8) (si di offset mLen : Nat) (ho : 1 ≤ offset)
    (hle : offset ≤ di) (hdi : di ≤ dst.size) (hbig : dst.size < 2 ^ 63) :
    (di + mLen > dst.size ∧ ∃ d', matchPart.matchTail dst si di offset mLen = .inl (.err d') ∧ d'.size = dst.size) ∨
    (di + mLen ≤ dst.size ∧ ∃ d', matchPart.matchTail dst si di offset mLen = .inr (si, di + mLen, d') ∧
      d'.size = dst.size ∧ H dict d' (di + mLen) = copyMatch (H dict dst di) offset mLen) := by
  unfold matchPart.matchTail
  have h0 : ¬ di > dst.size := by omega
  simp only [h0, if_false]
  by_cases hm : mLen > offset
  · simp only [hm, if_true]
    have hbtc : offset * (mLen / offset) ≤ mLen := Nat.mul_div_le mLen offset
    have hmod : mLen - offset * (mLen / offset) = mLen % offset := by
      have := Nat.div_add_mod mLen offset; omega
    have hmodlt : mLen % offset < offset := Nat.mod_lt _ (by omega)
    generalize hB : offset * (mLen / offset) = btc at *
    by_cases hb : di + btc ≤ dst.size
    · have hpow : btc + offset < offset * 2 ^ 63 := by
        have : 2 ^ 63 ≤ offset * 2 ^ 63 := Nat.le_mul_of_pos_left _ (by omega)
        omega
      have hD0 : Dbl dst dst (di - offset) offset offset := by
        refine ⟨rfl, fun _ _ => rfl, fun j h1 h2 _ => ?_⟩
        rw [Nat.mod_eq_of_lt (by omega)]
        congr 1; omega
      obtain ⟨a', n', hd, hn', hs', hlt', hper'⟩ :=
        doubling_spec dst (di - offset) offset (btc + offset) ho 63 dst offset (Nat.dvd_refl _)
          (Nat.le_refl _) hpow (by omega) hD0
      rw [hd]
      simp only
      have e0 : di + btc + (mLen - btc) = di + mLen := by omega
      rw [e0]
      by_cases hc : di + mLen > a'.size
      · left
        simp only [hc, if_true]
        exact ⟨by omega, a', rfl, hs'⟩
      · right
        simp only [hc, if_false]
        refine ⟨by omega, _, rfl, by rw [copyWithin_size, hs'], ?_⟩
        apply H_copyMatch _ _ _ _ _ _ ho (by omega) (by rw [copyWithin_size, hs']) (by omega)
        · intro j hj
          rw [copyWithin_get]
          have : ¬ di + btc ≤ j := by omega
          simp only [this, false_and, if_false]
          exact hlt' j (by omega)
        · apply closed_to_hper dict dst _ di offset mLen ho hle
          intro j hj1 hj2
          rw [copyWithin_get]
          by_cases hc2 : di + btc ≤ j
          · have h1 : j < di + btc + (mLen - btc) := by omega
            have h2 : j < a'.size := by omega
            simp only [hc2, h1, h2, and_self, if_true]
            rw [hlt' _ (by omega)]
            have e1 : j - (di - offset) = (j - (di + btc)) + offset * (mLen / offset) + offset := by omega
            rw [e1, Nat.add_mod_right, Nat.add_mul_mod_self_left, Nat.mod_eq_of_lt (by omega)]
          · simp only [hc2, false_and, if_false]
            exact hper' j hj1 (by omega) (by omega)
    · left
      refine ⟨by omega, ?_⟩
      have hs := doubling_size dst (di - offset) (btc + offset) offset 64
      generalize doubling dst (di - offset) (btc + offset) offset 64 = r at hs
      obtain ⟨flag, a'⟩ := r
      simp only at hs
      cases flag
      · exact ⟨a', rfl, hs⟩
      · have : di + btc + (mLen - btc) > a'.size := by omega
        simp only [this, if_true]
        exact ⟨a', rfl, hs⟩
  · simp only [hm, if_false]
    by_cases hc : di + mLen > dst.size
    · left
      refine ⟨hc, ?_⟩
      simp only [hc, if_true]
      exact ⟨dst, rfl, rfl⟩
    · right
      simp only [hc, if_false]
      refine ⟨by omega, _, rfl, copyWithin_size _ _ _ _, ?_⟩
      apply H_copyMatch _ _ _ _ _ _ ho (by omega) (copyWithin_size _ _ _ _) (by omega)
      · intro j hj
        rw [copyWithin_get]
        have : ¬ di ≤ j := by omega
        simp [this]
      · intro j hj1 hj2
        have hc' : ¬ dict.size + j - offset < dict.size := by omega
        simp only [hc', if_false]
        rw [copyWithin_get, copyWithin_get]
        have h1 : j < dst.size := by omega
        have h2 : ¬ di ≤ j - offset := by omega
        have e : di - offset + (j - di) = j - offset := by omega
        simp [hj1, hj2, h1, h2, e]

/-! ## the match copy (dictionary part + matchTail) -/

/-- the "Copy the match" part of `matchPart` -/
def matchCopy (dict dst : Array UInt8) (si di offset mLen : Nat) : Res ⊕ (Nat × Nat × Array UInt8) :=
  if di < offset then
    if dict.size + di < offset then .inl (.err dst) else
    let from_ := dict.size + di - offset
    if di + mLen > dst.size then .inl (.err dst) else
    let n := min mLen (dict.size - from_)
    let dst := blit dst di dict from_ n
    let di := di + n
    let mLen := mLen - n
    if mLen = 0 then .inr (si, di, dst) else
    matchPart.matchTail dst si di offset mLen
  else matchPart.matchTail dst si di offset mLen

theorem matchCopy_sim (dict dst : Array UInt8) (si di offset mLen : Nat) (ho : 1 ≤ offset)
    (ho2 : offset ≤ dict.size + di) (hdi : di ≤ dst.size) (hbig : dst.size < 2 ^ 63) :
    (di + mLen > dst.size ∧ ∃ d', matchCopy dict dst si di offset mLen = .inl (.err d') ∧ d'.size = dst.size) ∨
    (di + mLen ≤ dst.size ∧ ∃ d', matchCopy dict dst si di offset mLen = .inr (si, di + mLen, d') ∧
      d'.size = dst.size ∧ H dict d' (di + mLen) = copyMatch (H dict dst di) offset mLen) := by
  unfold matchCopy
  by_cases h5 : di < offset
  · have h6 : ¬ dict.size + di < offset := by omega
    simp only [h5, h6, if_true, if_false]
    by_cases h7 : di + mLen > dst.size
    · left
      refine ⟨h7, ?_⟩
      simp only [h7, if_true]
      exact ⟨dst, rfl, rfl⟩
    · right
      refine ⟨by omega, ?_⟩
      simp only [h7, if_false]
      have e1 : dict.size - (dict.size + di - offset) = offset - di := by omega
      rw [e1]
      generalize hn : min mLen (offset - di) = n
      have hn1 : n ≤ mLen := by omega
      have hn2 : n ≤ offset - di := by omega
      -- first stage: `n` bytes from the dictionary
      have hst1 : H dict (blit dst di dict (dict.size + di - offset) n) (di + n) =
          copyMatch (H dict dst di) offset n := by
        apply H_copyMatch _ _ _ _ _ _ ho ho2 (blit_size _ _ _ _ _) (by omega)
        · intro j hj
          rw [blit_get]
          have : ¬ di ≤ j := by omega
          simp [this]
        · intro j hj1 hj2
          rw [blit_get]
          have h1 : j < dst.size := by omega
          have h2 : dict.size + j - offset < dict.size := by omega
          have e : dict.size + di - offset + (j - di) = dict.size + j - offset := by omega
          simp [hj1, hj2, h1, h2, e]
      by_cases h8 : mLen - n = 0
      · have : n = mLen := by omega
        subst this
        simp only [h8, if_true]
        exact ⟨_, rfl, blit_size _ _ _ _ _, hst1⟩
      · simp only [h8, if_false]
        have hdn : di + n = offset := by omega
        have hsz1 := blit_size dst di dict (dict.size + di - offset) n
        rcases matchTail_sim dict (blit dst di dict (dict.size + di - offset) n) si (di + n) offset (mLen - n)
          ho (by omega) (by omega) (by omega) with ⟨hgt, _⟩ | ⟨_, d', hd', hs', hH⟩
        · omega
        · refine ⟨d', ?_, by omega, ?_⟩
          · rw [hd']
            have : di + n + (mLen - n) = di + mLen := by omega
            rw [this]
          · have e2 : di + mLen = di + n + (mLen - n) := by omega
            have e3 : mLen = n + (mLen - n) := by omega
            rw [e2, hH, hst1, ← copyMatch_add, ← e3]
  · simp only [h5, if_false]
    exact matchTail_sim dict dst si di offset mLen ho (by omega) hdi hbig

theorem matchCopy_over (dict dst : Array UInt8) (si di offset mLen : Nat) (hdi : di > dst.size) :
    ∃ d', matchCopy dict dst si di offset mLen = .inl (.err d') ∧ d'.size = dst.size := by
  unfold matchCopy matchPart.matchTail
  have h7 : di + mLen > dst.size := by omega
  by_cases h5 : di < offset
  · by_cases h6 : dict.size + di < offset
    · simp only [h5, h6, if_true]; exact ⟨dst, rfl, rfl⟩
    · simp only [h5, h6, h7, if_true, if_false]; exact ⟨dst, rfl, rfl⟩
  · simp only [h5, hdi, if_true, if_false]; exact ⟨dst, rfl, rfl⟩

/-! ## the match part of a sequence -/

theorem matchPart_eq (src dict dst : Array UInt8) (b si di : Nat) :
    matchPart src dict dst b si di =
      if si = src.size ∧ b % 16 = 0 then .inl (.ok di dst)
      else if si ≥ src.size then .inl (.err dst)
      else if si + 2 > src.size then .inl (.err dst)
      else if le16 src si = 0 then .inl (.err dst)
      else match fieldM src (b % 16) (si + 2) with
        | none => .inl (.err dst)
        | some (ml, si') => matchCopy dict dst si' di (le16 src si) (ml + 4) := by
  unfold matchPart
  simp only [matchField]
  unfold matchCopy
  cases fieldM src (b % 16) (si + 2) with
  | none => rfl
  | some p => rfl

theorem specMatch_idx (src h : Array UInt8) (dl maxOut fuel nib si : Nat) (hsi : si + 2 ≤ src.size) :
    specMatch nib (src.toList.drop si) h dl maxOut fuel =
      if le16 src si = 0 then none else if le16 src si > h.size then none else
      match fieldM src nib (si + 2) with
      | none => none
      | some (ml, si') =>
        if h.size + (ml + 4) - dl > maxOut then none else
        if si' = src.size then some (copyMatch h (le16 src si) (ml + 4))
        else decodeAux fuel (src.toList.drop si') (copyMatch h (le16 src si) (ml + 4)) dl maxOut := by
  rw [drop_cons src si (by omega), drop_cons src (si + 1) (by omega)]
  unfold specMatch
  simp only []
  have e : src[si]!.toNat + 256 * src[si + 1]!.toNat = le16 src si := rfl
  rw [e, readField_spec]
  by_cases h1 : le16 src si = 0
  · simp [h1]
  by_cases h2 : le16 src si > h.size
  · simp [h1, h2]
  simp only [h1, h2, if_false]
  cases hf : fieldM src nib (si + 2) with
  | none => simp
  | some p =>
    obtain ⟨ml, si'⟩ := p
    have hb := fieldM_bounds src nib (si + 2) ml si' (by omega) hf
    simp only [Option.map_some]
    by_cases h3 : h.size + (ml + 4) - dl > maxOut
    · simp [h3]
    simp only [h3, if_false]
    by_cases h4 : si' = src.size
    · simp only [h4, if_true]
      rw [drop_nil src src.size (by omega)]
    · simp only [h4, if_false]
      rw [drop_cons src si' (by omega)]

/-- what a (partial) iteration of the model must satisfy relative to the matching piece `spec` of
the specification: errors are `none`, a final count is `some`, a continuation `(si', di', d')`
means the specification continues at `src[si':]` with history `dict ++ d'[:di']` (or stops when
`si'` is the end of the block). -/
def Sim (src dict : Array UInt8) (maxOut si0 : Nat) (r : Res ⊕ (Nat × Nat × Array UInt8))
    (spec : Nat → Option (Array UInt8)) : Prop :=
  match r with
  | .inl (.ok di' d') => d'.size = maxOut ∧ di' ≤ maxOut ∧ ∀ fuel, spec fuel = some (H dict d' di')
  | .inl (.err d') => d'.size = maxOut ∧ ∀ fuel, spec fuel = none
  | .inr (si', di', d') => si0 < si' ∧ si' ≤ src.size ∧ d'.size = maxOut ∧ di' ≤ maxOut ∧
      ∀ fuel, spec fuel = if si' = src.size then some (H dict d' di')
        else decodeAux fuel (src.toList.drop si') (H dict d' di') dict.size maxOut

theorem matchPart_sim (src dict dst : Array UInt8) (b si di si0 : Nat) (hsi : si ≤ src.size)
    (hdi : di ≤ dst.size) (hbig : dst.size < 2 ^ 63) (hs0 : si0 ≤ si) :
    Sim src dict dst.size si0 (matchPart src dict dst b si di)
      (fun fuel => specMatch (b % 16) (src.toList.drop si) (H dict dst di) dict.size dst.size fuel) := by
  rw [matchPart_eq]
  have hHs := H_size dict dst di hdi
  by_cases h1 : si = src.size ∧ b % 16 = 0
  · simp only [h1, and_self, if_true, Sim]
    refine ⟨trivial, hdi, fun fuel => ?_⟩
    rw [drop_nil src src.size (by omega)]
    simp [specMatch]
  simp only [h1, if_false]
  by_cases h2 : si ≥ src.size
  · simp only [h2, if_true, Sim]
    refine ⟨trivial, fun fuel => ?_⟩
    rw [drop_nil src si h2]
    have : ¬ b % 16 = 0 := fun h => h1 ⟨by omega, h⟩
    simp [specMatch, this]
  simp only [h2, if_false]
  by_cases h3 : si + 2 > src.size
  · simp only [h3, if_true, Sim]
    refine ⟨trivial, fun fuel => ?_⟩
    rw [drop_cons src si (by omega), drop_nil src (si + 1) (by omega)]
    simp [specMatch]
  simp only [h3, if_false]
  have hidx := fun fuel => specMatch_idx src (H dict dst di) dict.size dst.size fuel (b % 16) si (by omega)
  by_cases h4 : le16 src si = 0
  · simp only [h4, if_true, Sim]
    refine ⟨trivial, fun fuel => ?_⟩
    rw [hidx]; simp [h4]
  simp only [h4, if_false]
  cases hf : fieldM src (b % 16) (si + 2) with
  | none =>
    simp only [Sim]
    refine ⟨trivial, fun fuel => ?_⟩
    rw [hidx, hf]; simp [h4]
  | some p =>
    obtain ⟨ml, si'⟩ := p
    have hb := fieldM_bounds src (b % 16) (si + 2) ml si' (by omega) hf
    simp only []
    by_cases h5 : le16 src si > dict.size + di
    · -- offset reaches before the dictionary
      have : matchCopy dict dst si' di (le16 src si) (ml + 4) = .inl (.err dst) := by
        unfold matchCopy
        have a1 : di < le16 src si := by omega
        have a2 : dict.size + di < le16 src si := by omega
        simp [a1, a2]
      rw [this]
      simp only [Sim]
      refine ⟨trivial, fun fuel => ?_⟩
      rw [hidx, hf, hHs]; simp [h4, h5]
    rcases matchCopy_sim dict dst si' di (le16 src si) (ml + 4) (by omega) (by omega) hdi hbig with
      ⟨hgt, d', hd', hs'⟩ | ⟨hle, d', hd', hs', hH⟩
    · rw [hd']
      simp only [Sim]
      refine ⟨hs', fun fuel => ?_⟩
      rw [hidx, hf, hHs]
      have : dict.size + di + (ml + 4) - dict.size > dst.size := by omega
      simp [h4, h5, this]
    · rw [hd']
      simp only [Sim]
      refine ⟨by omega, by omega, hs', hle, fun fuel => ?_⟩
      rw [hidx, hf, hHs]
      have : ¬ dict.size + di + (ml + 4) - dict.size > dst.size := by omega
      simp only [h4, h5, this, if_false, hH]

theorem matchPart_over (src dict dst : Array UInt8) (b si di : Nat) (hsi : si < src.size)
    (hdi : di > dst.size) :
    ∃ d', matchPart src dict dst b si di = .inl (.err d') ∧ d'.size = dst.size := by
  rw [matchPart_eq]
  have h1 : ¬ (si = src.size ∧ b % 16 = 0) := by omega
  have h2 : ¬ si ≥ src.size := by omega
  simp only [h1, h2, if_false]
  by_cases h3 : si + 2 > src.size
  · simp only [h3, if_true]; exact ⟨dst, rfl, rfl⟩
  by_cases h4 : le16 src si = 0
  · simp only [h3, h4, if_true, if_false]; exact ⟨dst, rfl, rfl⟩
  simp only [h3, h4, if_false]
  cases fieldM src (b % 16) (si + 2) with
  | none => exact ⟨dst, rfl, rfl⟩
  | some p => exact matchCopy_over dict dst p.2 di (le16 src si) (p.1 + 4) hdi

/-! ## the literal part of a sequence -/

theorem decodeAux_field_none (src h : Array UInt8) (dl maxOut fuel si : Nat) (hsi : si < src.size)
    (hf : fieldM src (src[si]!.toNat / 16) (si + 1) = none) :
    decodeAux (fuel + 1) (src.toList.drop si) h dl maxOut = none := by
  rw [drop_cons src si hsi, decodeAux_cons, readField_spec, hf]
  rfl

theorem decodeAux_lits (src h : Array UInt8) (dl maxOut fuel si ll si2 : Nat) (hsi : si < src.size)
    (hf : fieldM src (src[si]!.toNat / 16) (si + 1) = some (ll, si2)) :
    decodeAux (fuel + 1) (src.toList.drop si) h dl maxOut =
      if h.size + ll - dl > maxOut then none else
      if si2 + ll > src.size then none else
      specMatch (src[si]!.toNat % 16) (src.toList.drop (si2 + ll)) (h ++ (src.toList.drop si2).take ll)
        dl maxOut fuel := by
  have hb := fieldM_bounds src _ (si + 1) ll si2 (by omega) hf
  rw [drop_cons src si hsi, decodeAux_cons, readField_spec, hf]
  simp only [Option.map_some, takeLits_eq, List.length_drop, Array.length_toList, List.drop_drop]
  by_cases h1 : h.size + ll - dl > maxOut
  · simp [h1]
  by_cases h2 : si2 + ll > src.size
  · have : src.size - si2 < ll := by omega
    simp [h1, h2, this]
  · have : ¬ src.size - si2 < ll := by omega
    simp [h1, h2, this]

theorem lits_sim (src dict dst d1 : Array UInt8) (si di ll si2 : Nat)
    (r : Res ⊕ (Nat × Nat × Array UInt8)) (hsi : si < src.size)
    (hf : fieldM src (src[si]!.toNat / 16) (si + 1) = some (ll, si2))
    (hdi : di + ll ≤ dst.size) (hsl : si2 + ll ≤ src.size) (hsz : d1.size = dst.size)
    (hpre : ∀ j, j < di → d1[j]! = dst[j]!)
    (hlit : ∀ j, di ≤ j → j < di + ll → d1[j]! = src[si2 + (j - di)]!)
    (hr : Sim src dict dst.size si r (fun fuel =>
      specMatch (src[si]!.toNat % 16) (src.toList.drop (si2 + ll)) (H dict d1 (di + ll)) dict.size dst.size fuel)) :
    Sim src dict dst.size si r (fun fuel =>
      decodeAux (fuel + 1) (src.toList.drop si) (H dict dst di) dict.size dst.size) := by
  have : (fun fuel => decodeAux (fuel + 1) (src.toList.drop si) (H dict dst di) dict.size dst.size) =
      (fun fuel => specMatch (src[si]!.toNat % 16) (src.toList.drop (si2 + ll)) (H dict d1 (di + ll))
        dict.size dst.size fuel) := by
    funext fuel
    rw [decodeAux_lits _ _ _ _ _ _ _ _ hsi hf, H_size _ _ _ (by omega),
      H_lits dict dst d1 src di si2 ll hsz hdi hsl hpre hlit]
    have h1 : ¬ dict.size + di + ll - dict.size > dst.size := by omega
    have h2 : ¬ si2 + ll > src.size := by omega
    simp only [h1, h2, if_false]
  rw [this]; exact hr

theorem lits_err (src dict dst : Array UInt8) (si di ll si2 fuel : Nat) (hsi : si < src.size)
    (hf : fieldM src (src[si]!.toNat / 16) (si + 1) = some (ll, si2)) (hdi : di ≤ dst.size)
    (h : di + ll > dst.size ∨ si2 + ll > src.size) :
    decodeAux (fuel + 1) (src.toList.drop si) (H dict dst di) dict.size dst.size = none := by
  rw [decodeAux_lits _ _ _ _ _ _ _ _ hsi hf, H_size _ _ _ hdi]
  by_cases h1 : dict.size + di + ll - dict.size > dst.size
  · simp [h1]
  · have h2 : si2 + ll > src.size := by omega
    simp [h1, h2]

theorem Sim_err (src dict : Array UInt8) (maxOut si0 : Nat) (d' : Array UInt8)
    (spec : Nat → Option (Array UInt8)) (hs : d'.size = maxOut) (h : ∀ fuel, spec fuel = none) :
    Sim src dict maxOut si0 (.inl (.err d')) spec := ⟨hs, h⟩

/-- the plain (non-shortcut) literal path, for any literal length -/
theorem lits_path_sim (src dict dst : Array UInt8) (si di ll si2 : Nat) (hsi : si < src.size)
    (hdi : di ≤ dst.size) (hbig : dst.size < 2 ^ 63)
    (hf : fieldM src (src[si]!.toNat / 16) (si + 1) = some (ll, si2)) :
    Sim src dict dst.size si
      (if di + ll > dst.size ∨ si2 + ll > src.size then Sum.inl (Res.err dst)
       else matchPart src dict (blit dst di src si2 ll) src[si]!.toNat (si2 + ll) (di + ll))
      (fun fuel => decodeAux (fuel + 1) (src.toList.drop si) (H dict dst di) dict.size dst.size) := by
  have hb := fieldM_bounds src _ (si + 1) ll si2 (by omega) hf
  by_cases hc : di + ll > dst.size ∨ si2 + ll > src.size
  · simp only [hc, if_true]
    exact Sim_err _ _ _ _ _ _ rfl (fun fuel => lits_err src dict dst si di ll si2 fuel hsi hf hdi hc)
  · simp only [hc, if_false]
    have hsz1 := blit_size dst di src si2 ll
    apply lits_sim src dict dst (blit dst di src si2 ll) si di ll si2 _ hsi hf (by omega) (by omega) hsz1
    · intro j hj
      rw [blit_get]
      have : ¬ di ≤ j := by omega
      simp [this]
    · intro j hj1 hj2
      rw [blit_get]
      have : j < dst.size := by omega
      simp [hj1, hj2, this]
    · have := matchPart_sim src dict (blit dst di src si2 ll) src[si]!.toNat (si2 + ll) (di + ll) si
        (by omega) (by omega) (by omega) (by omega)
      rw [hsz1] at this
      exact this

/-- Shortcut 2: an 18-byte `copyWithin` standing for a short non-overlapping match -/
theorem shortcut2_sim (src dict d1 : Array UInt8) (si2 di2 M si0 : Nat) (hM : M < 15)
    (hsi2 : si2 + 2 < src.size) (hs0 : si0 < si2)
    (h1 : M + 4 ≤ le16 src si2) (h2 : le16 src si2 < di2)
    (h3 : di2 - le16 src si2 + 18 ≤ d1.size) (h4 : di2 + (M + 4) ≤ d1.size) :
    Sim src dict d1.size si0
      (.inr (si2 + 2, di2 + (M + 4),
        copyWithin d1 di2 (di2 - le16 src si2) (min 18 (d1.size - di2))))
      (fun fuel => specMatch M (src.toList.drop si2) (H dict d1 di2) dict.size d1.size fuel) := by
  have hf : fieldM src M (si2 + 2) = some (M, si2 + 2) := by
    unfold fieldM
    have : ¬ M = 15 := by omega
    simp [this]
  refine ⟨by omega, by omega, copyWithin_size _ _ _ _, h4, fun fuel => ?_⟩
  show specMatch M _ _ _ _ fuel = _
  rw [specMatch_idx src _ _ _ _ _ _ (by omega), hf, H_size _ _ _ (by omega)]
  have c1 : ¬ le16 src si2 = 0 := by omega
  have c2 : ¬ le16 src si2 > dict.size + di2 := by omega
  have c3 : ¬ dict.size + di2 + (M + 4) - dict.size > d1.size := by omega
  have c4 : ¬ si2 + 2 = src.size := by omega
  simp only [c1, c2, c3, c4, if_false]
  congr 1
  symm
  apply H_copyMatch _ _ _ _ _ _ (by omega) (by omega) (copyWithin_size _ _ _ _) h4
  · intro j hj
    rw [copyWithin_get]
    have : ¬ di2 ≤ j := by omega
    simp [this]
  · intro j hj1 hj2
    have hc' : ¬ dict.size + j - le16 src si2 < dict.size := by omega
    simp only [hc', if_false]
    rw [copyWithin_get, copyWithin_get]
    have a1 : j < di2 + min 18 (d1.size - di2) := by omega
    have a2 : j < d1.size := by omega
    have a3 : ¬ di2 ≤ j - le16 src si2 := by omega
    have e : di2 - le16 src si2 + (j - di2) = j - le16 src si2 := by omega
    simp [hj1, a1, a2, a3, e]

/-- Shortcut 1 (short literals copied 16 bytes at a time), including Shortcut 2 -/
theorem shortcut_sim (src dict dst : Array UInt8) (si di : Nat) (hsi : si < src.size)
    (hdi : di ≤ dst.size) (hbig : dst.size < 2 ^ 63)
    (hL0 : src[si]!.toNat / 16 > 0) (hS1 : src[si]!.toNat / 16 < 15 ∧ si + 1 + 16 < src.size) :
    Sim src dict dst.size si
      (if di > dst.size then Sum.inl (Res.err dst)
        else
          if src[si]!.toNat % 16 < 15 then
            if
                src[si]!.toNat % 16 + 4 ≤ le16 src (si + 1 + src[si]!.toNat / 16) ∧
                  le16 src (si + 1 + src[si]!.toNat / 16) < di + src[si]!.toNat / 16 then
              if
                  di + src[si]!.toNat / 16 - le16 src (si + 1 + src[si]!.toNat / 16) + 18 ≤
                      (blit dst di src (si + 1) (min 16 (dst.size - di))).size ∧
                    di + src[si]!.toNat / 16 + (src[si]!.toNat % 16 + 4) ≤
                      (blit dst di src (si + 1) (min 16 (dst.size - di))).size then
                Sum.inr
                  (si + 1 + src[si]!.toNat / 16 + 2, di + src[si]!.toNat / 16 + (src[si]!.toNat % 16 + 4),
                    copyWithin (blit dst di src (si + 1) (min 16 (dst.size - di))) (di + src[si]!.toNat / 16)
                      (di + src[si]!.toNat / 16 - le16 src (si + 1 + src[si]!.toNat / 16))
                      (min 18 ((blit dst di src (si + 1) (min 16 (dst.size - di))).size - (di + src[si]!.toNat / 16))))
              else
                matchPart src dict (blit dst di src (si + 1) (min 16 (dst.size - di))) src[si]!.toNat
                  (si + 1 + src[si]!.toNat / 16) (di + src[si]!.toNat / 16)
            else
              matchPart src dict (blit dst di src (si + 1) (min 16 (dst.size - di))) src[si]!.toNat
                (si + 1 + src[si]!.toNat / 16) (di + src[si]!.toNat / 16)
          else
            matchPart src dict (blit dst di src (si + 1) (min 16 (dst.size - di))) src[si]!.toNat
              (si + 1 + src[si]!.toNat / 16) (di + src[si]!.toNat / 16))
      (fun fuel => decodeAux (fuel + 1) (src.toList.drop si) (H dict dst di) dict.size dst.size) := by
  have hnd : ¬ di > dst.size := by omega
  simp only [hnd, if_false]
  have hsz1 := blit_size dst di src (si + 1) (min 16 (dst.size - di))
  have hpre : ∀ j, j < di → (blit dst di src (si + 1) (min 16 (dst.size - di)))[j]! = dst[j]! := by
    intro j hj
    rw [blit_get]
    have : ¬ di ≤ j := by omega
    simp [this]
  have hlit : ∀ j, di ≤ j → j < di + min 16 (dst.size - di) →
      (blit dst di src (si + 1) (min 16 (dst.size - di)))[j]! = src[si + 1 + (j - di)]! := by
    intro j hj1 hj2
    rw [blit_get]
    have : j < dst.size := by omega
    simp [hj1, hj2, this]
  have hf : fieldM src (src[si]!.toNat / 16) (si + 1) = some (src[si]!.toNat / 16, si + 1) := by
    unfold fieldM
    have : ¬ src[si]!.toNat / 16 = 15 := by omega
    simp [this]
  generalize hd1 : blit dst di src (si + 1) (min 16 (dst.size - di)) = d1 at *
  by_cases hov : di + src[si]!.toNat / 16 > dst.size
  · -- the literals do not fit: every continuation is an error
    have hnone := fun fuel => lits_err src dict dst si di _ _ fuel hsi hf hdi (Or.inl hov)
    obtain ⟨d', hd', hs'⟩ := matchPart_over src dict d1 src[si]!.toNat (si + 1 + src[si]!.toNat / 16)
      (di + src[si]!.toNat / 16) (by omega) (by omega)
    have hS2 : ¬ (di + src[si]!.toNat / 16 - le16 src (si + 1 + src[si]!.toNat / 16) + 18 ≤ d1.size ∧
        di + src[si]!.toNat / 16 + (src[si]!.toNat % 16 + 4) ≤ d1.size) := by omega
    simp only [hS2, if_false, ite_self, hd']
    exact Sim_err _ _ _ _ _ _ (by omega) hnone
  · apply lits_sim src dict dst d1 si di _ _ _ hsi hf (by omega) (by omega) hsz1 hpre
      (fun j h1 h2 => hlit j h1 (by omega))
    by_cases hS2 : src[si]!.toNat % 16 < 15 ∧
        (src[si]!.toNat % 16 + 4 ≤ le16 src (si + 1 + src[si]!.toNat / 16) ∧
          le16 src (si + 1 + src[si]!.toNat / 16) < di + src[si]!.toNat / 16) ∧
        (di + src[si]!.toNat / 16 - le16 src (si + 1 + src[si]!.toNat / 16) + 18 ≤ d1.size ∧
          di + src[si]!.toNat / 16 + (src[si]!.toNat % 16 + 4) ≤ d1.size)
    · obtain ⟨a, b, c⟩ := hS2
      simp only [a, b, c, and_self, if_true]
      have := shortcut2_sim src dict d1 (si + 1 + src[si]!.toNat / 16) (di + src[si]!.toNat / 16)
        (src[si]!.toNat % 16) si a (by omega) (by omega) b.1 b.2 c.1 c.2
      rw [hsz1] at this ⊢
      exact this
    · have hm := matchPart_sim src dict d1 src[si]!.toNat (si + 1 + src[si]!.toNat / 16)
        (di + src[si]!.toNat / 16) si (by omega) (by omega) (by omega) (by omega)
      rw [hsz1] at hm
      by_cases a : src[si]!.toNat % 16 < 15
      · by_cases b : (src[si]!.toNat % 16 + 4 ≤ le16 src (si + 1 + src[si]!.toNat / 16) ∧
          le16 src (si + 1 + src[si]!.toNat / 16) < di + src[si]!.toNat / 16)
        · have c : ¬ (di + src[si]!.toNat / 16 - le16 src (si + 1 + src[si]!.toNat / 16) + 18 ≤ d1.size ∧
            di + src[si]!.toNat / 16 + (src[si]!.toNat % 16 + 4) ≤ d1.size) := fun c => hS2 ⟨a, b, c⟩
          simp only [a, b, c, and_self, if_true, if_false]
          exact hm
        · simp only [a, b, if_true, if_false]
          exact hm
      · simp only [a, if_false]
        exact hm

theorem step_sim (src dict dst : Array UInt8) (si di : Nat) (hsi : si < src.size)
    (hdi : di ≤ dst.size) (hbig : dst.size < 2 ^ 63) :
    Sim src dict dst.size si (step src dict dst si di)
      (fun fuel => decodeAux (fuel + 1) (src.toList.drop si) (H dict dst di) dict.size dst.size) := by
  unfold step
  simp only []
  by_cases hL0 : src[si]!.toNat / 16 > 0
  · simp only [hL0, if_true]
    by_cases hS1 : src[si]!.toNat / 16 < 15 ∧ si + 1 + 16 < src.size
    · simp only [hS1, and_self, if_true]
      exact shortcut_sim src dict dst si di hsi hdi hbig hL0 hS1
    · simp only [hS1, if_false]
      have e : (if src[si]!.toNat / 16 = 15 then lenLoop src (si + 1) (src[si]!.toNat / 16)
          else some (src[si]!.toNat / 16, si + 1)) = fieldM src (src[si]!.toNat / 16) (si + 1) := rfl
      rw [e]
      cases hf : fieldM src (src[si]!.toNat / 16) (si + 1) with
      | none =>
        exact Sim_err _ _ _ _ _ _ rfl (fun fuel => decodeAux_field_none src _ _ _ fuel si hsi hf)
      | some p =>
        obtain ⟨ll, si2⟩ := p
        exact lits_path_sim src dict dst si di ll si2 hsi hdi hbig hf
  · simp only [hL0, if_false]
    have hf : fieldM src (src[si]!.toNat / 16) (si + 1) = some (0, si + 1) := by
      have : src[si]!.toNat / 16 = 0 := by omega
      rw [this]; rfl
    apply lits_sim src dict dst dst si di 0 (si + 1) _ hsi hf (by omega) (by omega) rfl
    · intro j _; rfl
    · intro j h1 h2; omega
    · exact matchPart_sim src dict dst src[si]!.toNat (si + 1) di si (by omega) hdi hbig (by omega)

/-! ## the loop -/

theorem loop_sim (src dict : Array UInt8) (maxOut : Nat) (hbig : maxOut < 2 ^ 63) :
    ∀ (fuelM : Nat) (dst : Array UInt8) (si di fuelS : Nat), dst.size = maxOut → si < src.size →
      di ≤ dst.size → src.size - si < fuelM → src.size - si < fuelS →
      match loop src dict fuelM dst si di with
      | .ok di' d' => d'.size = maxOut ∧ di' ≤ maxOut ∧
          decodeAux fuelS (src.toList.drop si) (H dict dst di) dict.size maxOut = some (H dict d' di')
      | .err d' => d'.size = maxOut ∧
          decodeAux fuelS (src.toList.drop si) (H dict dst di) dict.size maxOut = none := by
  intro fuelM
  induction fuelM with
  | zero => intro dst si di fuelS _ _ _ h; omega
  | succ fm ih =>
    intro dst si di fuelS hsz hsi hdi hfm hfs
    cases fuelS with
    | zero => omega
    | succ fs =>
      have hs := step_sim src dict dst si di hsi hdi (by omega)
      rw [hsz] at hs
      rw [loop]
      simp only [hsi, if_true]
      cases hstep : step src dict dst si di with
      | inl r =>
        rw [hstep] at hs
        cases r with
        | ok di' d' => exact ⟨hs.1, hs.2.1, hs.2.2 fs⟩
        | err d' => exact ⟨hs.1, hs.2 fs⟩
      | inr p =>
        obtain ⟨si', di', d'⟩ := p
        rw [hstep] at hs
        obtain ⟨h1, h2, h3, h4, h5⟩ := hs
        have h5' : decodeAux (fs + 1) (src.toList.drop si) (H dict dst di) dict.size maxOut = _ := h5 fs
        simp only
        by_cases he : si' = src.size
        · cases fm with
          | zero => omega
          | succ fm' =>
            rw [loop]
            have : ¬ si' < src.size := by omega
            simp only [this, if_false]
            refine ⟨h3, h4, ?_⟩
            rw [h5']; simp [he]
        · have := ih d' si' di' fs h3 (by omega) (by omega) (by omega) (by omega)
          rw [h5']
          simp only [he, if_false]
          exact this

/-! ## memory safety (C03): result range and size preservation, with no size assumption -/

def Safe (n : Nat) (r : Res ⊕ (Nat × Nat × Array UInt8)) : Prop :=
  match r with
  | .inl (.ok di' d') => di' ≤ n ∧ d'.size = n
  | .inl (.err d') => d'.size = n
  | .inr (_, di', d') => di' ≤ n ∧ d'.size = n

theorem matchTail_safe (dst : Array UInt8) (si di offset mLen : Nat) :
    Safe dst.size (matchPart.matchTail dst si di offset mLen) := by
  unfold matchPart.matchTail
  simp only []
  have hs := doubling_size dst (di - offset) (offset * (mLen / offset) + offset) offset 64
  generalize doubling dst (di - offset) (offset * (mLen / offset) + offset) offset 64 = r at hs
  obtain ⟨flag, a'⟩ := r
  simp only at hs
  repeat' split
  all_goals simp only [Safe, copyWithin_size]
  all_goals first | omega | (simp_all; try omega)

theorem matchCopy_safe (dict dst : Array UInt8) (si di offset mLen : Nat) :
    Safe dst.size (matchCopy dict dst si di offset mLen) := by
  unfold matchCopy
  simp only []
  by_cases h5 : di < offset
  · simp only [h5, if_true]
    by_cases h6 : dict.size + di < offset
    · simp only [h6, if_true, Safe]
    simp only [h6, if_false]
    by_cases h7 : di + mLen > dst.size
    · simp only [h7, if_true, Safe]
    simp only [h7, if_false]
    split
    · exact ⟨by omega, blit_size _ _ _ _ _⟩
    · have := matchTail_safe (blit dst di dict (dict.size + di - offset) (min mLen (dict.size - (dict.size + di - offset))))
        si (di + min mLen (dict.size - (dict.size + di - offset))) offset
        (mLen - min mLen (dict.size - (dict.size + di - offset)))
      rw [blit_size] at this
      exact this
  · simp only [h5, if_false]
    exact matchTail_safe dst si di offset mLen

theorem matchPart_safe (src dict dst : Array UInt8) (b si di : Nat) (h : si = src.size → di ≤ dst.size) :
    Safe dst.size (matchPart src dict dst b si di) := by
  rw [matchPart_eq]
  repeat' split
  all_goals first
    | exact matchCopy_safe _ _ _ _ _ _
    | exact ⟨by omega, rfl⟩
    | exact (rfl : dst.size = dst.size)

theorem step_safe (src dict dst : Array UInt8) (si di : Nat) (hdi : di ≤ dst.size) :
    Safe dst.size (step src dict dst si di) := by
  unfold step
  simp only []
  have hsz1 := blit_size dst di src (si + 1) (min 16 (dst.size - di))
  have hm1 := matchPart_safe src dict (blit dst di src (si + 1) (min 16 (dst.size - di))) src[si]!.toNat
    (si + 1 + src[si]!.toNat / 16) (di + src[si]!.toNat / 16)
  rw [hsz1] at hm1
  by_cases hL0 : src[si]!.toNat / 16 > 0
  · simp only [hL0, if_true]
    by_cases hS1 : src[si]!.toNat / 16 < 15 ∧ si + 1 + 16 < src.size
    · simp only [hS1, and_self, if_true, hsz1]
      have hm := hm1 (by omega)
      repeat' split
      all_goals first
        | exact hm
        | exact ⟨by omega, by rw [copyWithin_size, hsz1]⟩
        | exact (rfl : dst.size = dst.size)
    · simp only [hS1, if_false]
      split
      · simp only [Safe]
      · split
        · simp only [Safe]
        · rename_i lLen si2 _ hc
          have := matchPart_safe src dict (blit dst di src si2 lLen) src[si]!.toNat (si2 + lLen) (di + lLen)
          rw [blit_size] at this
          exact this (by omega)
  · simp only [hL0, if_false]
    exact matchPart_safe src dict dst src[si]!.toNat (si + 1) di (fun _ => hdi)

theorem loop_safe (src dict : Array UInt8) (n : Nat) :
    ∀ (fuel : Nat) (dst : Array UInt8) (si di : Nat), dst.size = n → di ≤ n →
      match loop src dict fuel dst si di with
      | .ok di' d' => di' ≤ n ∧ d'.size = n
      | .err d' => d'.size = n := by
  intro fuel
  induction fuel with
  | zero => intro dst si di hs hd; simp only [loop]; exact hs
  | succ f ih =>
    intro dst si di hs hd
    rw [loop]
    by_cases hsi : si < src.size
    · simp only [hsi, if_true]
      have := step_safe src dict dst si di (by omega)
      rw [hs] at this
      cases hstep : step src dict dst si di with
      | inl r =>
        rw [hstep] at this
        cases r with
        | ok di' d' => exact this
        | err d' => exact this
      | inr p =>
        obtain ⟨si', di', d'⟩ := p
        rw [hstep] at this
        exact ih d' si' di' this.2 this.1
    · simp only [hsi, if_false]
      exact ⟨hd, hs⟩

/-! ## top level -/

theorem decodeBlock_safe (src dst dict : Array UInt8) :
    match decodeBlock dst src dict with
    | .ok di d => di ≤ dst.size ∧ d.size = dst.size
    | .err d => d.size = dst.size := by
  unfold decodeBlock
  by_cases h : src.size = 0
  · simp only [h, if_true]
  · simp only [h, if_false]
    exact loop_safe src dict dst.size (src.size + 1) dst 0 0 rfl (by omega)

theorem decodeBlock_spec (src dst dict : Array UInt8) (hsrc : src.size ≠ 0) (hbig : dst.size < 2 ^ 63) :
    match decodeBlock dst src dict with
    | .ok di d => decode src.toList dict.toList dst.size = some (d.extract 0 di)
    | .err _ => decode src.toList dict.toList dst.size = none := by
  unfold decodeBlock decode
  simp only [hsrc, if_false]
  have h := loop_sim src dict dst.size hbig (src.size + 1) dst 0 0 (src.size + 1) rfl (by omega)
    (by omega) (by omega) (by omega)
  rw [H_zero, List.drop_zero] at h
  simp only [Array.length_toList, Array.toArray_toList]
  cases hl : loop src dict (src.size + 1) dst 0 0 with
  | ok di d =>
    rw [hl] at h
    obtain ⟨h1, h2, h3⟩ := h
    simp only
    rw [h3, Option.map_some, H_extract _ _ _ (by omega)]
  | err d =>
    rw [hl] at h
    simp only
    rw [h.2]; rfl

end Lz4V.Proofs.DecodeGo
