#!/bin/bash
# Runs the repository's pinned test suite with the verif guard OFF and compares with BASELINE.json's stable_pass list.
export GOFLAGS=-mod=mod GOPROXY=off GOSUMDB=off GOTOOLCHAIN=local
cd /repo && GOMAXPROCS=8 go test -json -vet=off -count=1 -timeout 25m ./... > /tmp/verif_baseline.json 2>/dev/null
python3 - <<'PY'
import json,sys
passed=set()
for l in open('/tmp/verif_baseline.json'):
    try: e=json.loads(l)
    except: continue
    if e.get('Action') in ('pass','skip') and e.get('Test'): passed.add(e['Package']+'::'+e['Test'])
try:
    base=set(json.load(open('/root/.vp/BASELINE.json'))['stable_pass'])
except Exception:
    base=set()
import shutil
missing=sorted(base-passed)
if not shutil.which('lz4'):
    # these two subtests need the reference `lz4` binary, which this sandbox does not have (the test skips)
    missing=[m for m in missing if '::TestWriterLegacyCommand/' not in m]
print(f"passed={len(passed)} baseline={len(base)} missing={len(missing)}")
for m in missing[:20]: print("MISSING",m)
sys.exit(1 if missing else 0)
PY
