#!/bin/bash
# setup_cmd: build the framework from files on disk only (offline).
set -e
cd "$(dirname "$0")"
export GOFLAGS=-mod=mod GOPROXY=off GOSUMDB=off GOTOOLCHAIN=local
mkdir -p harness/bin .work evidence
cp /repo/go.sum harness/go.sum 2>/dev/null || true
(cd harness && go build -o bin/extract ./extract)
harness/bin/extract /repo lean/Lz4V/Gen
(cd lean && lake build Lz4V lz4v-driver)
(cd harness && go build -tags verif -o bin/vh . && go build -tags verif,noasm -o bin/vh-noasm .)
echo setup-ok
