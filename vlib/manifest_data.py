"""Level texts for MANIFEST.json (one entry per claimed property)."""
NOTES = ("Every check = regenerate Lz4V/Gen from /repo, lake build + axiom audit of the property's theorems, differential run of the "
         "Lean models against the real code, independent Lean specification as oracle on the real code's outputs, search on failure. "
         "See DESIGN.md.")
NOT_APPLICABLE = {}
_BLOCK_NOTE = ("Trusted: Lean kernel; the hand-written block-format specification (Lz4V/Spec/Block.lean); the hand-written models, tied to "
               "the code by regenerated constants/leaf functions and by byte-exact differential runs; Go runtime; lengths < 2^62.")
CHECKS = {
    "C01": dict(text="Models of both compressors (Lz4V/Model/Fast.lean, HC.lean) are byte-identical with the real code on every generated case "
                     "(objects reused across inputs, pooled functions, all depth classes); the real output is decoded by the package's decoder and by the "
                     "independent Lean specification. Theorems about the models are being added (see evidence.theorems); until C01's theorems are "
                     "listed the assurance is the differential + oracle run.", technique="Lean 4 model + spec oracle, differential correspondence",
                note=_BLOCK_NOTE),
    "C03": dict(text="Instruction-level model of decode_amd64.s over flat addresses with fault semantics, and statement-level model of the portable decoder; "
                     "both agree with the real decoders on return value and the whole dst[:cap) image; canaries beyond len(dst).",
                technique="Lean 4 model with out-of-bounds = fault, full-image differential correspondence", note=_BLOCK_NOTE),
    "C04": dict(text="Independent Lean block-format specification (lenient reading, dictionaries) used as oracle on every real decode; models agree with the "
                     "real decoders.", technique="Lean 4 spec as oracle + model correspondence", note=_BLOCK_NOTE),
    "C10": dict(text="Strict-validity predicate (Spec.Block.strictValid) evaluated by the independent spec on every block the real compressors emit, including "
                     "partial-destination successes.", technique="Lean 4 spec oracle + model correspondence", note=_BLOCK_NOTE),
    "C11": dict(text="Destinations with spare capacity and canaries; every destination length around the bound for small sources; models byte-identical.",
                technique="Lean 4 model correspondence + canary/bound oracle", note=_BLOCK_NOTE),
    "C12": dict(text="The two builds (default, noasm) are run on the same case stream and compared with each other and each with its own Lean model.",
                technique="differential across builds + two Lean models", note=_BLOCK_NOTE + " arm/arm64 assembly not covered."),
    "C13": dict(text="Model of checksumZeroGo and of the streaming XXHZero proved equal to the reference XXH32 specification; model tied to the code by "
                     "regenerated primes/rotations and differential runs incl. injected states around 2^32.",
                technique="Lean 4 theorem (model = XXH32 spec) + correspondence", note="Trusted: Lean kernel; Spec/XXH32.lean (checked against published vectors); correspondence harness; xxh32zero_arm.s not covered."),
    "C14": dict(text="Block level: the models are pure functions of (source, depth, destination size) and agree byte-for-byte with one long-lived Go compressor "
                     "object and with the pooled functions over unrelated inputs; a fresh object is compared on every case.",
                technique="Lean 4 model (pure function) correspondence", note=_BLOCK_NOTE),
}
