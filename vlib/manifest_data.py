"""Level texts for MANIFEST.json (one entry per claimed property)."""
NOTES = ("Every check = regenerate Lz4V/Gen from /repo (constants, leaf functions, and a hash of the comment-free syntax tree of every library function: the "
         "source ties, compared with baseline_ties.json), lake build + axiom audit of the property's theorems, differential run of the "
         "Lean models against the real code, independent Lean specification as oracle on the real code's outputs, search on failure. A code change in a function "
         "a property's models stand on that the runs cannot tell from the model is reported as VIOLATION ... no-failing-input-found. "
         "See DESIGN.md.")
NOT_APPLICABLE = {}
_BLOCK_NOTE = ("Trusted: Lean kernel; the hand-written block-format specification (Lz4V/Spec/Block.lean); the hand-written models, tied to "
               "the code by regenerated constants/leaf functions, by the source ties (hash of every modelled function's syntax tree against baseline_ties.json) "
               "and by byte-exact differential runs; Go runtime; lengths < 2^62.")
_FRAME_NOTE = ("Trusted: Lean kernel; the hand-written frame/legacy specification (Lz4V/Spec/Frame.lean) and block/XXH32 specifications; the "
               "hand-written Writer/Reader models (Lz4V/Model/FrameW.lean, FrameR.lean) tied to the code by regenerated constants, flag getters and "
               "state values, by the source ties (hash of every modelled function's syntax tree against baseline_ties.json) and by differential runs comparing "
               "every call's result and every sink write; scripted sinks/sources of the harness; "
               "Go runtime. Concurrency > 1 is compared on delivered bytes and results (not on read-ahead), see C08.")
CHECKS = {
    "C02": dict(text="Writer and Reader models agree with the real objects on every call result and every sink write over the option matrix, input sizes around block "
                     "multiples, write/flush partitions and ReadFrom; every clean frame is read back by the real Reader in three regimes and decoded by the independent spec.",
                technique="Lean 4 Writer/Reader models + frame spec oracle, differential correspondence", note=_FRAME_NOTE),
    "C05": dict(text="Every mutated frame the real Reader accepts is re-decoded by the independent Lean frame specification on exactly the consumed bytes; outputs must be "
                     "identical. Reader model agrees with the real Reader on every mutant.", technique="Lean 4 frame spec as acceptance oracle + Reader model correspondence", note=_FRAME_NOTE),
    "C06": dict(text="All prefixes of small frames, structural boundaries +-3 and sampled interior cuts of large ones (real Writer frames and independent-builder frames): "
                     "never a clean EOF, delivered bytes a prefix; Reader model agrees.", technique="Lean 4 Reader model correspondence + truncation oracle", note=_FRAME_NOTE),
    "C07": dict(text="Hostile streams (random, hostile fields, every first word 0x184Dxxxx sampled/complete, long single-field repetitions) under a per-call watchdog; "
                     "expected error classes for the magic rules; heap growth bounded; Reader model (a total Lean function) agrees.",
                technique="Lean 4 total Reader model correspondence + watchdog/heap oracle", note=_FRAME_NOTE),
    "C08": dict(text="Two labelled transition systems (Lz4V/Model/PipeW.lean, PipeR.lean) mirror the goroutine pipelines statement by statement; order, buffer ownership "
                     "(no use after release, no two owners), deadlock-freedom, termination and no-leak are proved for every schedule, every block count, every queue capacity. "
                     "Tie to the code: with the verif hooks every channel operation of a real run is logged and the log is validated against the transition system's event "
                     "order (Lean validTrace); seeded schedule perturbation at the hook sites; buffers poisoned when returned to the pools; goroutine count back to baseline; "
                     "the same sessions under the Go race detector. Partial by nature: races below buffer granularity, scheduler fairness and blocking sinks are seen only by "
                     "the race-detector/watchdog runs.", technique="Lean 4 LTS theorems over all schedules + event-trace validation, race detector", note=_FRAME_NOTE),
    "C18": dict(text="Model of CompressingReader and its overflow writer agrees with the real object on every Read call (count, bytes, error) for random buffer-size sequences "
                     "incl. 0/1/tiny/huge, options, fragmenting and failing sources; the concatenated output is decoded by the strict Lean frame spec.",
                technique="Lean 4 model correspondence + strict frame spec oracle", note=_FRAME_NOTE),
    "C19": dict(text="Header acceptance proved exact on the Reader model for all descriptor bytes, content sizes and checksum bytes (symbolic, no enumeration) and agreement with "
                     "the independent spec's header grammar; the real ValidFrameHeader/Reader/Size are enumerated over all 65536 descriptors (quick: 4 checksum bytes each; thorough: all 256, "
                     "exhaustive) incl. a long-lived Reader reused through Reset.", technique="Lean 4 theorem (symbolic) + exhaustive enumeration of the real code", note=_FRAME_NOTE),
    "C20": dict(text="lz4c is built from the working tree and run on generated files/flag sets (files and stdin/stdout); the .lz4 bytes must equal what the Lean Writer model emits for the "
                     "options the usage text promises, the strict Lean frame spec must accept them with those parameters, and bytes and permission bits must be restored. "
                     "Partial: pre-existing outputs (no O_TRUNC), multi-file runs (fail on the second file on the unchanged tree: recorded in DESIGN.md) and the progress bar are outside.",
                technique="Lean 4 Writer model predicts lz4c output + spec oracle + differential run of the binary", note=_FRAME_NOTE),
    "C09": dict(text="Every frame emitted in a clean session is decoded by the strict Lean frame specification (version, reserved bits, header checksum, configured content "
                     "size, block maximum, checksums over the designated bytes, end mark) resp. the legacy specification; Writer model byte-identical.",
                technique="Lean 4 strict frame spec oracle + Writer model correspondence", note=_FRAME_NOTE),
    "C15": dict(text="Every failure index k of the sink / source up to beyond the fault-free call count, sequential and concurrent; source fragmentations incl. 1-byte and data+EOF; "
                     "the models predict each call's result and the sink bytes.", technique="Lean 4 models with scripted failing I/O, correspondence", note=_FRAME_NOTE),
    "C16": dict(text="Dependent-block frames from an independent encoder (matches at exactly 65535, across block boundaries, raw/compressed mixes, tiny to large blocks) are decoded by "
                     "the real Reader (all buffer regimes, concurrency settings) to the spec's content; Reader model agrees.",
                technique="independent encoder + Lean 4 spec oracle + Reader model correspondence", note=_FRAME_NOTE),
    "C17": dict(text="Random call sequences incl. misuse on sequential and concurrent objects, each call under a watchdog; the Lean Writer/Reader models are the reference model "
                     "and predict every result and every sink byte; direct checks for double Close, write after Close, Flush prefix, Read after EOF.",
                technique="Lean 4 reference state-machine models, correspondence over call sequences", note=_FRAME_NOTE),
    "C01": dict(text="Models of both compressors (Lz4V/Model/Fast.lean, HC.lean) are byte-identical with the real code on every generated case "
                     "(objects reused across inputs, pooled functions, all depth classes); the real output is decoded by the package's decoder and by the "
                     "independent Lean specification. Theorems about the models are being added (see evidence.theorems); until C01's theorems are "
                     "listed the assurance is the differential + oracle run.", technique="Lean 4 model + spec oracle, differential correspondence",
                note=_BLOCK_NOTE),
    "C03": dict(text="Instruction-level model of decode_amd64.s over flat addresses with fault semantics, and statement-level model of the portable decoder; "
                     "both agree with the real decoders on return value and the whole dst[:cap) image; canaries beyond len(dst).",
                technique="Lean 4 model with out-of-bounds = fault, full-image differential correspondence", note=_BLOCK_NOTE),
    "C04": dict(text="Independent Lean block-format specification (lenient reading, dictionaries) used as oracle on every real decode; models agree with the "
                     "real decoders.", technique="Lean 4 spec as oracle + model correspondence", note=_BLOCK_NOTE),
    "C10": dict(text="Strict-validity predicate (Spec.Block.strictValid) evaluated by the independent spec on every block the real compressors emit, including "
                     "partial-destination successes.", technique="Lean 4 spec oracle + model correspondence", note=_BLOCK_NOTE),
    "C11": dict(text="Destinations with spare capacity and canaries; every destination length around the bound for small sources; models byte-identical.",
                technique="Lean 4 model correspondence + canary/bound oracle", note=_BLOCK_NOTE),
    "C12": dict(text="The two builds (default, noasm) are run on the same case stream and compared with each other and each with its own Lean model.",
                technique="differential across builds + two Lean models", note=_BLOCK_NOTE + " arm/arm64 assembly not covered."),
    "C13": dict(text="Model of checksumZeroGo and of the streaming XXHZero proved equal to the reference XXH32 specification; model tied to the code by "
                     "regenerated primes/rotations and differential runs incl. injected states around 2^32.",
                technique="Lean 4 theorem (model = XXH32 spec) + correspondence", note="Trusted: Lean kernel; Spec/XXH32.lean (checked against published vectors); correspondence harness; xxh32zero_arm.s not covered."),
    "C14": dict(text="Block level: the models are pure functions of (source, depth, destination size) and agree byte-for-byte with one long-lived Go compressor "
                     "object and with the pooled functions over unrelated inputs; a fresh object is compared on every case.",
                technique="Lean 4 model (pure function) correspondence", note=_BLOCK_NOTE),
}
