"""Orchestration shared by every property check (see /verif/check)."""
import os, sys, json, time, subprocess, hashlib, fcntl, shutil, re, glob

ROOT = os.path.dirname(os.path.dirname(os.path.abspath(__file__)))
LEAN = os.path.join(ROOT, "lean")
HARN = os.path.join(ROOT, "harness")
BIN = os.path.join(HARN, "bin")
REPO = os.environ.get("VERIF_REPO", "/repo")
GOENV = dict(os.environ, GOFLAGS="-mod=mod", GOPROXY="off", GOSUMDB="off", GOTOOLCHAIN="local")
DRIVER = os.path.join(LEAN, ".lake/build/bin/lz4v-driver")
SPEC = os.path.join(LEAN, ".lake/build/bin/lz4v-spec")
ALLOWED_AXIOMS = {"propext", "Classical.choice", "Quot.sound"}
FORBIDDEN = re.compile(r"\bsorry\b|\badmit\b|^axiom |native_decide|bv_decide|implemented_by|\bunsafe |maxHeartbeats 0")

from . import props as P


def sh(cmd, cwd=None, env=None, inp=None, timeout=None):
    p = subprocess.run(cmd, cwd=cwd, env=env, input=inp, stdout=subprocess.PIPE, stderr=subprocess.PIPE,
                       timeout=timeout)
    return p.returncode, p.stdout.decode("utf-8", "replace"), p.stderr.decode("utf-8", "replace")


def strip_comments(text):
    """remove Lean block comments (nested) and line comments"""
    out, i, depth = [], 0, 0
    while i < len(text):
        if text.startswith("/-", i):
            depth += 1; i += 2; continue
        if depth and text.startswith("-/", i):
            depth -= 1; i += 2; continue
        if depth:
            if text[i] == "\n": out.append("\n")
            i += 1; continue
        if text.startswith("--", i):
            while i < len(text) and text[i] != "\n": i += 1
            continue
        out.append(text[i]); i += 1
    return "".join(out)


class Violation:
    def __init__(self, stage, what, case=None, impl=None, expected=None, variant=None, extra=None):
        self.stage, self.what, self.case, self.impl, self.expected, self.variant = stage, what, case, impl, expected, variant
        self.extra = extra or {}
        self.concrete = stage in ("O", "S")  # a failing input on the real code

    def to_json(self):
        d = dict(stage=self.stage, what=self.what, case=self.case, impl=self.impl, expected=self.expected,
                 variant=self.variant, concrete=self.concrete)
        d.update(self.extra)
        return d


class Run:
    def __init__(self, prop, tier, seed):
        self.prop, self.tier, self.seed = prop, tier, seed
        self.cfg = P.PROPS[prop]
        self.t0 = time.time()
        self.work = os.path.join(ROOT, ".work", f"{prop}-{os.getpid()}")
        os.makedirs(os.path.join(self.work, "blobs"), exist_ok=True)
        self.env = dict(os.environ, VERIF_BLOBDIR=os.path.join(self.work, "blobs"), GOMEMLIMIT="12GiB")
        os.makedirs(os.path.join(ROOT, "evidence", "replays"), exist_ok=True)
        self.log = []
        self.viol = []
        self.known_hits = []
        self.cov = dict(evaluations=0, distinct=set(), hist={}, samples=[], oracle_queries=0)
        self.gen_changed = []
        self.facts = {}
        self.proof = dict(obligations=0, discharged=0, theorems=[])

    def say(self, *a):
        msg = " ".join(str(x) for x in a)
        self.log.append(msg)
        print(f"[{self.prop} {time.time()-self.t0:6.1f}s] {msg}", flush=True)

    def cleanup(self):
        shutil.rmtree(self.work, ignore_errors=True)

    # ------------------------------------------------------------------ G + P
    def build(self):
        """regenerate, build Lean + harness under a lock. Returns list of Violation (stage G/P)."""
        out = []
        os.makedirs(BIN, exist_ok=True)
        with open(os.path.join(ROOT, ".work", "build.lock"), "w") as lk:
            fcntl.flock(lk, fcntl.LOCK_EX)
            try:
                shutil.copy(os.path.join(REPO, "go.sum"), os.path.join(HARN, "go.sum"))
            except Exception:
                pass
            rc, o, e = sh(["go", "build", "-o", os.path.join(BIN, "extract"), "./extract"], cwd=HARN, env=GOENV)
            if rc != 0:
                self.say("extract build failed", e[-2000:]); raise SystemExit(2)
            rc, o, e = sh([os.path.join(BIN, "extract"), REPO, os.path.join(LEAN, "Lz4V/Gen")])
            self.gen_changed = [l.split()[1] for l in o.splitlines() if l.startswith("updated")]
            if rc == 3:
                msgs = [l for l in e.splitlines() if l.startswith("BROKEN-TIE")]
                out.append(Violation("G", "regeneration from source failed: " + "; ".join(msgs)))
                self.say("G: broken tie:", *msgs)
            elif rc != 0:
                self.say("extract failed", e[-2000:]); raise SystemExit(2)
            else:
                self.say("G: regenerated Lz4V/Gen from", REPO, "(changed: %s)" % (",".join(self.gen_changed) or "nothing"))
            try:
                self.facts = json.load(open(os.path.join(LEAN, "Lz4V/Gen/facts.json")))
            except Exception:
                self.facts = {}
            # the independent oracle first: it does not depend on anything regenerated
            rc, o, e = sh(["lake", "build", "lz4v-spec"], cwd=LEAN)
            if rc != 0:
                self.say("spec driver build failed", (o + e)[-3000:]); raise SystemExit(2)
            # proofs of this property + the model driver
            self.mods = sorted(set(t["module"] for t in self.cfg.get("theorems", [])))
            targets = ["lz4v-driver"] + self.mods
            # the model driver first (so that the correspondence still runs when only a proof breaks) …
            rc, o, e = sh(["lake", "build", "lz4v-driver"], cwd=LEAN)
            self.lake_ok = rc == 0
            if rc != 0:
                errs = [l for l in (o + e).splitlines() if "error" in l][:8]
                out.append(Violation("P", "the models no longer build against the regenerated constants/leaf functions: " + " | ".join(errs),
                                     extra=dict(theorem="(model build) " + "; ".join(errs)[:500])))
                self.say("P: model driver build FAILED:", *errs)
            # … then the property's theorems
            self.proofs_ok = True
            if self.mods:
                rc, o, e = sh(["lake", "build"] + self.mods, cwd=LEAN)
                self.proofs_ok = rc == 0
                if rc != 0:
                    errs = [l for l in (o + e).splitlines() if "error" in l][:8]
                    out.append(Violation("P", "lake build failed (a proof obligation no longer checks): " + " | ".join(errs),
                                         extra=dict(theorem="(build) " + "; ".join(errs)[:500])))
                    self.say("P: lake build FAILED:", *errs)
                else:
                    self.say("P: lake build ok:", " ".join(targets))
            # harness from the working tree
            for name, tags in (("vh", "verif"), ("vh-noasm", "verif,noasm")):
                rc, o, e = sh(["go", "build", "-tags", tags, "-o", os.path.join(BIN, name), "."], cwd=HARN, env=GOENV)
                if rc != 0:
                    self.say("harness build failed (does /repo compile with -tags %s?)" % tags, e[-3000:]); raise SystemExit(2)
            out += self.audit()
        return out

    def audit(self):
        out = []
        thms = self.cfg.get("theorems", [])
        self.proof["obligations"] = len(thms)
        # forbidden tokens anywhere in the Lean sources
        bad = []
        for path in glob.glob(os.path.join(LEAN, "**/*.lean"), recursive=True):
            if "/.lake/" in path: continue
            txt = strip_comments(open(path).read())
            for i, line in enumerate(txt.splitlines()):
                if FORBIDDEN.search(line):
                    bad.append(f"{os.path.relpath(path, LEAN)}:{i+1}: {line.strip()[:80]}")
        if bad:
            out.append(Violation("P", "forbidden construct in Lean sources: " + "; ".join(bad[:5]), extra=dict(theorem="(audit)")))
            self.say("P: forbidden constructs:", *bad[:5])
        if not thms or not getattr(self, "proofs_ok", True):
            return out
        src = "".join(f"import {m}\n" for m in self.mods) + "".join(f"#print axioms {t['name']}\n" for t in thms)
        f = os.path.join(self.work, "Audit.lean")
        open(f, "w").write(src)
        rc, o, e = sh(["lake", "env", "lean", f], cwd=LEAN)
        txt = o + e
        ok = 0
        for t in thms:
            m = re.search(r"'" + re.escape(t["name"]) + r"' (depends on axioms: \[([^\]]*)\]|does not depend on any axioms)", txt, re.S)
            if not m:
                out.append(Violation("P", f"theorem {t['name']} not found / not checked", extra=dict(theorem=t["name"])))
                self.say("P: theorem missing:", t["name"]); continue
            axs = set(x.strip() for x in (m.group(2) or "").replace("\n", " ").split(",") if x.strip())
            t2 = dict(t, axioms=sorted(axs))
            self.proof["theorems"].append(t2)
            if axs - ALLOWED_AXIOMS:
                out.append(Violation("P", f"theorem {t['name']} depends on non-standard axioms {sorted(axs-ALLOWED_AXIOMS)}", extra=dict(theorem=t["name"])))
            else:
                ok += 1
        self.proof["discharged"] = ok
        self.say(f"P: {ok}/{len(thms)} theorems checked by the kernel with axioms ⊆ {sorted(ALLOWED_AXIOMS)}")
        if self.tier == "thorough":
            for mod in self.mods:
                rc, o, e = sh(["lake", "env", "leanchecker", mod], cwd=LEAN)
                self.say("P: leanchecker", mod, "rc=%d" % rc, (o + e).strip()[-200:])
                if rc != 0:
                    out.append(Violation("P", "leanchecker rejected " + mod, extra=dict(theorem=mod)))
        return out

    # ------------------------------------------------------------------ K + O
    def gen_cases(self, family, tier, seed, extra_args=()):
        rc, o, e = sh([os.path.join(BIN, "vh"), "gen", family, tier, str(seed)] + list(extra_args), env=self.env)
        if rc != 0:
            self.say("generator failed", family, e[-500:]); raise SystemExit(2)
        return [l for l in o.split("\n") if l]

    def corpus(self, family):
        lines = []
        for path in sorted(glob.glob(os.path.join(ROOT, "corpus", family, "*.cases"))):
            lines += [l for l in open(path).read().split("\n") if l and not l.startswith("#")]
        return lines

    def run_impl(self, variant, cases, tag, env_extra=None, binary=None, _depth=0):
        """returns (impl_lines, oracle list[(idx, kind, req, expected)])"""
        binp = binary or os.path.join(BIN, "vh-noasm" if variant == "noasm" else "vh")
        env = dict(self.env, **(env_extra or {}))
        req, exp = os.path.join(self.work, tag + ".req"), os.path.join(self.work, tag + ".exp")
        inp = ("\n".join(cases) + "\n").encode()
        p = subprocess.run([binp, "impl", req, exp], input=inp, stdout=subprocess.PIPE, stderr=subprocess.PIPE, env=env)
        self.last_stderr = p.stderr.decode("utf-8", "replace")
        lines = p.stdout.decode("utf-8", "replace").split("\n")
        if lines and lines[-1] == "": lines.pop()
        if p.returncode != 0 or len(lines) != len(cases):
            # the process died: attribute by re-running the crashing case alone
            k = len(lines)
            self.say(f"impl({variant}) died after {k} of {len(cases)} cases rc={p.returncode}: {p.stderr.decode('utf-8','replace')[-300:]}")
            lines += ["CRASH ; process-died"] + ["skipped ; after-crash"] * (len(cases) - k - 1)
        orc = []
        try:
            rq = open(req).read().split("\n"); ex = open(exp).read().split("\n")
            for r_, e_ in zip(rq, ex):
                if not r_: continue
                idx, kind, expd = e_.split(" ", 2)
                orc.append((int(idx), kind, r_, expd))
        except FileNotFoundError:
            pass
        # a watchdog expiry is confirmed by running that case alone (a loaded machine can stall a call for seconds);
        # if it does not hang there, it and the cases the harness skipped after it are run again
        h = next((i for i, l in enumerate(lines) if "HANG" in l and "after-hang" not in l), None)
        if h is not None and _depth < 3:
            one, orc1 = self.run_impl(variant, [cases[h]], tag + "-h", env_extra, binary, _depth=3)
            if one and "HANG" not in one[0]:
                self.say(f"impl({variant}): a watchdog expiry at case {h} did not repeat when the case ran alone; re-running it and the {len(cases) - h - 1} cases after it")
                rest, orc2 = self.run_impl(variant, cases[h + 1:], tag + "-r", env_extra, binary, _depth=_depth + 1) if h + 1 < len(cases) else ([], [])
                lines = lines[:h] + one + rest
                orc = [o for o in orc if o[0] < h] + [(h, k, r_, e_) for (_, k, r_, e_) in orc1] + [(i + h + 1, k, r_, e_) for (i, k, r_, e_) in orc2]
        return lines, orc

    def run_driver(self, exe, lines):
        if not lines: return []
        p = subprocess.run([exe], input=("\n".join(lines) + "\n").encode(), stdout=subprocess.PIPE, stderr=subprocess.PIPE)
        out = p.stdout.decode("utf-8", "replace").split("\n")
        if out and out[-1] == "": out.pop()
        if len(out) != len(lines):
            out += ["DRIVER-DIED"] * (len(lines) - len(out))
        return out

    def correspond(self, spec, cases, use_model=True):
        """one run spec over cases; appends to self.viol; returns number of cases"""
        variant = spec.get("variant", "asm")
        tr = spec.get("transform")
        cs = [tr(c) for c in cases] if tr else list(cases)
        cs = [c for c in cs if c]
        tag = f"{spec['family']}-{variant}"
        impl, orc = self.run_impl(variant, cs, tag, env_extra=spec.get("env"))
        model = self.run_driver(DRIVER, cs) if (use_model and self.lake_ok) else None
        ans = self.run_driver(SPEC, [q[2] for q in orc])
        judge = spec["judge"]
        by_idx = {}
        for (idx, kind, req, expd), a in zip(orc, ans):
            by_idx.setdefault(idx, []).append((kind, req, expd, a))
        self.cov["oracle_queries"] += len(orc)
        nontrivial = spec.get("nontrivial", lambda c, i: not i.startswith(("err", "zero")))
        for i, c in enumerate(cs):
            il = impl[i].strip()
            self.cov["evaluations"] += 1
            op = c.split(" ", 1)[0]
            key = il.split(" ", 1)[0]
            self.cov["hist"][f"{op}:{variant}:{key}"] = self.cov["hist"].get(f"{op}:{variant}:{key}", 0) + 1
            if nontrivial(c, il):
                self.cov["distinct"].add(hashlib.sha1((variant + c).encode()).hexdigest()[:16])
            if len(self.cov["samples"]) < 4 and nontrivial(c, il) and len(c) < 400:
                self.cov["samples"].append(dict(case=c, variant=variant, real_code=il))
            # O: the property judged directly on the real code's output (+ spec answers)
            for what, expd in judge(c, il, by_idx.get(i, [])):
                self.viol.append(Violation("O", what, case=c, impl=il, expected=expd, variant=variant))
            # K: model = real code
            if model is not None and spec.get("k", True) and not il.startswith("skipped ;"):
                ml = model[i]
                left = ml.split(" | ")[0].strip()
                kf = spec.get("kview")
                if kf and kf.__code__.co_argcount == 2:
                    a, b = kf(il, c), kf(left, c)
                else:
                    a, b = (kf(il), kf(left)) if kf else (il, left)
                if a != b:
                    self.viol.append(Violation("K", f"model and real code differ ({variant})", case=c, impl=il, expected=left, variant=variant))
                elif " | " in ml and spec.get("mview"):
                    sv = ml.split(" | ", 1)[1].strip()
                    bad = spec["mview"](left, sv)
                    if bad:
                        self.viol.append(Violation("M", "model output contradicts the specification: " + bad, case=c, impl=il, expected=sv, variant=variant))
        return impl

    # ------------------------------------------------------------------ main
    def main(self):
        pre = self.build()
        self.viol += pre
        thorough = self.tier == "thorough"
        changed = bool(self.gen_changed)
        # a modelled function whose source text changed never gets only the quick sample: two more seeds
        try:
            base = json.load(open(os.path.join(ROOT, "baseline_hashes.json")))
        except Exception:
            base = {}
        self.changed_fns = sorted(k for k, v in self.facts.get("hashes", {}).items() if base.get(k) not in (None, v))
        # the regenerated source tie: every function the property's models stand on, against the committed expectations
        import fnmatch
        try:
            tbase = json.load(open(os.path.join(ROOT, "baseline_ties.json")))
        except Exception:
            tbase = {}
        tnow = self.facts.get("ties", {})
        pats = P.TIES.get(self.prop, [])
        tied = lambda k: any(fnmatch.fnmatchcase(k, p) for p in pats)
        self.broken_ties = sorted(k for k in set(tnow) | set(tbase) if tied(k) and tnow.get(k) != tbase.get(k)) if tbase else []
        self.tied_count = sum(1 for k in tnow if tied(k))
        if self.broken_ties:
            self.changed_fns = sorted(set(self.changed_fns) | set(self.broken_ties))
        seeds = [self.seed] + ([self.seed + 1000, self.seed + 2000] if self.changed_fns and self.tier == "quick" else [])
        if self.changed_fns:
            self.say("source text of modelled functions changed since the baseline:", ", ".join(self.changed_fns), "-> seeds", seeds)
        for spec in self.cfg.get("runs", []):
            for sd in seeds:
                if any(v.concrete for v in self.viol): break
                cases = (self.corpus(spec["family"]) if sd == self.seed else []) + self.gen_cases(spec["family"], self.tier, sd)
                self.correspond(spec, cases)
        for fn in self.cfg.get("extra", []):
            fn(self)
        if self.broken_ties:
            thms = [t["name"] for t in self.cfg.get("theorems", [])]
            self.viol.append(Violation("G", "source tie broken: the code of " + ", ".join(self.broken_ties) + " differs from the source the Lean model was written and validated against "
                                       "(baseline_ties.json); the theorems no longer speak about this code until the model is re-validated",
                                       case="tie: " + " ".join(self.broken_ties), impl="regenerated hashes differ", expected="hashes of baseline_ties.json",
                                       extra=dict(theorem=thms[:60], functions=self.broken_ties)))
        self.say(f"K/O: {self.cov['evaluations']} evaluations, {len(self.cov['distinct'])} distinct non-trivial, "
                 f"{self.cov['oracle_queries']} spec-oracle queries, {len(self.viol)} finding(s)")
        # S: search for a concrete failing input when only a proof/tie/correspondence broke
        if self.viol and not any(v.concrete for v in self.viol):
            self.search()
        return self.finish()

    def search(self):
        self.say("S: a proof obligation / tie / correspondence broke; searching the real code for a failing input")
        before = len(self.viol)
        # 1. the differing cases themselves were already judged by O. 2. thorough generators, several seeds
        budget = time.time() + (240 if self.tier == "quick" else 900)
        for s in range(3):
            for spec in self.cfg.get("runs", []):
                if time.time() > budget: break
                cases = self.gen_cases(spec["family"], "thorough", self.seed * 1000 + 17 + s)
                sp = dict(spec); sp["k"] = False
                n0 = len(self.viol)
                self.correspond(sp, cases, use_model=False)
                for v in self.viol[n0:]:
                    if v.stage == "O": v.stage = "S"; v.concrete = True
            if any(v.concrete for v in self.viol): break
        for fn in self.cfg.get("search_extra", []):
            if any(v.concrete for v in self.viol): break
            fn(self)
        self.say(f"S: {sum(1 for v in self.viol[before:] if v.concrete)} failing input(s) found")

    def load_known(self):
        try:
            kf = json.load(open(os.path.join(ROOT, "known_findings.json")))
        except Exception:
            return []
        return [k for k in kf.get("known", []) if k.get("property") == self.prop]

    def finish(self):
        known = self.load_known()
        real = []
        for v in self.viol:
            hit = None
            for k in known:
                m = k.get("match", {})
                if v.case and m.get("case_regex") and re.search(m["case_regex"], v.case) and \
                        (not m.get("impl_regex") or re.search(m["impl_regex"], v.impl or "")):
                    hit = k; break
            if hit and v.concrete:
                if hit["id"] not in [h["id"] for h in self.known_hits]:
                    self.known_hits.append(hit)
            else:
                real.append(v)
        for k in self.known_hits:
            print(f"KNOWN-FINDING: property={self.prop} {k['id']}: {k['what']}")
        rc = 0
        replay_path = None
        if real:
            conc = [v for v in real if v.concrete]
            best = sorted(conc, key=lambda v: len(v.case or ""))[0] if conc else real[0]
            h = hashlib.sha1(json.dumps(best.to_json(), sort_keys=True).encode()).hexdigest()[:10]
            replay_path = os.path.join(ROOT, "evidence", "replays", f"{self.prop}-{h}.json")
            self.persist_blobs(best, replay_path)
            rep = dict(property=self.prop, tier=self.tier, seed=self.seed, violation=best.to_json(),
                       others=[v.to_json() for v in real if v is not best][:20],
                       rerun=f"./check {self.prop} --replay {replay_path}")
            if not conc:
                broken = [v for v in real if v.stage in ("G", "P")]
                rep["no_failing_input_found"] = True
                rep["broken"] = [dict(stage=v.stage, what=v.what, theorem=v.extra.get("theorem"), case=v.case, real_code=v.impl, model=v.expected) for v in real][:20]
                rep["explanation"] = ("a proof obligation, the regenerated tie or the model/code correspondence no longer checks, "
                                      "so the property is no longer shown to hold; the search found no input on which the real code violates it")
            json.dump(rep, open(replay_path, "w"), indent=1)
            suffix = "" if conc else " no-failing-input-found"
            for v in real[:6]:
                self.say("finding:", v.stage, v.what, "| case:", (v.case or "")[:160], "| real:", (v.impl or "")[:120], "| expected:", (v.expected or "")[:120])
            print(f"VIOLATION property={self.prop} replay={replay_path}{suffix}")
            rc = 1
        self.evidence(len(real))
        return rc

    def persist_blobs(self, v, replay_path):
        """copy the blob files a case refers to next to the replay file and rewrite the references"""
        if not v.case or "@" not in v.case: return
        bdir = replay_path[:-5] + ".blobs"
        os.makedirs(bdir, exist_ok=True)
        def repl(m):
            src = m.group(1)
            try:
                dst = os.path.join(bdir, os.path.basename(src))
                if os.path.exists(src): shutil.copy(src, dst)
                return "@" + dst
            except Exception:
                return m.group(0)
        v.case = re.sub(r"@([^\s#:]+)", repl, v.case)

    def evidence(self, nviol):
        cfg = self.cfg
        cov = dict(
            obligations=max(self.proof["obligations"], 1) if cfg.get("theorems") else 0,
            discharged=self.proof["discharged"],
            checker_cmd="cd /verif/lean && lake build " + " ".join(getattr(self, "mods", [])) + f" && lake env lean Audit.lean (#print axioms of each theorem)  # run by ./check {self.prop}",
            trusted_base=P.TRUSTED_BASE + cfg.get("trusted_extra", []),
            theorems=self.proof["theorems"],
            evaluations=self.cov["evaluations"],
            distinct_nontrivial=len(self.cov["distinct"]),
            rule=cfg.get("rule", "cases come from the seeded generators of the property's families (corpus first); a case is "
                                 "non-trivial when the real code's result is not a plain error/zero; distinct = distinct (variant, case line)"),
            samples=self.cov["samples"] or [dict(note="no correspondence cases for this property")],
            histogram=self.cov["hist"],
            spec_oracle_queries=self.cov["oracle_queries"],
            regenerated_changed=self.gen_changed,
            regenerated_facts={k: v for k, v in self.facts.items() if k not in ("hashes", "ties")},
            source_hashes=self.facts.get("hashes", {}),
            changed_since_baseline=getattr(self, "changed_fns", []),
            source_ties=dict(functions_tied=getattr(self, "tied_count", 0), broken=getattr(self, "broken_ties", []),
                             expectations="baseline_ties.json (hashes of the comment-free syntax trees the models were written against)"),
            known_findings_hit=[k["id"] for k in self.known_hits],
        )
        if cfg.get("exhaustive"):
            cov["exhaustive"] = True
        if not cfg.get("theorems"):
            for k in ("obligations", "discharged"): cov.pop(k)
            cov["programs"] = len(cfg.get("runs", [])) or 1
            cov["disagreements_checked"] = self.cov["evaluations"]
        ev = dict(property_id=self.prop, tier=self.tier, seed=self.seed, level=cfg.get("level", "proof" if cfg.get("theorems") else "translation_validation"),
                  coverage=cov, assumptions=cfg.get("assumptions", P.ASSUMPTIONS), wall_s=round(time.time() - self.t0, 2),
                  violations=nviol)
        os.makedirs(os.path.join(ROOT, "evidence"), exist_ok=True)
        json.dump(ev, open(os.path.join(ROOT, "evidence", f"{self.prop}.json"), "w"), indent=1)

    # ------------------------------------------------------------------ replay
    def replay(self, path):
        rep = json.load(open(path))
        v = rep["violation"]
        self.viol += self.build()
        if not v.get("case"):
            print("replay: no concrete case in this file; re-running the check's proof/tie stage only")
            for x in self.viol: print("still failing:", x.stage, x.what)
            return 1 if self.viol else 0
        n0 = len(self.viol)
        for spec in self.cfg.get("runs", []):
            if spec.get("variant", "asm") == (v.get("variant") or "asm"):
                sp = dict(spec); sp["transform"] = None
                impl = self.correspond(sp, [v["case"]])
                print("replay: case:", v["case"][:300]); print("replay: real code now prints:", impl[0])
        for x in self.viol[n0:]:
            print("replay:", x.stage, x.what, "| expected:", x.expected)
        return 1 if len(self.viol) > n0 else 0
