"""Per-property configuration: theorems, correspondence runs, direct judges."""
import re

TRUSTED_BASE = [
    "Lean 4.33.0 kernel (thorough tier: leanchecker re-check of the compiled .olean)",
    "axioms of each theorem as printed by #print axioms; allowed: propext, Classical.choice, Quot.sound; no native_decide/bv_decide/sorry",
    "hand-written specifications Lz4V/Spec/* (from the LZ4 block/frame and XXH32 documents)",
    "hand-written models Lz4V/Model/* tied to /repo by (a) Lz4V/Gen regenerated from the Go source by harness/extract on every run, "
    "(b) differential runs of the compiled model driver against the real code built from the working tree with -tags verif",
    "harness/ (generators, impl runner, extractor) and vlib/ (comparison logic)",
    "Go runtime and compiler; amd64 CPU; arm/arm64 assembly not covered",
]
ASSUMPTIONS = [
    "no Go length reaches 2^62 (ints modelled as unbounded naturals)",
    "a Go function that does not import unsafe cannot access memory outside its slices; out-of-range indexing panics",
]

BAD = re.compile(r"panic|OVER|DIRTY|CRASH|INPUT-MODIFIED|READS-OUTSIDE-INPUT|err-with-count|DRIVER-DIED")


def oracle_fail(orc, kinds):
    out = []
    for kind, req, expd, ans in orc:
        if kind in kinds and expd != ans:
            out.append((f"spec oracle disagrees ({kind}): real code says `{expd}`, specification says `{ans}` for `{req[:120]}`", ans))
    return out


# ---- judges: (case, impl_line, oracle answers) -> [(what, expected)] -------------------------

def j_c03(c, il, orc):
    out = []
    if BAD.search(il):
        out.append(("block decoding panicked / count out of range / wrote beyond len(dst): " + il[:100], "error or 0<=n<=len(dst), nothing beyond len(dst) touched"))
    return out

def j_c04(c, il, orc):
    out = oracle_fail(orc, ("dec",))
    if "dstdep=DEP" in il:
        out.append(("decoded bytes depend on the destination's prior contents", "independent"))
    if "READS-OUTSIDE-INPUT" in il:
        out.append(("the result depends on bytes outside the source / dictionary slices", "a function of src, dict and len(dst) only"))
    return out

def j_c12(c, il, orc):
    return []   # judged across the two builds in x_c12

def j_c01(c, il, orc):
    out = []
    if re.search(r"rt=FAIL|BOUND-VIOLATED|panic|CRASH", il):
        out.append(("block round trip failed: " + il[:100], "ok n …; rt=ok"))
    return out + oracle_fail(orc, ("rt",))

def j_c10(c, il, orc):
    return oracle_fail(orc, ("strict", "rt"))

def j_c11(c, il, orc):
    out = []
    if re.search(r"panic|OVER|DIRTY|BOUND-VIOLATED|err-with-count|CRASH", il):
        out.append(("destination-buffer contract broken: " + il[:100], "n<=len(dst), nothing beyond len(dst), n>0 when len(dst)>=bound"))
    return out + oracle_fail(orc, ("rt",))

def j_c14b(c, il, orc):
    return [("same source, different compressor history, different bytes", "det=ok")] if "NONDET" in il else []

def j_c13(c, il, orc):
    out = oracle_fail(orc, ("xxh",))
    if "MISMATCH" in il:
        out.append(("Sum/Sum32 inconsistent", "Sum appends Sum32 little-endian, state unchanged"))
    return out


def kview2(line):            # compare view and image, not the harness' own notes
    return " ; ".join(x.strip() for x in line.split(" ; ")[:2])

def kview1(line):
    return line.split(" ; ")[0].strip()

def mview_dec(left, sv):
    v = left.split(" ; ")[0].strip()
    if v.startswith("FAULT"):
        return "model faults (out-of-bounds access)"
    return None if v == sv else f"model `{v}` vs spec `{sv}`"

def mview_cmp(left, sv):
    if sv in ("-", "rt=ok strict=ok"): return None
    return f"spec verdict on the model's block: {sv}"

def mview_eq(left, sv):
    return None if sv == "-" or left.strip() == sv else f"model `{left}` vs spec `{sv}`"

def to_dg(c):
    return "DG" + c[2:] if c.startswith("DA ") else c

DEC_ASM = dict(family="dec", variant="asm", kview=kview2, mview=mview_dec)
DEC_GO = dict(family="dec", variant="noasm", transform=to_dg, kview=kview2, mview=mview_dec)
def to_dpg(c):
    return "DPG" + c[2:] if c.startswith("DP ") else c
GUARD_ASM = dict(family="decguard", variant="asm", kview=kview1, mview=mview_dec)
GUARD_GO = dict(family="decguard", variant="noasm", transform=to_dpg, kview=kview1, mview=mview_dec)
CMP = dict(family="cmp", variant="asm", kview=kview1, mview=mview_cmp)
XXH = dict(family="xxh", variant="asm", mview=mview_eq, nontrivial=lambda c, i: True)


def x_c12(run):
    """C12: the two builds must print the same view for every case (real code vs real code)."""
    from .common import Violation
    cases = run.corpus("dec") + run.gen_cases("dec", run.tier, run.seed + 7)
    a, _ = run.run_impl("asm", cases, "c12a")
    b, _ = run.run_impl("noasm", [to_dg(c) for c in cases], "c12b")
    n = 0
    for c, x, y in zip(cases, a, b):
        run.cov["evaluations"] += 1
        if kview1(x) != kview1(y):
            n += 1
            run.viol.append(Violation("O", "assembly and portable decoders disagree", case=c, impl="asm: " + x[:150], expected="noasm: " + y[:150], variant="asm"))
    run.say(f"C12: {len(cases)} cases through both builds, {n} differences")
    # lengths of 2^31 / 2^32 and beyond (only a 64-bit count holds them): both builds must reject them
    import os, subprocess
    from .common import BIN
    outs = {}
    for name in ("vh", "vh-noasm"):
        p = subprocess.run([os.path.join(BIN, name), "biglen"], stdout=subprocess.PIPE, stderr=subprocess.PIPE, timeout=900)
        outs[name] = p.stdout.decode().splitlines()
    m = 0
    if len(outs["vh"]) != 40 or len(outs["vh-noasm"]) != 40:
        run.viol.append(Violation("O", "biglen run incomplete", case="vh biglen", impl=f"{len(outs['vh'])}/{len(outs['vh-noasm'])} lines", expected="40 lines each", variant="asm"))
    for x, y in zip(outs["vh"], outs["vh-noasm"]):
        run.cov["evaluations"] += 1
        if x != y or not x.endswith("-> err"):
            m += 1
            run.viol.append(Violation("O", "assembly and portable decoders disagree on a length of 2^31..2^32+", case="vh biglen  # " + x.split(" ->")[0],
                                      impl="asm: " + x, expected="noasm: " + y + " (and both an error: no destination holds such a length)", variant="asm"))
    run.cov["hist"]["lengths>=2^31"] = len(outs["vh"])
    run.say(f"C12: {len(outs['vh'])} giant-length cases through both builds, {m} differences")


# ---- frame layer ---------------------------------------------------------------------------

HANGS = re.compile(r"HANG|PANIC|CRASH|DRIVER-DIED|BADCOUNT|DOUBLE-PUT|WROTE-BEHIND-LEN|SINK-CHANGED-AFTER-CLOSE-RETURNED")

def notes_of(il):
    parts = il.split(" ; ")
    return parts[-1] if len(parts) >= 3 else ""

def j_notes(pattern, what, expected):
    rx = re.compile(pattern)
    def j(c, il, orc):
        out = []
        m = rx.search(notes_of(il)) or HANGS.search(il)
        if m:
            out.append((f"{what}: {m.group(0)} in `{il[-200:]}`", expected))
        return out
    return j

def j_and(*js):
    def j(c, il, orc):
        out = []
        for x in js: out += x(c, il, orc)
        return out
    return j

def j_orc(*kinds):
    return lambda c, il, orc: oracle_fail(orc, kinds)

def kview_w(line):
    return " ; ".join(x.strip() for x in line.split(" ; ")[:2])

def kview_r(line):
    return line.split(" ; ")[0].strip()

def kview_r_seq(line):
    return " ; ".join(x.strip() for x in line.split(" ; ")[:2])

def kview_sess(line, case):
    """W sessions: results + sink summaries; R sessions: results (+ consumption when sequential)"""
    parts = [x.strip() for x in line.split(" ; ")]
    if case.startswith("R "):
        # how much of the source was consumed is defined for sequential decoding only (a concurrent Reader reads ahead)
        return " ; ".join(parts[:2]) if case.split(" ")[1] == "1" and "A:conc=" not in case and ",conc=" not in case else parts[0]
    return " ; ".join(parts[:2])

def nontrivial_sess(c, il):
    return "/ok" in il or " ok" in il or il.startswith("ok")

def FW(fam, **kw):
    return dict(dict(family=fam, variant="asm", kview=kview_sess, nontrivial=nontrivial_sess), **kw)

def FR(fam, **kw):
    return dict(dict(family=fam, variant="asm", kview=kview_sess, nontrivial=nontrivial_sess), **kw)

j_c02w = j_notes(r"ROUNDTRIP-FAIL\S*", "frame round trip failed", "Reader restores the input, clean EOF")
j_c02r = j_notes(r"WRONG-CONTENT", "Reader did not deliver exactly the content", "content then io.EOF")
j_c05 = j_and(j_orc("accept"), j_notes(r"$^", "", ""))
j_c06 = j_notes(r"TRUNC-ACCEPTED|NOT-PREFIX|DIFFERS-FROM-NEW-READER", "truncated frame presented as complete / wrong bytes", "error other than io.EOF, delivered bytes a prefix")
j_c07 = j_and(j_notes(r"EXPECTED-\S+|ALLOC-EXCESS\S*|LIVE-HEAP-EXCESS\S*", "Reader misbehaves on hostile input", "terminates; invalid frame / skip exactly 16 magics; bounded allocation"), j_orc("accept"))
j_c09 = j_and(j_orc("frame"), j_notes(r"$^", "", ""))
j_c15w = j_notes(r"SINK-FAILURE-NOT-REPORTED|SINK-NOT-PREFIX-OF-FAULT-FREE", "sink failure not reported faithfully", "the failure is returned at the latest by Close; the sink holds a prefix of the fault-free output")
j_c15r = j_notes(r"TRUNC-ACCEPTED|NOT-PREFIX|WRONG-CONTENT|EXPECTED-\S+", "source failure / fragmentation mishandled", "the injected error, prefix delivered; fragmentation irrelevant")
j_c16 = j_c02r
j_c17w = j_notes(r"SECOND-CLOSE-EMITS|FLUSH-PREFIX-FAIL|WRITE-AFTER-CLOSE-ACCEPTED|DIFFERS-FROM-FRESH-WRITER|ROUNDTRIP-FAIL\S*", "Writer lifecycle broken", "reference model; a reused Writer emits what a new one with the same options emits")
j_c17r = j_notes(r"READ-AFTER-EOF-CONSUMES|WRONG-CONTENT|DIFFERS-FROM-NEW-READER", "Reader lifecycle broken", "reference model; after Reset a Reader answers every call as a new one does")


def T(mod, *names, kind="full", ns=None):
    return [dict(name=f"Lz4V.Props.{ns or mod}.{n}", kind=kind, module=f"Lz4V.Props.{mod}") for n in names]

T_FAST = T("C01fast", "decode_emitAll", "c11_fast", "c01_fast")
T_HC = T("C01hc", "c11_hc", "c01_hc") + T("C01hc", "side_hash_in_range", "side_win_le_ht", kind="side condition on regenerated constants")
T_GO = T("C04go", "c03_go") + T("C04go", "c04_go_partial", "c04_go_indep_partial", kind="full under the model's documented assumption len(dst) < 2^63") \
    + T("C04go", "c04_go_unbounded_false", kind="counterexample (model artefact: fixed doubling fuel)")

T_ASM = T("C03asm", "c03_asm") + T("C03asm", "c04_asm_partial", kind="full under `no dictionary or dst base address >= 65536` (every Go heap address)") \
    + T("C03asm", "c04_asm_false", kind="counterexample: the assembly rejects a valid dictionary offset when &dst < 65536 (unreachable address)")
_K64 = "full under the documented assumption that the content is shorter than 2^64 bytes"
T_C05 = T("C05", "c05_writeTo_partial", "c05_read_partial", kind=_K64) + T("C05", "c05_legacy", "c05_legacy_exact", "c05_legacy_consumed",
          "legacyDictWitness_rejected", "legacyEmptyBlockWitness_rejected")
T_C06 = T("C06", "c06_truncated")
T_C08 = T("C08", "W.order", "W.order_final", "W.order_fail", "W.ownership", "W.progress", "W.terminates", "W.noleak_enabled", "W.can_finish",
          "R.order", "R.order_final", "R.error_latched", "R.progress", "R.terminates", "R.noleak", "R.can_finish") \
    + T("C08", "W.noleak_partial", kind="partial: when Close returns a worker may still be between the close of its channel and its wake-up (it is runnable: W.noleak_enabled)") \
    + T("C08", "W.noleak_false", kind="counterexample to the literal 'every worker already woke up' (a schedule where Close returns first)")
T_C14 = T("C14", "fast_pure", "block_pure", "chunking", "chunking_sessions", "frame_function", "concurrency", "concurrency_sessions")
T_C15 = T("C15", "outcome", "sink_prefix", "failure_reported", "failure_reported'", "no_spurious", "write_concurrent_ok", "readFull_spec", "readFull_frag",
          "readFrom_frag", "readFrom_frag_state")
T_C18 = T("C18", "read_le", "read_progress", "frame_eq_writer", "frameOf_eq_writer", "output_eq_writer", "frame_valid", "frame_valid_info", "eof_last",
          "after_eof_done", "eof_only_when_flushed", "done_stays_done", "reaches_eof", "reaches_eof_frame", "source_error_passed", "error_no_bytes",
          "source_error_surfaces", "read_zero")
T_C18 = T_C18 + T("C18reuse", "cfgOK_new", "cfgOK_apply", "cfgOK_read", "cfgOK_reset", "reach_cfgOK", "reset_wf", "reset_apply_wf",
                   "reuse_frame_eq", "reuse_frame_eq_reset", "reuse_frame_eq_reach", "reuse_frame_valid", "reuse_frame_valid_reset", "reuse_reaches_eof",
                   "reset_forgets", "reset_forgets_state", "reset_apply_forgets", "reset_forgets_two",
                   kind="reused readers: any earlier state, Reset, optional Apply (CfgOK = the flag words the API can produce; reach_cfgOK)") \
    + T("C18reuse", "cfg_needed", kind="counterexample: a hand-made configuration outside CfgOK (flags 0) breaks the reader; no API call produces it")
T_C07 = T("C07", "pos_monotone_read", "pos_monotone_writeTo", "source_unchanged_read", "read_le", "bounded_new", "bounded_read", "bounded_writeTo", "bounded_reset",
          "bad_magic_read", "bad_magic_writeTo", "skippable_transparent", "skippable_alone")
T_C12 = T("C12", "c12", kind="full under the layout Go guarantees, len(dst) < 2^63, and no dictionary or &dst >= 65536")
T_C20 = T("C20", "flags_effect", "flags_effect_rest", "roundtrip")
T_C17 = T("C17", "wrun_wf", "state_inv", "closed_write", "closed_readFrom", "closed_close", "closed_flush", "close_closes", "error_sticky", "error_sticky_strong",
          "apply_only_new", "options_fixed", "reset_keeps_options", "reset_block_size", "reset_keeps_options_unsaved", "block_size_survives_legacy",
          "legacy_frame_keeps_options", "block_size_inv_step", "block_size_survives_calls", "block_size_survives_configured", "block_size_intact",
          "new_state_block_size_valid", "reset_obsEq", "obsEq_step", "reset_like_new", "flush_empties",
          "reader_closed_read", "reader_eof_closes_partial", "reader_eof_new", "reader_eof_sticky", "reader_error_sticky", "reader_reset_like_new",
          "reader_reset_obsEq", "robsEq_step", "reader_reset_equiv") \
    + T("C17", "close_closes_partial", "error_sticky_partial", "apply_only_new_partial", kind="for every well-formed state (every reachable state is well-formed: wrun_wf)") \
    + T("C17", "close_closes_false", "error_sticky_false", "apply_only_new_false", "reader_eof_closes_false", "options_fixed_reset_false",
        kind="counterexample on a state no call sequence reaches / on the empty stream / Reset restoring the block size (see DESIGN.md)")
T_C08t = T("C08trace", "W.trace_valid", "W.trace_valid_complete", "W.trace_tail", "W.trace_valid_strict", "W.strict_checker_sound",
           "R.trace_valid", "R.trace_valid_complete", "R.trace_valid_hook", "R.trace_valid_complete_hook", "R.trace_tail", "R.trace_tail_hook",
           "W.rejects_reorder", "W.rejects_uncompressed", "W.rejects_early_release", "W.rejects_lost_block", "R.rejects_reorder", "R.rejects_gap")
T_C01rt = T("C01rt", "c01_fast_go", "c01_hc_go", "c01_fast_asm", "c01_hc_asm")
T_C09leg = T("C09legacy", "c09_legacy", "c09_legacy_clean", "size_word_range")
T_C15r = T("C15r", "frag_writeTo", "frag_read", "frag_any", "source_failure_writeTo", "source_failure_read", "source_failure_general")
T_C06r = T("C15r", "c06_truncated_read", "c06_truncated_frag")

T_C09 = T("C09", "idx_valid", "c09_writer", "c09_writer_fast", "c09_clean") + T("C09full", "hcCorrect", "c09_writer_all", "c09_clean_all", ns="C09")
T_C19 = T("C19", "c19_accept_iff", "c19_bad_checksum", "c19_bad_block_size", "c19_size", "c19_bad_magic", "c19_spec", "c19_reader_size")


def x_c14_groups(run):
    """C14 (frame level): the same stream and options through different chunkings, concurrency levels and
    perturbed schedules must give byte-identical frames (real code vs real code)."""
    import random
    from .common import Violation
    rnd = random.Random(run.seed * 7 + 1)
    groups, cases = [], []
    n = 25 if run.tier == "quick" else 300
    for g in range(n):
        total = rnd.choice([0, 1, 65535, 65536, 65537, 131072, 200000, 262144 + 17])
        kind, seed = rnd.choice([0, 1, 3, 5]), rnd.randrange(1000)
        opts = f"bs=65536,bc={rnd.randrange(2)},cc={rnd.randrange(2)},lvl={rnd.choice([0, 0, 512, 2048])}"
        members = []
        for conc in [1, 2, 4, 0]:
            # one Write
            members.append(f"W -1 A:{opts},conc={conc} w:{kind}.{seed}.{total} c")
        # chunked writes of the same content cannot use data tokens (different seeds give different bytes):
        # ReadFrom with fragmentation delivers the same bytes through another path
        for conc, chunk in [(1, 1000), (4, 7), (2, 65536)]:
            members.append(f"W -1 A:{opts},conc={conc} rf:{kind}.{seed}.{total}:{chunk}:-1:{rnd.randrange(2)} c")
        groups.append((len(cases), len(members), total)); cases += members
    impl, _ = run.run_impl("asm", cases, "c14g", env_extra={"VERIF_SCHED": str(run.seed + 21)})
    bad = 0
    for start, k, total in groups:
        sums = []
        for i in range(start, start + k):
            parts = impl[i].split(" ; ")
            sums.append(parts[1].split(",")[2:4] if len(parts) > 1 else ["?"])
        run.cov["evaluations"] += k
        # an input that is a multiple of the block size ends with an empty block when it comes through ReadFrom:
        # compare the Write members among themselves and the ReadFrom members among themselves
        for grp in (range(0, 4), range(4, k)):
            ref = sums[grp[0]]
            for j in grp:
                if sums[j] != ref:
                    bad += 1
                    run.viol.append(Violation("O", "same stream and options, different frame bytes (concurrency / chunking / schedule dependence)",
                                              case=cases[start + j], impl=str(sums[j]), expected=str(ref) + " as for: " + cases[start + grp[0]]))
    run.say(f"C14: {len(groups)} groups ({len(cases)} sessions) compared for byte-identical frames: {bad} differences")

def x_c08_race(run):
    """the same concurrent sessions through a harness built with the race detector"""
    import os, subprocess
    from .common import Violation, sh, HARN, BIN, GOENV
    racebin = os.path.join(BIN, "vh-race")
    rc, o, e = sh(["go", "build", "-race", "-tags", "verif", "-o", racebin, "."], cwd=HARN, env=GOENV)
    if rc != 0:
        run.say("race build failed (skipped):", e[-300:]); return
    cases = run.gen_cases("conc", run.tier, run.seed + 3)
    if run.tier == "quick": cases = cases[:60] + cases[-40:]
    impl, _ = run.run_impl("asm", cases, "race", env_extra={"VERIF_SCHED": str(run.seed + 11)}, binary=racebin)
    n = run.last_stderr.count("WARNING: DATA RACE")
    run.cov["evaluations"] += len(cases)
    run.cov["hist"]["race-detector-sessions"] = len(cases)
    if n:
        first = run.last_stderr[run.last_stderr.index("WARNING: DATA RACE"):][:1500]
        frames = [l.strip() for l in first.splitlines() if "pierrec/lz4" in l][:6]
        run.viol.append(Violation("O", f"the race detector reports {n} data race(s) in the pipelines", case="(race build) " + " | ".join(cases[:1])[:300],
                                  impl=" <- ".join(frames)[:600], expected="no data race"))
    for c, il in zip(cases, impl):
        if HANGS.search(il) or "GOROUTINE-LEAK" in il:
            run.viol.append(Violation("O", "hang / leak under the race build", case=c, impl=il[-300:]))
    run.say(f"C08: {len(cases)} sessions under -race: {n} race report(s)")

j_c08 = j_and(j_orc("trace", "frame", "accept"),
              j_notes(r"GOROUTINE-LEAK\S*|ROUNDTRIP-FAIL\S*|WRONG-CONTENT|NOT-PREFIX|TRUNC-ACCEPTED|EXPECTED-\S+|SECOND-CLOSE-EMITS|HANG\S*",
                      "concurrent pipeline misbehaves", "ordered, complete, no hang, no leaked goroutine, valid event trace"))

def x_c13_4g(run):
    """really stream 2^32+20 bytes through the incremental checksum; independent streaming reference"""
    import os, subprocess
    from .common import Violation, BIN
    p = subprocess.run([os.path.join(BIN, "vh"), "x4g", str(run.seed)], stdout=subprocess.PIPE, stderr=subprocess.PIPE, timeout=600)
    out = p.stdout.decode()
    run.cov["evaluations"] += 23
    run.cov["hist"]["4GiB-stream-lengths"] = 23
    for l in out.splitlines():
        if l.startswith("MISMATCH"):
            run.viol.append(Violation("O", "streaming checksum of a >= 4 GiB input differs from reference XXH32",
                                      case=f"vh x4g {run.seed}  # {l}", impl=l, expected="equal"))
    run.say("C13:", out.strip().splitlines()[-1] if out.strip() else "x4g produced no output")

def x_c20(run):
    from .c20 import x_c20 as f
    f(run)

POOL_FAM = dict(family="pool", variant="asm", kview=lambda l: l.split(" ; ")[0].strip(), nontrivial=lambda c, i: "/" in i,
                judge=j_notes(r"$^", "", ""))
T_OBJ = T("C14obj", "fast_object", "hc_object", "hc_object_inv", "hcInv_reach", "hc_after_flag", "fast_view_reset",
          kind="compressor OBJECTS: every call on every reused / pooled object (any table contents left by earlier calls, failed ones included) is the per-call function")
T_TABLES = T("Tables", "indexOf_gen", "poolSize_gen", "valid_gen", "put_own_class", "classOf_gen", "classOf_get",
             kind="the models' size-class definitions equal the tables regenerated from the switch statements of blocks.go (Index, IsValid, Get, Put)")
T_LEAF = T("Leaf", "set_cc_gen", "set_size_gen", "set_bc_gen", "set_bi_gen", "set_version_gen", "set_idx_gen", "set_idx_gen_nat", "get_idx_gen",
           "dbs_size_gen", "dbs_unc_gen", "dbs_word_gen",
           kind="the models' descriptor-flag setters/getters and block-size word equal the accessors regenerated from frame_gen.go (every argument; any previous value of the word)")
T_STATES = T("States", "writer_next_gen", "reader_next_gen", "writer_init_gen", "reader_init_gen", "writer_closed", "reader_closed",
             kind="the models' state transitions equal the writerStates / readerStates slices regenerated from writer.go / reader.go; closed, in range")
T_LEAF = T_LEAF + T("Leaf", "get_set_cc", "size_set_cc", "bc_set_cc", "bi_set_cc", "cc_set_size", "get_set_size", "bc_set_size", "bi_set_size", "cc_set_bc", "size_set_bc", "get_set_bc", "bi_set_bc", "cc_set_bi", "size_set_bi", "bc_set_bi", "get_set_bi",
           kind="law of the regenerated Go accessors themselves: a one-bit setter sets exactly its flag and leaves the other flags unchanged (every word)")
T_LEAF = T_LEAF + T("Leaf", "cc_set_version", "cc_set_idx", "size_set_version", "size_set_idx", "bc_set_version", "bc_set_idx", "bi_set_version", "bi_set_idx",
           kind="law of the regenerated Go accessors themselves: VersionSet / BlockSizeIndexSet leave the four option flags unchanged (every word, every argument)")
T_LEAF = T_LEAF + T("Leaf", "idx_arith", "get_set_idx", "get_set_idx_small",
           kind="law of the regenerated Go accessors themselves: BlockSizeIndex() reads back what BlockSizeIndexSet stored (every previous word)")
T_LEAF = T_LEAF + T("Leaf", "idx_set_cc", "idx_set_size", "idx_set_bc", "idx_set_bi",
           kind="law of the regenerated Go accessors themselves: the one-bit setters leave the block-size index unchanged (every word)")
T_LEAF = T_LEAF + T("Leaf", "version_arith", "get_set_version",
           kind="law of the regenerated Go accessors themselves: Version() reads back what VersionSet stored (every previous word)")
T_POOL = T("Pool", "reach_inv", "get_size", "inv_put", "inv_get", "inv_drop", "put_foreign", "put_slice",
           kind="the shared block-buffer pools keep their size classes after every Get/Put/drop history (what the Reader's cap(b.data) bound rests on)")
CR_FAM = dict(family="cr", variant="asm", kview=kview_w, nontrivial=nontrivial_sess,
              judge=j_and(j_orc("frame"), j_notes(r"NO-PROGRESS|BADCOUNT|READ-AFTER-EOF|SOURCE-ERROR-NOT-PASSED|NO-EOF", "compressing reader contract broken",
                                                  "n<=len(p), progress, one valid frame, io.EOF, source error passed through")))
HDR_FAM = dict(family="hdr", variant="asm", kview=lambda l: l.split(" ; ")[0].strip(), nontrivial=lambda c, i: "acc=" in i and not i.startswith("acc= "),
               judge=j_notes(r"HDR-MISMATCH\S*", "header acceptance not exact", "accepted iff checksum byte right and block-size code in 4..7; distinct errors; Size unchanged"))
# ---- source ties (DESIGN.md §2.3): which regenerated function hashes each property's models stand on ----
_B = "internal/lz4block/"
_S = "internal/lz4stream/"
T_FASTC = [_B + "block.go:Compressor.*", _B + "block.go:CompressBlock", _B + "block.go:blockHash", _B + "block.go:CompressBlockBound",
           _B + "block.go:recoverBlock", _B + "block.go:<decls>", "lz4.go:CompressBlock", "lz4.go:Compressor.CompressBlock", "lz4.go:CompressBlockBound"]
T_HCC = [_B + "block.go:CompressorHC.*", _B + "block.go:CompressBlockHC", _B + "block.go:blockHashHC", _B + "block.go:CompressBlockBound",
         _B + "block.go:recoverBlock", _B + "block.go:<decls>", "lz4.go:CompressBlockHC", "lz4.go:CompressorHC.CompressBlock", "lz4.go:CompressBlockBound"]
T_DEC = [_B + "block.go:UncompressBlock", _B + "block.go:<decls>", _B + "decode_other.go:*", _B + "decode_asm.go:*", _B + "decode_amd64.s", "lz4.go:UncompressBlock*"]
T_XXH = ["internal/xxh32/xxh32zero.go:*", "internal/xxh32/xxh32zero_other.go:*"]
T_STREAM = [_S + "frame.go:*", _S + "block.go:*", _S + "frame_gen.go:*", _B + "blocks.go:*", "state.go:*", "options.go:*"]
T_W = ["writer.go:*"] + T_STREAM
T_R = ["reader.go:*"] + T_STREAM
T_CR = ["compressing_reader.go:*"] + T_STREAM
TIES = {
    "C01": T_FASTC + T_HCC + T_DEC, "C10": T_FASTC + T_HCC, "C11": T_FASTC + T_HCC,
    "C03": T_DEC, "C04": T_DEC, "C12": T_DEC,
    "C13": T_XXH + [_S + "frame.go:*", _S + "block.go:*"],
    "C02": T_W + T_R + T_FASTC + T_HCC + T_DEC + T_XXH,
    "C05": T_R + T_DEC + T_XXH, "C06": T_R + T_DEC + T_XXH, "C07": T_R + T_DEC + T_XXH, "C16": T_R + T_DEC,
    "C08": T_W + T_R, "C15": T_W + T_R, "C17": T_W + T_R,
    "C09": T_W + T_CR + T_FASTC + T_HCC + T_XXH,
    "C14": T_W + T_FASTC + T_HCC,
    "C18": T_CR + T_FASTC + T_HCC + T_XXH,
    "C19": ["reader.go:*", _S + "frame.go:*", _S + "frame_gen.go:*", _B + "blocks.go:*"] + T_XXH,
    "C20": ["cmd/lz4c/*"] + T_W + T_R + T_FASTC + T_HCC + T_DEC + T_XXH,
}

SCHED = {"VERIF_SCHED": "1"}
PROPS = {
    "C08": dict(runs=[FW("conc", judge=j_c08, env=SCHED), FR("frmut", judge=j_c08, env={"VERIF_SCHED": "2"}), FW("fwfail", judge=j_c08, env={"VERIF_SCHED": "3"})],
                extra=[x_c08_race], theorems=T_C08 + T_C08t),
    "C20": dict(runs=[dict(CMP, judge=j_c01)], extra=[x_c20], theorems=T_C20 + T("C02", "c02_roundtrip"),
                rule="each case = (flag set, generated file, mode, file or stdin/stdout); every case is non-trivial; distinct = distinct case description"),
    "C02": dict(runs=[FW("fw", judge=j_c02w), FR("fr", judge=j_c02r), POOL_FAM], theorems=T("C02", "c02_roundtrip", "c02_roundtrip_read", "c02_roundtrip_read_consumed", "c02_read_no_error", "written_lenient") + T("C09full", "c09_writer_all", ns="C09") + T_LEAF),
    "C05": dict(runs=[FR("frmut", judge=j_c05), FR("fr", judge=j_c05), POOL_FAM], theorems=T_C05 + T_POOL + T_TABLES + T_LEAF),
    "C06": dict(runs=[FR("frtrunc", judge=j_c06)], theorems=T_C06 + T_C06r),
    "C07": dict(runs=[FR("frhost", judge=j_c07), FR("frmut", judge=j_c07), POOL_FAM], theorems=T_POOL + T_TABLES + T_C07 + T("C19", "c19_bad_magic") + T("C08", "R.progress", "R.terminates", "R.noleak")),
    "C09": dict(runs=[FW("fw", judge=j_c09), CR_FAM, FW("fwlife", judge=j_c09), dict(CMP, judge=j_c10)], theorems=T_C09 + T_C09leg + T_C18 + T_TABLES + T_LEAF),
    "C15": dict(runs=[FW("fwfail", judge=j_c15w), FR("frfail", judge=j_c15r)], theorems=T_C15 + T_C15r),
    "C16": dict(runs=[FR("fr", judge=j_c16)], theorems=T("C16", "c16_writeTo", "c16_read", "c16_read_no_error", kind=_K64)),
    "C17": dict(runs=[FW("fwlife", judge=j_c17w, env={"VERIF_SCHED": "6"}), FR("fr", judge=j_c17r)], theorems=T_C17 + T_STATES),
    "C01": dict(runs=[dict(CMP, judge=j_c01)], theorems=T_C01rt + T_FAST + T_HC + T_OBJ),
    "C03": dict(runs=[dict(DEC_ASM, judge=j_c03), dict(DEC_GO, judge=j_c03), dict(GUARD_ASM, judge=j_c03), dict(GUARD_GO, judge=j_c03)], theorems=T("C04go", "c03_go") + T("C03asm", "c03_asm")),
    "C04": dict(runs=[dict(DEC_ASM, judge=j_c04), dict(DEC_GO, judge=j_c04)], theorems=T_GO + T_ASM),
    "C10": dict(runs=[dict(CMP, judge=j_c10)], theorems=T("C01fast", "c11_fast") + T("C01hc", "c11_hc")),
    "C11": dict(runs=[dict(CMP, judge=j_c11)], theorems=T("C01fast", "c11_fast") + T("C01hc", "c11_hc") + T_OBJ),
    "C18": dict(runs=[CR_FAM], theorems=T_C18),
    "C19": dict(runs=[HDR_FAM], theorems=T_C19 + T_TABLES + T_LEAF, exhaustive_thorough=True),
    "C12": dict(runs=[dict(DEC_ASM, judge=j_c12), dict(DEC_GO, judge=j_c12)], extra=[x_c12],
                theorems=T_C12 + T("C04go", "c04_go_partial") + T("C03asm", "c04_asm_partial")),
    "C13": dict(runs=[dict(XXH, judge=j_c13), FW("fwck", judge=j_c09, env={"VERIF_SCHED": "7"}), HDR_FAM,
                      FR("frck", judge=j_notes(r"EXPECTED-\S+|WRONG-CONTENT|TRUNC-ACCEPTED|NOT-PREFIX", "a wrong header / block / content checksum is not reported as such", "each checksum is verified against XXH32 of the bytes the format designates"))],
                extra=[x_c13_4g],
                theorems=T("C13", "oneshot", "stream", "stream_reset") + T("C19", "c19_accept_iff", "c19_spec") + T("C09", "c09_writer")),
    "C14": dict(runs=[dict(CMP, judge=j_c14b), FW("conc", judge=j_c08, env={"VERIF_SCHED": "4"}), FW("fw", judge=j_and(j_c02w, j_notes(r"DIFFERS-FROM-FRESH-WRITER", "the frame depends on how the stream was split into Write calls / on the object's past", "one frame per (options, data)")), env={"VERIF_SCHED": "5"}),
                      FW("fwlife", judge=j_c17w), POOL_FAM],   # the output is a function of options and data, whatever the object or the pools did before
                extra=[x_c14_groups], theorems=T_C14 + T_OBJ + T("C08", "W.order_final")),
}
