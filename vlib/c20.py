"""C20: the lz4c command, built from the working tree, run on generated files and flag sets.
The .lz4 file must be byte-identical with what the Lean Writer model emits for the options the
usage text promises (ReadFrom delivery), the strict Lean frame spec must accept it with those
parameters, and uncompress must restore bytes and permission bits."""
import os, subprocess, shutil, random, stat
from .common import Violation, sh, REPO, GOENV, BIN, DRIVER, SPEC

LEVELS = {0: 0, 1: 512, 2: 1024, 3: 2048, 4: 4096, 5: 8192, 6: 16384, 7: 32768, 8: 65536, 9: 131072}
SIZES = {"64K": 65536, "256K": 262144, "1M": 1048576, "4M": 4194304}


def build_lz4c(run):
    d = os.path.join(run.work, "lz4c")
    os.makedirs(d, exist_ok=True)
    for f in os.listdir(os.path.join(REPO, "cmd/lz4c")):
        if f.endswith(".go") or f in ("go.mod", "go.sum"):
            shutil.copy(os.path.join(REPO, "cmd/lz4c", f), d)
    gm = open(os.path.join(d, "go.mod")).read()
    gm = gm.replace("//replace github.com/pierrec/lz4/v4 => ../..", f"replace github.com/pierrec/lz4/v4 => {REPO}")
    if "replace github.com/pierrec/lz4/v4 =>" not in gm:
        gm += f"\nreplace github.com/pierrec/lz4/v4 => {REPO}\n"
    open(os.path.join(d, "go.mod"), "w").write(gm)
    rc, o, e = sh(["go", "build", "-o", "lz4c", "."], cwd=d, env=GOENV)
    if rc != 0:
        run.say("lz4c build failed:", e[-1500:])
        return None
    return os.path.join(d, "lz4c")


def x_c20(run):
    exe = build_lz4c(run)
    if not exe:
        run.viol.append(Violation("G", "cmd/lz4c does not build from the working tree"))
        return
    rnd = random.Random(run.seed)
    thorough = run.tier == "thorough"
    n = 60 if not thorough else 400
    wd = os.path.join(run.work, "c20")
    os.makedirs(wd, exist_ok=True)
    vh = os.path.join(BIN, "vh")
    cases = []
    for i in range(n):
        szname = rnd.choice(list(SIZES))
        bs = SIZES[szname]
        if not thorough and bs > 262144 and rnd.random() < 0.6:
            szname, bs = "64K", 65536
        flags = dict(size=szname, bc=rnd.random() < 0.5, sc=rnd.random() < 0.4, l=rnd.choice([None, 0, 1, 2, 3, 5, 9]),
                     c=rnd.choice([None, 1, 2, 4, 0, -1]))
        flen = rnd.choice([0, 1, 100, bs - 1, bs, bs + 1, 2 * bs, 2 * bs + 17, rnd.randrange(3 * bs)])
        lvl = LEVELS[flags["l"] or 0]
        kind = rnd.choice([0, 1, 2, 3, 4, 5, 6, 7, 7] if lvl < 4096 else [0, 2, 5, 6, 7])
        if lvl >= 4096: flen = min(flen, 100000)
        if i < 8:
            # directed: a stored (incompressible) block followed by compressible ones through one sequential
            # Writer, and the other way round, at every -c
            flags["c"] = [1, 1, None, 2, 1, 4, 1, None][i]
            kind = [6, 7, 6, 7, 5, 6, 7, 7][i]
            flen = [2 * bs, 4 * 65536 + 100, 2 * bs + 17, 5 * 65536, 2 * bs, 3 * bs, 3 * 65536, 6 * 65536][i]
            if kind == 7:
                szname, bs = "64K", 65536
                flags["size"] = szname
        tok = f"{kind}.{rnd.randrange(1000)}.{flen}"
        mode = rnd.choice([0o644, 0o600, 0o640, 0o755, 0o444])
        stdin = rnd.random() < 0.25
        cases.append((i, flags, tok, flen, mode, stdin, bs, lvl))
    model_lines, infos = [], []
    for (i, fl, tok, flen, mode, stdin, bs, lvl) in cases:
        conc = fl["c"] if fl["c"] and fl["c"] > 0 else 0
        model_lines.append(f"W -1 A:bc={int(fl['bc'])},bs={bs},cc={int(not fl['sc'])},lvl={lvl},conc={conc} rf:{tok}:0:-1:0 c")
    model = run.run_driver(DRIVER, model_lines) if run.lake_ok else None
    spec_req, spec_exp = [], []
    for idx, (i, fl, tok, flen, mode, stdin, bs, lvl) in enumerate(cases):
        run.cov["evaluations"] += 1
        # file names: endings made of the extension's own characters, several dots, the extension inside, spaces
        stem = rnd.choice(["f{}.dat", "small{}l", "report_v{}4", "backup{}.tar.z", "block_{}64", "x{}.", "a{}.lz4.dat", "n{}.lz", "{}", "z{}..4z.l"]).format(i)
        name = os.path.join(wd, stem)
        data = subprocess.run([vh, "data", tok], stdout=subprocess.PIPE).stdout
        open(name, "wb").write(data)
        os.chmod(name, mode)
        args = ["compress", "-size", fl["size"]]
        if fl["bc"]: args.append("-bc")
        if fl["sc"]: args.append("-sc")
        if fl["l"] is not None: args += ["-l", str(fl["l"])]
        if fl["c"] is not None: args += ["-c", str(fl["c"])]
        case = f"lz4c {' '.join(args)} {'<stdin' if stdin else 'file'} data={tok} mode={oct(mode)}"
        zname = name + ".lz4"
        try:
            if stdin:
                p = subprocess.run([exe] + args, input=data, stdout=subprocess.PIPE, stderr=subprocess.PIPE, timeout=120)
                open(zname, "wb").write(p.stdout)
            else:
                p = subprocess.run([exe] + args + [name], stdout=subprocess.PIPE, stderr=subprocess.PIPE, timeout=120,
                                   preexec_fn=lambda: os.umask(0))
        except subprocess.TimeoutExpired:
            run.viol.append(Violation("O", "lz4c compress hangs", case=case, impl="timeout")); continue
        if p.returncode != 0 or not os.path.exists(zname):
            run.viol.append(Violation("O", "lz4c compress failed", case=case, impl=(p.stderr.decode() + p.stdout.decode("utf-8", "replace"))[-300:])); continue
        zlen = os.path.getsize(zname)
        fz = subprocess.run([vh, "fnv", zname, name], stdout=subprocess.PIPE).stdout.decode().split("\n")
        zsz, zf = fz[0].split()
        # K: the Lean Writer model predicts the file byte for byte
        if model is not None:
            want = model[idx]
            got = f"bytes={zsz},fnv={zf}"
            if got not in want:
                run.viol.append(Violation("K", "the .lz4 file differs from what the Writer model emits for the options the usage text promises",
                                          case=case + " | model line: " + model_lines[idx], impl=got, expected=want[-200:]))
        # O: the strict frame spec accepts it with the advertised parameters
        spec_req.append(f"SF 1 @{zname}")
        spec_exp.append((case, f"ok ver=1 indep=1 bc={int(fl['bc'])} cc={int(not fl['sc'])} size=- bmax={bs} len={len(data)} fnv={fz[1].split()[1]} consumed={zsz}"))
        # round trip
        if stdin:
            q = subprocess.run([exe, "uncompress"], input=open(zname, "rb").read(), stdout=subprocess.PIPE, stderr=subprocess.PIPE, timeout=120)
            back = q.stdout
            if q.returncode != 0 or back != data:
                run.viol.append(Violation("O", "lz4c stdin/stdout round trip failed", case=case, impl=f"rc={q.returncode} {len(back)} bytes", expected=f"{len(data)} bytes restored"))
        else:
            os.rename(name, name + ".orig")
            q = subprocess.run([exe, "uncompress", zname], stdout=subprocess.PIPE, stderr=subprocess.PIPE, timeout=120, preexec_fn=lambda: os.umask(0))
            ok = q.returncode == 0 and os.path.exists(name) and open(name, "rb").read() == data
            if not ok:
                run.viol.append(Violation("O", "lz4c file round trip failed", case=case, impl=f"rc={q.returncode} {q.stderr.decode()[-200:]}", expected="original bytes restored"))
            else:
                zm = stat.S_IMODE(os.stat(zname).st_mode); m2 = stat.S_IMODE(os.stat(name).st_mode)
                if zm != mode or m2 != mode:
                    run.viol.append(Violation("O", "permission bits not preserved", case=case, impl=f".lz4 {oct(zm)} restored {oct(m2)}", expected=oct(mode)))
            for f in (name, name + ".orig"):
                try: os.chmod(f, 0o644)
                except OSError: pass
        run.cov["distinct"].add(case)
        if len(run.cov["samples"]) < 4:
            run.cov["samples"].append(dict(case=case, lz4_bytes=int(zsz)))
        key = f"lz4c:size={fl['size']}:bc={int(fl['bc'])}:sc={int(fl['sc'])}:l={fl['l']}:{'stdin' if stdin else 'file'}"
        run.cov["hist"][key] = run.cov["hist"].get(key, 0) + 1
    ans = run.run_driver(SPEC, spec_req)
    run.cov["oracle_queries"] += len(spec_req)
    for (case, exp), a in zip(spec_exp, ans):
        if a != exp:
            run.viol.append(Violation("O", "the .lz4 file is not the frame the flags promise (strict spec)", case=case, impl=a, expected=exp))
    run.say(f"C20: {len(cases)} lz4c runs (files and stdin/stdout), model-predicted bytes, spec-checked frames, modes")
