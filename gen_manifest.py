#!/usr/bin/env python3
"""Writes MANIFEST.json from vlib/manifest_data.py (kept valid at all times)."""
import json, os, sys, subprocess
ROOT = os.path.dirname(os.path.abspath(__file__))
sys.path.insert(0, ROOT)
from vlib import manifest_data as M
from vlib import props as P

def theorem_text(i):
    th = P.PROPS[i].get("theorems") or []
    if not th:
        return " No theorem is registered for this property yet: the level is the model/code correspondence plus the specification oracle."
    return " Kernel-checked theorems (axioms audited on every run): " + "; ".join(f"{t['name'].replace('Lz4V.Props.', '')} [{t['kind']}]" for t in th) + "."

props = [json.loads(l) for l in open(os.path.join(ROOT, "properties.jsonl"))]
ids = [p["id"] for p in props]
hooks = subprocess.run(["git", "-C", "/repo", "log", "--format=%H %s"], stdout=subprocess.PIPE).stdout.decode().splitlines()
hook_commits = [l.split()[0] for l in hooks if l.split(" ", 1)[1].startswith("verif:")]
checks, na = [], []
for i in ids:
    if i in M.CHECKS and i in P.PROPS:
        c = M.CHECKS[i]
        checks.append(dict(
            property_id=i,
            quick_cmd=f"./check {i} --tier quick",
            thorough_cmd=f"./check {i} --tier thorough",
            evidence_file=f"/verif/evidence/{i}.json",
            replay_cmd_template=f"./check {i} --replay {{path}}",
            engine="lean4-proof+correspondence",
            level_claimed=dict(category=c.get("category", "proof" if P.PROPS[i].get("theorems") else "translation_validation"),
                               text=c["text"] + theorem_text(i), design_ref=c.get("design_ref", "DESIGN.md §6 " + i)),
            level_note=c["note"],
            technique=c["technique"],
        ))
    else:
        na.append(dict(property_id=i, reason=M.NOT_APPLICABLE.get(i, "no check has been built for this property yet (work in progress; see DESIGN.md §10)")))
man = dict(
    version=1,
    setup_cmd="./setup.sh",
    hooks=dict(guard="verif", enable="go build -tags verif (and -tags verif,noasm for the portable decoder)",
               baseline_off_cmd="/verif/baseline.sh", source_commits=hook_commits, add_only=True),
    engines=[dict(name="lean4-proof+correspondence", path="/verif/check", serves_properties=[c["property_id"] for c in checks],
                  kind_free_text="Lean 4 theorems about hand-written models (lean/Lz4V), constants and leaf functions regenerated from the Go "
                                 "source on every run (harness/extract), models run side by side with the real code through a line protocol "
                                 "(harness/, lean/Driver.lean), independent Lean specifications as oracle (lean/SpecDriver.lean)")],
    checks=checks,
    notes=M.NOTES,
    not_applicable=na,
)
json.dump(man, open(os.path.join(ROOT, "MANIFEST.json"), "w"), indent=1)
print("MANIFEST.json:", len(checks), "checks,", len(na), "not claimed")
